(* C02, .inc (DefinesParser): the block theorem.  A file that is a sequence of blocks
     - an entity  #define KEY [VALUE] newline , optionally preceded directly by comment lines
       "# text" (its attached comment),
     - a standalone comment, followed by the end of the file, a run of empty lines or an
       instruction,
     - an instruction  #word args  ("#filter emptyLines" switches the empty-line filter on,
       "#unfilter emptyLines" off; the parser keeps that state in its context),
     - a run of n newlines: together with the newline that ends the line before, a run of
       newlines is ONE Whitespace entry when it is a single newline or the filter is on, and
       ONE Junk entry otherwise (and always at offset 0),
   parses to exactly the entries computed from the blocks by [nentries_of], which threads the
   filter state exactly as the blocks prescribe. *)
From Coq Require Import NArith List Bool Arith Lia.
From CL Require Import Base.Sx Base.Res Base.Str Regex.Rx Regex.RxLemmas Model.Entry Model.Parse
  Model.ParseFormats Generated.Tables Generated.RxParser Proofs.UnescapeProofs
  Proofs.ClassLoop Proofs.ClassLoop2 Proofs.C02Props Proofs.WalkProofs Proofs.C02Roundtrip
  Proofs.C02BlocksRx Proofs.C02BlocksIniRx Proofs.C02BlocksIncRx.
Import ListNotations.

Local Arguments Nat.ltb : simpl never.
Local Arguments Nat.leb : simpl never.
Local Arguments Nat.eqb : simpl never.
Local Arguments N.eqb : simpl never.
Local Arguments N.leb : simpl never.
Local Arguments chr_ok : simpl never.
Local Opaque word_ranges.

Ltac norm_app := repeat (progress (rewrite <- ?app_assoc; cbn [app])).

(* ---- blocks ------------------------------------------------------------------------------------ *)
Inductive nblock :=
| NBlank (n : nat)                                       (* n newlines *)
| NComment (cs : list (N * str))                         (* lines "# text" *)
| NInstr (w b r : str) (nl : bool)                       (* # word blanks rest *)
| NEntity (cs : list (N * str)) (b1 key : str) (v : option (N * str)) (nl : bool).
   (* comment lines, "#define", blanks, KEY, optionally one blank or tab and the value *)

Definition eol (nl : bool) : str := if nl then [10%N] else [].
Definition nls (n : nat) : str := repeat 10%N n.

Definition ntext (b : nblock) : str :=
  match b with
  | NBlank n => nls n
  | NComment cs => ctext cs
  | NInstr w b r nl => 35%N :: w ++ b ++ r ++ eol nl
  | NEntity cs b1 key v nl => ctext cs ++ s_define ++ b1 ++ key ++ vtext v ++ eol nl
  end.

Definition is_nil {A} (l : list A) : bool := match l with [] => true | _ => false end.
Definition s_define_word : str := [100; 101; 102; 105; 110; 101]%N.      (* define *)

Definition legal_nblockb (b : nblock) : bool :=
  match b with
  | NBlank n => 1 <=? n
  | NComment cs => negb (is_nil cs) && forallb legal_cline_n cs
  | NInstr w b r _ =>
      negb (is_nil w) && is_word w && negb (starts_with s_define_word w) &&
      negb (is_nil b) && is_blanks b &&
      negb (is_nil r) && no_nl r && negb (head_is (fun c => mem c BL) r)
  | NEntity cs b1 key v _ =>
      forallb legal_cline_n cs && negb (is_nil b1) && is_blanks b1 &&
      negb (is_nil key) && is_word key && legal_nval v
  end.
Definition legal_nblock (b : nblock) : Prop := legal_nblockb b = true.

(* a standalone comment is followed by the end of the file, empty lines or an instruction;
   a block without its final newline is the last one *)
Fixpoint nsep (bs : list nblock) : bool :=
  match bs with
  | [] => true
  | NBlank _ :: rest => nsep rest
  | NComment _ :: rest =>
      match rest with
      | [] | NBlank _ :: _ | NInstr _ _ _ _ :: _ => true
      | _ => false
      end && nsep rest
  | NInstr _ _ _ nl :: rest => (nl || is_nil rest) && nsep rest
  | NEntity _ _ _ _ nl :: rest => (nl || is_nil rest) && nsep rest
  end.
Definition nadjacent_ok (bs : list nblock) : Prop := nsep bs = true.

(* ---- the expected entries; [fe] is the filter state, [w] the number of pending newlines ---- *)
Definition bad_run (fe : bool) (off w : nat) : bool :=
  Nat.eqb off 0 || negb (Nat.eqb w 1 || fe).

Definition nflush (fe : bool) (off w : nat) : list entry :=
  match w with
  | 0 => []
  | _ => if bad_run fe off w then [mk_junk (off, off + w)] else [mk_white (off, off + w)]
  end.

Definition new_filter (fe : bool) (txt : str) : bool :=
  if str_eqb txt s_filter then true else if str_eqb txt s_unfilter then false else fe.

Fixpoint nents (fe : bool) (off w : nat) (bs : list nblock) : list entry :=
  match bs with
  | [] => nflush fe off w
  | NBlank n :: rest => nents fe off (w + n) rest
  | NComment cs :: rest =>
      let a := off + w in
      let e := a + length (cbody cs) in
      nflush fe off w ++ mk_comment (a, e) :: nents fe e 1 rest
  | NInstr w0 b r nl :: rest =>
      let a := off + w in
      let e := a + 1 + length w0 + length b + length r in
      nflush fe off w ++
      mkentry KInstruction (a, e) (Some (a + 1, e)) (Some (a + 1, e)) None None
      :: nents (new_filter fe (w0 ++ b ++ r)) e (length (eol nl)) rest
  | NEntity cs b1 key v nl :: rest =>
      let a := off + w in
      let k := a + length (ctext cs) in
      let ks := k + 7 + length b1 in
      let ke := ks + length key in
      let e := ke + length (vtext v) in
      nflush fe off w ++
      mkentry KEntity (k, e) (Some (ks, ke))
              (match v with Some (_, val) => Some (ke + 1, ke + 1 + length val) | None => None end)
              (match cs with [] => None | _ => Some (a, k - 1) end)
              (match cs with [] => None | _ => Some (k - 1, k) end)
      :: nents fe e (length (eol nl)) rest
  end.

Definition nentries_of (bs : list nblock) : list entry := nents false 0 0 bs.
Definition nfile_text (bs : list nblock) : str := concat (map ntext bs).

(* ---- sanity, by evaluation ------------------------------------------------------------------------ *)
Definition A (l : list nat) : str := map N.of_nat l.
Definition nx_filter : nblock :=                      (* #filter emptyLines *)
  NInstr (A [102; 105; 108; 116; 101; 114]) (A [32]) (A [101; 109; 112; 116; 121; 76; 105; 110; 101; 115]) true.
Definition nx_unfilter : nblock :=
  NInstr (A [117; 110; 102; 105; 108; 116; 101; 114]) (A [32]) (A [101; 109; 112; 116; 121; 76; 105; 110; 101; 115]) true.
Definition nx_incl : nblock := NInstr (A [105; 110; 99]) (A [32; 9]) (A [120; 46; 121]) true.   (* #inc  x.y *)
Definition nx_e1 : nblock := NEntity [] (A [32]) (A [107]) (Some (32%N, A [118; 32; 119])) true.  (* #define k v w *)
Definition nx_e2 : nblock :=                                                                      (* # c / #define<tab>k2 *)
  NEntity [(35%N, A [32; 99])] (A [9]) (A [107; 50]) None true.
Definition nx_e3 : nblock := NEntity [] (A [32; 32]) (A [95; 49]) (Some (9%N, [])) false.         (* #define  _1<tab> *)
Definition nx_c : nblock := NComment [(35%N, A [32; 115]); (35%N, A [32])].
Definition nx_b1 : nblock := NBlank 1.
Definition nx_b2 : nblock := NBlank 2.

Example nx_filter_state :
  let bs := [nx_c; nx_filter; nx_b1; nx_e1; nx_b2; nx_e2; nx_unfilter; nx_e1; nx_b1; nx_e2; nx_incl; nx_c; nx_b1; nx_e3] in
  Forall legal_nblock bs /\ nadjacent_ok bs /\ walk_defines (nfile_text bs) = Ok (nentries_of bs) /\
  map (fun e => (e_kind e, e_span e)) (nentries_of bs) =
  [(KComment, (0, 6)); (KWhitespace, (6, 7)); (KInstruction, (7, 25)); (KWhitespace, (25, 27));
   (KEntity, (27, 40)); (KWhitespace, (40, 43)); (KEntity, (47, 57)); (KWhitespace, (57, 58));
   (KInstruction, (58, 78)); (KWhitespace, (78, 79)); (KEntity, (79, 92)); (KJunk, (92, 94));
   (KEntity, (98, 108)); (KWhitespace, (108, 109)); (KInstruction, (109, 118));
   (KWhitespace, (118, 119)); (KComment, (119, 125)); (KJunk, (125, 127)); (KEntity, (127, 139))].
Proof. split; [repeat constructor|]. split; [vm_compute; reflexivity|]. split; vm_compute; reflexivity. Qed.

(* empty lines at the start of the file are junk even inside... there is no filter yet *)
Example nx_leading_blank :
  let bs := [nx_b1; nx_e1] in
  Forall legal_nblock bs /\ nadjacent_ok bs /\ walk_defines (nfile_text bs) = Ok (nentries_of bs) /\
  map (fun e => (e_kind e, e_span e)) (nentries_of bs) =
  [(KJunk, (0, 1)); (KEntity, (1, 14)); (KWhitespace, (14, 15))].
Proof. split; [repeat constructor|]. split; [vm_compute; reflexivity|]. split; vm_compute; reflexivity. Qed.

(* ---- small facts ------------------------------------------------------------------------------------- *)
Lemma head_is_app : forall f (x y : str), x <> [] -> head_is f (x ++ y) = head_is f x.
Proof. intros f [|c x] y H; [contradiction|reflexivity]. Qed.

Lemma match_ne : forall {A B : Type} (l : list A) (x : B), l <> [] ->
  match l with [] => None | _ :: _ => Some x end = Some x.
Proof. intros A B [|c l] x H; [contradiction|reflexivity]. Qed.

Lemma nls_S : forall n, nls (S n) = 10%N :: nls n.
Proof. reflexivity. Qed.

Lemma nls_app : forall n k, nls (n + k) = nls n ++ nls k.
Proof. intros. unfold nls. apply repeat_app. Qed.

Lemma nls_length : forall n, length (nls n) = n.
Proof. intros. apply repeat_length. Qed.

Lemma count_nls : forall n, count_char 10%N (nls n) = n.
Proof. induction n as [|n IH]; [reflexivity|]. rewrite nls_S. unfold count_char in *. simpl. rewrite IH. reflexivity. Qed.

Lemma head2_define : forall X, head2 (s_define ++ X) = false.
Proof. reflexivity. Qed.

Lemma head2_nl : forall X, head2 (10%N :: X) = false.
Proof. reflexivity. Qed.

Lemma head2_instr : forall w X, w <> [] -> is_word w = true -> head2 (35%N :: w ++ X) = false.
Proof.
  intros [|c w] X Hne Hw; [contradiction|]. simpl in Hw. apply andb_true_iff in Hw. destruct Hw as [Hc _].
  cbn [app head2]. destruct (N.eqb_spec c 32) as [->|Hn].
  - exfalso. assert (E : chr_ok false WC 32%N = false) by (apply word_not_blank; reflexivity). congruence.
  - destruct c; try reflexivity. repeat (destruct p; try reflexivity). contradiction.
Qed.

(* "#define" + blank is not an instruction start, and an instruction word does not begin "define" *)
Lemma sw_app : forall l (w Y : str), starts_with l (w ++ Y) = true ->
  starts_with l w = true \/ exists c, In c l /\ head_is (N.eqb c) Y = true.
Proof.
  induction l as [|c l IH]; intros w Y H; [left; reflexivity|].
  destruct w as [|d w].
  - right. exists c. split; [left; reflexivity|]. simpl in H. destruct Y as [|y Y]; [discriminate|].
    simpl in H. apply andb_true_iff in H. destruct H as [H _]. exact H.
  - simpl in H. apply andb_true_iff in H. destruct H as [H1 H2].
    destruct (IH w Y H2) as [E|[c' [Hin Hh]]].
    + left. simpl. rewrite H1, E. reflexivity.
    + right. exists c'. split; [right; exact Hin|exact Hh].
Qed.

Lemma instr_not_define : forall w b X, starts_with s_define_word w = false ->
  b <> [] -> is_blanks b = true -> starts_with s_define (35%N :: w ++ b ++ X) = false.
Proof.
  intros w b X Hw Hb1 Hb2.
  destruct (starts_with s_define (35%N :: w ++ b ++ X)) eqn:E; [|reflexivity]. exfalso.
  change s_define with (35%N :: s_define_word) in E. cbn [starts_with] in E.
  rewrite N.eqb_refl in E. cbn [andb] in E.
  destruct (sw_app _ _ _ E) as [E1|[c [Hin Hh]]]; [congruence|].
  destruct b as [|d b']; [contradiction|]. cbn [app head_is] in Hh. apply N.eqb_eq in Hh. subst d.
  simpl in Hb2. apply andb_true_iff in Hb2. destruct Hb2 as [Hc _].
  simpl in Hin. destruct Hin as [<-|[<-|[<-|[<-|[<-|[<-|[]]]]]]]; discriminate.
Qed.

(* ---- step: a run of newlines ------------------------------------------------------------------------- *)
Ltac open_inc := unfold gn_defines, get_next_defines.

Lemma gn_n_blank : forall fe (a y : str) n,
  1 <= n -> head_is (fun c => N.eqb c 10) y = false ->
  gn_defines fe (a ++ nls n ++ y) (length a) =
  (if bad_run fe (length a) n then mk_junk (length a, length a + n)
   else mk_white (length a, length a + n), fe).
Proof.
  intros fe a y n Hn Hy. open_inc.
  assert (Ec : omatch rx_inc_comment (a ++ nls n ++ y) (length a) = None).
  { apply omatch_ncomment_none. destruct n; [lia|]. reflexivity. }
  rewrite Ec. cbv beta iota zeta. unfold nls. rewrite omatch_nws by exact Hy.
  replace (1 <=? n) with true by (symmetry; apply Nat.leb_le; exact Hn).
  cbv beta iota zeta. cbn [m_start m_end]. replace (length a + n - length a) with n by lia.
  unfold bad_run. destruct (Nat.eqb (length a) 0 || negb (Nat.eqb n 1 || fe)); reflexivity.
Qed.

(* ---- step: a standalone comment ------------------------------------------------------------------------- *)
Inductive after_ncomment : str -> Prop :=
| anc_eof : after_ncomment []
| anc_blank : forall n y, 1 <= n -> head_is (fun c => N.eqb c 10) y = false ->
              after_ncomment (nls n ++ y)
| anc_instr : forall w b X, w <> [] -> is_word w = true -> starts_with s_define_word w = false ->
              b <> [] -> is_blanks b = true -> after_ncomment (35%N :: w ++ b ++ X).

Lemma gn_n_comment : forall fe (a : str) cs after,
  bol (rev a) = true -> cs <> [] -> forallb legal_cline_n cs = true -> after_ncomment after ->
  gn_defines fe (a ++ ctext cs ++ after) (length a) =
  (mk_comment (length a, length a + length (cbody cs)), fe).
Proof.
  intros fe a cs after Hbol Hne Hcs Hafter. set (s := a ++ ctext cs ++ after).
  assert (HX1 : head2 after = false).
  { destruct Hafter as [|n y Hn Hy|w b X H1 H2 H3 H4 H5]; [reflexivity| |].
    - destruct n; [lia|]. reflexivity.
    - apply head2_instr; auto. }
  set (L := a ++ cbody cs). set (P := a ++ ctext cs).
  assert (EL : length a + length (cbody cs) = length L) by (unfold L; rewrite app_length; reflexivity).
  assert (EP : length L + 1 = length P).
  { unfold L, P. rewrite (ctext_body cs Hne), !app_length. simpl. lia. }
  assert (Lpos : 1 <= length L).
  { rewrite <- EL. destruct cs as [|c [|c2 cs']]; [contradiction| |].
    - rewrite cbody_one. simpl. lia.
    - rewrite cbody_cons, app_length. unfold cline_text. simpl. lia. }
  assert (Ec : omatch rx_inc_comment s (length a) = Some (mkres (length a) (length L) [])).
  { unfold s. rewrite omatch_ncomment by auto. rewrite EL. reflexivity. }
  (* the run of newlines after the comment, its count, and no key after a single newline *)
  assert (Hrun : exists n, 1 <= n /\
            omatch rx_inc_ws s (length L) = Some (mkres (length L) (length L + n) []) /\
            slice s (length L) (length L + n) = nls n /\
            (n = 1 -> omatch rx_inc_key s (length L + 1) = None)).
  { destruct Hafter as [|n y Hn Hy|w b X H1 H2 H3 H4 H5].
    - assert (Es2 : s = L ++ nls 1 ++ []).
      { unfold s, L. rewrite (ctext_body cs Hne). norm_app. reflexivity. }
      exists 1. split; [lia|]. split; [|split].
      + rewrite Es2. unfold nls. rewrite omatch_nws by reflexivity. reflexivity.
      + rewrite Es2. apply (slice_mid L (nls 1) []).
      + intros _. rewrite EP. replace s with (P ++ []) by (unfold s, P; norm_app; reflexivity).
        apply omatch_nkey_none. reflexivity.
    - assert (Es2 : s = L ++ nls (S n) ++ y).
      { unfold s, L. rewrite (ctext_body cs Hne), nls_S. norm_app. reflexivity. }
      exists (S n). split; [lia|]. split; [|split].
      + rewrite Es2. unfold nls. rewrite omatch_nws by exact Hy. reflexivity.
      + rewrite Es2. pose proof (slice_mid L (nls (S n)) y) as Hsl. rewrite nls_length in Hsl. exact Hsl.
      + intros E. lia.
    - set (Y := 35%N :: w ++ b ++ X) in *.
      assert (Es2 : s = L ++ nls 1 ++ Y).
      { unfold s, L. rewrite (ctext_body cs Hne). norm_app. reflexivity. }
      exists 1. split; [lia|]. split; [|split].
      + rewrite Es2. unfold nls. rewrite omatch_nws by reflexivity. reflexivity.
      + rewrite Es2. apply (slice_mid L (nls 1) Y).
      + intros _. rewrite EP. replace s with (P ++ Y) by (unfold s, P; norm_app; reflexivity).
        apply omatch_nkey_none. apply instr_not_define; auto. }
  destruct Hrun as [n [Hn [Ew [Esl Ek]]]].
  open_inc. fold s. rewrite Ec. cbv beta iota zeta. cbn [m_start m_end].
  rewrite Ew. cbv beta iota zeta. cbn [m_start m_end].
  replace (Nat.eqb (length L) 0) with false by (symmetry; apply Nat.eqb_neq; lia).
  replace (length L + n - length L) with n by lia. rewrite Esl, count_nls.
  unfold mspan. cbn [m_start m_end]. rewrite EL.
  destruct (Nat.eq_dec n 1) as [->|Hn1].
  - replace (Nat.eqb 1 1) with true by reflexivity. cbn [orb negb].
    replace (1 <? 1) with false by reflexivity. rewrite (Ek eq_refl). reflexivity.
  - replace (Nat.eqb n 1) with false by (symmetry; apply Nat.eqb_neq; exact Hn1). cbn [orb].
    destruct fe; cbn [negb]; [|reflexivity].
    replace (1 <? n) with true by (symmetry; apply Nat.ltb_lt; lia). reflexivity.
Qed.

(* ---- step: #define ---------------------------------------------------------------------------------------- *)
Lemma head_not_nl_define : forall X, head_is (fun c => N.eqb c 10) (s_define ++ X) = false.
Proof. reflexivity. Qed.

Lemma gn_n_entity : forall fe (a : str) cs b1 key v T,
  forallb legal_cline_n cs = true -> b1 <> [] -> is_blanks b1 = true ->
  key <> [] -> is_word key = true -> legal_nval v = true -> tail_nl T ->
  (cs <> [] -> bol (rev a) = true) ->
  let s := a ++ ctext cs ++ s_define ++ b1 ++ key ++ vtext v ++ T in
  let k := length a + length (ctext cs) in
  let ks := k + 7 + length b1 in
  let ke := ks + length key in
  gn_defines fe s (length a) =
  (mkentry KEntity (k, ke + length (vtext v)) (Some (ks, ke))
     (match v with Some (_, val) => Some (ke + 1, ke + 1 + length val) | None => None end)
     (match cs with [] => None | _ => Some (length a, k - 1) end)
     (match cs with [] => None | _ => Some (k - 1, k) end), fe).
Proof.
  intros fe a cs b1 key v T Hcs Hb1 Hb2 Hk1 Hk2 Hv HT Hbol s k ks ke.
  set (X := s_define ++ b1 ++ key ++ vtext v ++ T) in *.
  assert (Hcase : cs = [] \/ cs <> []) by (destruct cs; [left; reflexivity|right; discriminate]).
  assert (Hgrp : forall P, omatch rx_inc_key (P ++ X) (length P) =
    Some (mkres (length P) (length P + 7 + length b1 + length key + length (vtext v))
          match v with
          | Some (_, val) => [(2, (length P + 7 + length b1 + length key + 1,
                                    length P + 7 + length b1 + length key + 1 + length val));
                              (1, (length P + 7 + length b1, length P + 7 + length b1 + length key))]
          | None => [(1, (length P + 7 + length b1, length P + 7 + length b1 + length key))]
          end)).
  { intros P. unfold X. apply omatch_nkey; auto. }
  assert (Hg : forall (P : str) caps0,
    caps0 = match v with
          | Some (_, val) => [(2, (length P + 7 + length b1 + length key + 1,
                                    length P + 7 + length b1 + length key + 1 + length val));
                              (1, (length P + 7 + length b1, length P + 7 + length b1 + length key))]
          | None => [(1, (length P + 7 + length b1, length P + 7 + length b1 + length key))]
          end ->
    get_cap g_inc_key_key caps0 = Some (length P + 7 + length b1, length P + 7 + length b1 + length key) /\
    get_cap g_inc_key_val caps0 =
      match v with
      | Some (_, val) => Some (length P + 7 + length b1 + length key + 1,
                               length P + 7 + length b1 + length key + 1 + length val)
      | None => None end).
  { intros P caps0 ->. unfold g_inc_key_key, g_inc_key_val. destruct v as [[c val]|]; cbn [get_cap];
      replace (Nat.eqb 1 2) with false by reflexivity; replace (Nat.eqb 1 1) with true by reflexivity;
      replace (Nat.eqb 2 2) with true by reflexivity; try replace (Nat.eqb 2 1) with false by reflexivity;
      split; reflexivity. }
  destruct Hcase as [Ecs|Hne].
  - subst cs.
    assert (Es : s = a ++ X) by reflexivity.
    assert (Ek : k = length a) by (unfold k; simpl; lia).
    open_inc. rewrite Es, omatch_ncomment_none by reflexivity. cbv beta iota zeta.
    assert (Ew : omatch rx_inc_ws (a ++ X) (length a) = None).
    { change (a ++ X) with (a ++ repeat 10%N 0 ++ X). rewrite omatch_nws by reflexivity. reflexivity. }
    rewrite Ew. cbv beta iota zeta.
    rewrite (Hgrp a). unfold mspan, group. cbn [m_start m_end m_caps].
    destruct (Hg a _ eq_refl) as [G1 G2]. rewrite G1, G2. unfold ke, ks. rewrite Ek. reflexivity.
  - rewrite !(match_ne cs) by exact Hne. specialize (Hbol Hne).
    set (L := a ++ cbody cs). set (P := a ++ ctext cs).
    assert (Es1 : s = a ++ ctext cs ++ X) by reflexivity.
    assert (Es2 : s = L ++ nls 1 ++ X).
    { unfold s, L. rewrite (ctext_body cs Hne). norm_app. reflexivity. }
    assert (Es3 : s = P ++ X) by (unfold s, P; norm_app; reflexivity).
    assert (EL : length a + length (cbody cs) = length L) by (unfold L; rewrite app_length; reflexivity).
    assert (EP : length L + 1 = length P).
    { unfold L, P. rewrite (ctext_body cs Hne), !app_length. simpl. lia. }
    assert (Ekp : k = length P) by (unfold k, P; rewrite app_length; reflexivity).
    assert (Lpos : 1 <= length L).
    { rewrite <- EL. destruct cs as [|c [|c2 cs']]; [contradiction| |].
      - rewrite cbody_one. simpl. lia.
      - rewrite cbody_cons, app_length. unfold cline_text. simpl. lia. }
    assert (Ec : omatch rx_inc_comment s (length a) = Some (mkres (length a) (length L) [])).
    { rewrite Es1. rewrite omatch_ncomment by auto. rewrite EL. reflexivity. }
    assert (Ew : omatch rx_inc_ws s (length L) = Some (mkres (length L) (length L + 1) [])).
    { rewrite Es2. unfold nls. rewrite omatch_nws by reflexivity. reflexivity. }
    assert (Esl : slice s (length L) (length L + 1) = nls 1).
    { rewrite Es2. apply (slice_mid L (nls 1) X). }
    open_inc. rewrite Ec. cbv beta iota zeta. cbn [m_start m_end].
    rewrite Ew. cbv beta iota zeta. cbn [m_start m_end].
    replace (Nat.eqb (length L) 0) with false by (symmetry; apply Nat.eqb_neq; lia).
    replace (length L + 1 - length L) with 1 by lia. replace (Nat.eqb 1 1) with true by reflexivity.
    cbn [orb negb]. rewrite Esl, count_nls. replace (1 <? 1) with false by reflexivity.
    rewrite EP.
    pose proof (Hgrp P) as G. rewrite <- Es3 in G. rewrite G.
    unfold mspan, group. cbn [m_start m_end m_caps].
    destruct (Hg P _ eq_refl) as [G1 G2]. rewrite G1, G2.
    unfold ke, ks. rewrite Ekp. replace (length P - 1) with (length L) by lia.
    reflexivity.
Qed.

(* ---- step: an instruction ---------------------------------------------------------------------------------- *)
Lemma gn_n_instr : forall fe (a : str) w b r T,
  w <> [] -> is_word w = true -> starts_with s_define_word w = false ->
  b <> [] -> is_blanks b = true ->
  r <> [] -> no_nl r = true -> head_is (fun c => mem c BL) r = false -> tail_nl T ->
  let e := length a + 1 + length w + length b + length r in
  gn_defines fe (a ++ 35%N :: w ++ b ++ r ++ T) (length a) =
  (mkentry KInstruction (length a, e) (Some (length a + 1, e)) (Some (length a + 1, e)) None None,
   new_filter fe (w ++ b ++ r)).
Proof.
  intros fe a w b r T H1 H2 H3 H4 H5 H6 H7 H8 HT e.
  set (X := 35%N :: w ++ b ++ r ++ T).
  open_inc. fold X.
  rewrite omatch_ncomment_none by (apply head2_instr; auto). cbv beta iota zeta.
  assert (Ew : omatch rx_inc_ws (a ++ X) (length a) = None).
  { change (a ++ X) with (a ++ repeat 10%N 0 ++ X). rewrite omatch_nws by reflexivity. reflexivity. }
  rewrite Ew. cbv beta iota zeta.
  rewrite omatch_nkey_none by (unfold X; apply instr_not_define; auto).
  unfold X. rewrite omatch_pi by auto. unfold group, g_inc_pi_val, mspan. cbn [m_start m_end m_caps get_cap].
  replace (Nat.eqb 1 1) with true by reflexivity. fold e.
  assert (Esl : slice (a ++ 35%N :: w ++ b ++ r ++ T) (length a + 1) e = w ++ b ++ r).
  { replace (a ++ 35%N :: w ++ b ++ r ++ T) with ((a ++ [35%N]) ++ (w ++ b ++ r) ++ T) by (norm_app; reflexivity).
    replace (length a + 1) with (length (a ++ [35%N])) by (rewrite app_length; reflexivity).
    replace e with (length (a ++ [35%N]) + length (w ++ b ++ r))
      by (unfold e; rewrite !app_length; simpl; lia).
    apply slice_mid. }
  rewrite Esl. unfold new_filter. reflexivity.
Qed.

(* ---- the walk (the filter state is the parser's context) ------------------------------------------------- *)
Lemma walk_step_n : forall fuel fe s off e fe' es,
  off < length s -> gn_defines fe s off = (e, fe') ->
  walk_loop gn_defines fuel fe' s (snd (e_span e)) = Ok es ->
  walk_loop gn_defines (S fuel) fe s off = Ok (e :: es).
Proof.
  intros fuel fe s off e fe' es Hoff G H. rewrite walk_loop_S.
  replace (off <? length s) with true by (symmetry; apply Nat.ltb_lt; exact Hoff).
  rewrite G, H. reflexivity.
Qed.

(* the invariant: [a] has been consumed, [n] newlines are pending, the filter state is [fe] *)
Definition nstmt (bs : list nblock) (fe : bool) (a : str) (n : nat) : Prop :=
  (bs <> [] -> bol (rev (a ++ nls n)) = true) ->
  forall fuel, length (a ++ nls n ++ nfile_text bs) - length a < fuel ->
  walk_loop gn_defines fuel fe (a ++ nls n ++ nfile_text bs) (length a) =
  Ok (nents fe (length a) n bs).

Definition nonblank_head (bs : list nblock) : Prop :=
  match bs with NBlank _ :: _ => False | _ => True end.

Lemma nents_flush : forall bs fe off w, nonblank_head bs ->
  nents fe off w bs = nflush fe off w ++ nents fe (off + w) 0 bs.
Proof.
  intros [|[x|cs|w0 b r nl|cs b1 key v nl] rest] fe off w H; try contradiction; simpl;
    rewrite ?Nat.add_0_r, ?app_nil_r; reflexivity.
Qed.

Lemma lift_nflush : forall bs fe, nonblank_head bs ->
  head_is (fun c => N.eqb c 10) (nfile_text bs) = false ->
  (forall a, nstmt bs fe a 0) ->
  forall a n, nstmt bs fe a n.
Proof.
  intros bs fe Hnb Hhead H0 a n Hbol fuel Hf.
  destruct n as [|n'] eqn:En; [apply (H0 a); auto|]. rewrite <- En in *.
  assert (Hn : 1 <= n) by lia.
  destruct fuel as [|f]; [lia|].
  rewrite nents_flush by exact Hnb.
  pose proof (gn_n_blank fe a (nfile_text bs) n Hn Hhead) as G.
  assert (Efl : nflush fe (length a) n =
                [if bad_run fe (length a) n then mk_junk (length a, length a + n)
                 else mk_white (length a, length a + n)]).
  { rewrite En. unfold nflush. rewrite <- En. destruct (bad_run fe (length a) n); reflexivity. }
  rewrite Efl. simpl app. eapply walk_step_n; [|exact G|].
  - rewrite !app_length, nls_length. lia.
  - assert (Esp : snd (e_span (if bad_run fe (length a) n then mk_junk (length a, length a + n)
                               else mk_white (length a, length a + n))) = length a + n)
      by (destruct (bad_run fe (length a) n); reflexivity).
    rewrite Esp.
    assert (Hs : a ++ nls n ++ nfile_text bs = (a ++ nls n) ++ nls 0 ++ nfile_text bs)
      by (rewrite <- app_assoc; reflexivity).
    rewrite Hs. replace (length a + n) with (length (a ++ nls n)) by (rewrite app_length, nls_length; reflexivity).
    apply (H0 (a ++ nls n)).
    + intros Hb. simpl. rewrite app_nil_r. apply Hbol. exact Hb.
    + rewrite <- Hs. rewrite !app_length, nls_length in *. lia.
Qed.

Lemma nfile_text_cons : forall b bs, nfile_text (b :: bs) = ntext b ++ nfile_text bs.
Proof. reflexivity. Qed.

Lemma bol_rev_nl : forall (y : str), bol (rev (y ++ nls 1)) = true.
Proof. intros y. unfold nls. simpl. rewrite rev_app_distr. reflexivity. Qed.

Lemma bol_rev_nls : forall (y : str) n, 1 <= n -> bol (rev (y ++ nls n)) = true.
Proof.
  intros y n H. destruct n; [lia|]. replace (S n) with (n + 1) by lia.
  rewrite nls_app, app_assoc. apply bol_rev_nl.
Qed.

Lemma eol_nls : forall nl, eol nl = nls (length (eol nl)).
Proof. destruct nl; reflexivity. Qed.

Lemma eol_tail_n : forall nl rest, (nl || is_nil rest) = true -> tail_nl (eol nl ++ nfile_text rest).
Proof.
  intros [|] rest H; [right; eexists; reflexivity|]. simpl in H.
  destruct rest; [left; reflexivity|discriminate].
Qed.

Lemma head_ctext_n : forall cs X, cs <> [] -> forallb legal_cline_n cs = true ->
  head_is (fun c => N.eqb c 10) (ctext cs ++ X) = false.
Proof.
  intros [|[c t] cs] X Hne H; [contradiction|]. simpl in H. apply andb_true_iff in H.
  destruct H as [H _]. unfold legal_cline_n in H. apply andb_true_iff in H. destruct H as [H _].
  cbn [fst] in H. apply N.eqb_eq in H. subst c. reflexivity.
Qed.

Lemma cbody_length_pos : forall cs, cs <> [] -> 1 <= length (cbody cs).
Proof.
  intros [|c [|c2 cs]] H; [contradiction| |].
  - rewrite cbody_one. simpl. lia.
  - rewrite cbody_cons, app_length. unfold cline_text. simpl. lia.
Qed.

Lemma walk_nents : forall bs, Forall legal_nblock bs -> nsep bs = true ->
  forall fe a n, nstmt bs fe a n.
Proof.
  induction bs as [|b rest IH]; intros Hleg Hsep fe.
  - apply lift_nflush; [exact I|reflexivity|].
    intros a _ fuel Hf. simpl. apply walk_loop_done. rewrite !app_length. simpl. lia.
  - inversion Hleg as [|b' rest' Hb Hrest]; subst b' rest'.
    destruct b as [x|cs|w0 b0 r nl|cs b1 key v nl].
    + (* empty lines join what is pending *)
      intros a n Hbol fuel Hf. simpl in Hsep.
      unfold legal_nblock in Hb. cbn [legal_nblockb] in Hb. apply Nat.leb_le in Hb.
      assert (Hs : a ++ nls n ++ nfile_text (NBlank x :: rest) = a ++ nls (n + x) ++ nfile_text rest).
      { rewrite nfile_text_cons. cbn [ntext]. rewrite nls_app. norm_app. reflexivity. }
      simpl nents. rewrite Hs in *. apply (IH Hrest Hsep); auto.
      intros _. apply bol_rev_nls. lia.
    + (* a standalone comment *)
      unfold legal_nblock in Hb. cbn [legal_nblockb] in Hb. apply andb_true_iff in Hb.
      destruct Hb as [Hc1 Hc2].
      assert (Hne : cs <> []) by (destruct cs; [discriminate|discriminate]).
      simpl in Hsep. apply andb_true_iff in Hsep. destruct Hsep as [Hnext Hsep].
      apply lift_nflush; [exact I| rewrite nfile_text_cons; apply head_ctext_n; auto |].
      intros a Hbol fuel Hf. destruct fuel as [|f]; [lia|].
      assert (Hb0 : bol (rev a) = true).
      { specialize (Hbol ltac:(discriminate)). simpl in Hbol. rewrite app_nil_r in Hbol. exact Hbol. }
      rewrite nfile_text_cons in *. cbn [ntext] in *. simpl app in *.
      assert (Hafter : after_ncomment (nfile_text rest)).
      { destruct rest as [|[x| |w0 b0 r nl|] rest']; try discriminate; [constructor| |].
        - rewrite nfile_text_cons. cbn [ntext].
          inversion Hrest as [|b' r' Hx Hr']; subst. unfold legal_nblock in Hx. cbn [legal_nblockb] in Hx.
          apply Nat.leb_le in Hx.
          (* all the empty lines that follow, up to the first other block *)
          clear - Hx Hr'. revert x Hx. induction rest' as [|b2 rest2 IH2]; intros x Hx.
          + replace (nls x ++ nfile_text []) with (nls x ++ []) by reflexivity. constructor; auto.
          + destruct b2 as [x2|cs2|w2 b2' r2 nl2|cs2 b12 key2 v2 nl2].
            * rewrite nfile_text_cons. cbn [ntext]. rewrite app_assoc, <- nls_app.
              inversion Hr' as [|? ? _ Hr2]; subst. apply IH2; [exact Hr2|lia].
            * inversion Hr' as [|? ? Hl _]; subst. unfold legal_nblock in Hl. cbn [legal_nblockb] in Hl.
              apply andb_true_iff in Hl. destruct Hl as [Hl1 Hl2].
              constructor; [exact Hx|]. rewrite nfile_text_cons. cbn [ntext].
              apply head_ctext_n; [destruct cs2; discriminate|exact Hl2].
            * constructor; [exact Hx|reflexivity].
            * inversion Hr' as [|? ? Hl _]; subst. unfold legal_nblock in Hl. cbn [legal_nblockb] in Hl.
              constructor; [exact Hx|]. rewrite nfile_text_cons. cbn [ntext].
              do 5 (apply andb_true_iff in Hl; destruct Hl as [Hl _]).
              destruct cs2 as [|c2 cs2']; [reflexivity|]. rewrite <- app_assoc.
              apply head_ctext_n; [discriminate|exact Hl].
        - rewrite nfile_text_cons. cbn [ntext].
          inversion Hrest as [|b' r' Hx _]; subst. unfold legal_nblock in Hx. cbn [legal_nblockb] in Hx.
          repeat (apply andb_true_iff in Hx; destruct Hx as [Hx ?]).
          replace ((35%N :: w0 ++ b0 ++ r ++ eol nl) ++ nfile_text rest')
            with (35%N :: w0 ++ b0 ++ (r ++ eol nl ++ nfile_text rest')) by (norm_app; reflexivity).
          constructor.
          + destruct w0; [discriminate|discriminate].
          + assumption.
          + match goal with H : negb (starts_with s_define_word w0) = true |- _ =>
              apply negb_true_iff in H; exact H end.
          + destruct b0; [discriminate|discriminate].
          + assumption. }
      pose proof (gn_n_comment fe a cs (nfile_text rest) Hb0 Hne Hc2 Hafter) as G.
      simpl nents. rewrite !Nat.add_0_r.
      eapply walk_step_n; [|exact G|].
      * rewrite !app_length. pose proof (ctext_length_ge cs). destruct cs; [contradiction|].
        simpl in *. lia.
      * cbn [mk_comment e_span snd].
        assert (Hs : a ++ ctext cs ++ nfile_text rest = (a ++ cbody cs) ++ nls 1 ++ nfile_text rest).
        { rewrite (ctext_body cs Hne). norm_app. reflexivity. }
        pose proof (cbody_length_pos cs Hne) as Hpos.
        rewrite Hs, <- app_length.
        apply (IH Hrest Hsep).
        -- intros _. apply bol_rev_nl.
        -- rewrite <- Hs.
           assert (Elen : length (ctext cs) = length (cbody cs) + 1)
             by (rewrite (ctext_body cs Hne), app_length; reflexivity).
           rewrite !app_length in *. simpl in *. lia.
    + (* an instruction *)
      unfold legal_nblock in Hb. cbn [legal_nblockb] in Hb.
      repeat (apply andb_true_iff in Hb; destruct Hb as [Hb ?]).
      simpl in Hsep. apply andb_true_iff in Hsep. destruct Hsep as [Hnl Hsep].
      apply lift_nflush; [exact I|reflexivity|].
      intros a _ fuel Hf. destruct fuel as [|f]; [lia|].
      assert (Etxt : a ++ nls 0 ++ nfile_text (NInstr w0 b0 r nl :: rest) =
                     a ++ 35%N :: w0 ++ b0 ++ r ++ (eol nl ++ nfile_text rest)).
      { rewrite nfile_text_cons. cbn [ntext]. norm_app. reflexivity. }
      rewrite Etxt in *.
      assert (G := gn_n_instr fe a w0 b0 r (eol nl ++ nfile_text rest)).
      cbv zeta in G.
      simpl nents. rewrite !Nat.add_0_r.
      eapply walk_step_n; [|apply G|].
      * rewrite !app_length. simpl. lia.
      * destruct w0; [discriminate|discriminate].
      * assumption.
      * match goal with H : negb (starts_with s_define_word w0) = true |- _ =>
          apply negb_true_iff in H; exact H end.
      * destruct b0; [discriminate|discriminate].
      * assumption.
      * destruct r; [discriminate|discriminate].
      * assumption.
      * match goal with H : negb (head_is _ r) = true |- _ => apply negb_true_iff in H; exact H end.
      * apply eol_tail_n. exact Hnl.
      * cbn [e_span snd].
        set (A0 := a ++ 35%N :: w0 ++ b0 ++ r).
        assert (Hs2 : a ++ 35%N :: w0 ++ b0 ++ r ++ (eol nl ++ nfile_text rest) =
                      A0 ++ nls (length (eol nl)) ++ nfile_text rest).
        { unfold A0. rewrite <- eol_nls. norm_app. reflexivity. }
        assert (El : length a + 1 + length w0 + length b0 + length r = length A0).
        { unfold A0. rewrite !app_length. simpl. rewrite !app_length. lia. }
        rewrite Hs2, El. apply (IH Hrest Hsep).
        -- intros Hr. destruct nl; [apply bol_rev_nl|]. simpl in Hnl. destruct rest; [contradiction|discriminate].
        -- rewrite Hs2 in Hf. rewrite !app_length in *. simpl in *. lia.
    + (* an entity *)
      unfold legal_nblock in Hb. cbn [legal_nblockb] in Hb.
      repeat (apply andb_true_iff in Hb; destruct Hb as [Hb ?]).
      simpl in Hsep. apply andb_true_iff in Hsep. destruct Hsep as [Hnl Hsep].
      assert (Etxt : forall Y, ntext (NEntity cs b1 key v nl) ++ Y =
                     ctext cs ++ s_define ++ b1 ++ key ++ vtext v ++ eol nl ++ Y).
      { intros Y. cbn [ntext]. norm_app. reflexivity. }
      apply lift_nflush; [exact I| |].
      { rewrite nfile_text_cons, Etxt. destruct cs as [|c1 cs1]; [reflexivity|].
        apply head_ctext_n; [discriminate|exact Hb]. }
      intros a Hbol fuel Hf. destruct fuel as [|f]; [lia|].
      assert (Hb0 : cs <> [] -> bol (rev a) = true).
      { intros _. specialize (Hbol ltac:(discriminate)). simpl in Hbol. rewrite app_nil_r in Hbol. exact Hbol. }
      rewrite nfile_text_cons in *. rewrite Etxt in *.
      change (nls 0 ++ ctext cs ++ s_define ++ b1 ++ key ++ vtext v ++ eol nl ++ nfile_text rest)
        with (ctext cs ++ s_define ++ b1 ++ key ++ vtext v ++ eol nl ++ nfile_text rest) in *.
      assert (G := gn_n_entity fe a cs b1 key v (eol nl ++ nfile_text rest)).
      cbv zeta in G.
      simpl nents. rewrite !Nat.add_0_r.
      eapply walk_step_n; [|apply G|].
      * repeat rewrite app_length. simpl. lia.
      * exact Hb.
      * destruct b1; [discriminate|discriminate].
      * assumption.
      * destruct key; [discriminate|discriminate].
      * assumption.
      * assumption.
      * apply eol_tail_n. exact Hnl.
      * exact Hb0.
      * cbn [e_span snd].
        set (A0 := a ++ ctext cs ++ s_define ++ b1 ++ key ++ vtext v).
        assert (Hs2 : a ++ ctext cs ++ s_define ++ b1 ++ key ++ vtext v ++ eol nl ++ nfile_text rest
                      = A0 ++ nls (length (eol nl)) ++ nfile_text rest).
        { unfold A0. rewrite <- eol_nls. norm_app. reflexivity. }
        assert (El : length a + length (ctext cs) + 7 + length b1 + length key + length (vtext v) = length A0).
        { unfold A0. rewrite !app_length. simpl. lia. }
        rewrite Hs2, El. apply (IH Hrest Hsep).
        -- intros Hr. destruct nl; [apply bol_rev_nl|]. simpl in Hnl. destruct rest; [contradiction|discriminate].
        -- assert (Hlt : length a < length A0) by (rewrite <- El; lia).
           rewrite Hs2 in Hf. clear - Hf Hlt. rewrite !app_length in *. simpl in *. lia.
Qed.

(* ---- the block theorem ---------------------------------------------------------------------------------------- *)
Theorem blocks_inc : forall bs : list nblock,
  Forall legal_nblock bs -> nadjacent_ok bs ->
  walk_defines (nfile_text bs) = Ok (nentries_of bs).
Proof.
  intros bs Hleg Hadj. unfold walk_defines, walk, nentries_of.
  apply (walk_nents bs Hleg Hadj false [] 0); [reflexivity|]. simpl. lia.
Qed.

(* ---- the records of a file ---------------------------------------------------------------------------------- *)
Definition nrecord := (str * option str * option str)%type.   (* key, value, attached comment *)

Fixpoint nrecords_of (bs : list nblock) : list nrecord :=
  match bs with
  | [] => []
  | NEntity cs _ key v _ :: rest =>
      (key, match v with Some (_, val) => Some val | None => None end,
       match cs with [] => None | _ => Some (cbody cs) end) :: nrecords_of rest
  | _ :: rest => nrecords_of rest
  end.

Fixpoint ncomments_of (bs : list nblock) : list str :=
  match bs with
  | [] => []
  | NComment cs :: rest => cbody cs :: ncomments_of rest
  | _ :: rest => ncomments_of rest
  end.

Fixpoint ninstrs_of (bs : list nblock) : list str :=
  match bs with
  | [] => []
  | NInstr w b r _ :: rest => (w ++ b ++ r) :: ninstrs_of rest
  | _ :: rest => ninstrs_of rest
  end.

Definition span_text (s : str) (sp : span) : str := slice s (fst sp) (snd sp).
Definition opt_text (s : str) (o : option span) : str :=
  match o with Some sp => span_text s sp | None => [] end.
Definition entity_nrecord (s : str) (e : entry) : nrecord :=
  (opt_text s (e_key e), option_map (span_text s) (e_val e), option_map (span_text s) (e_pre e)).
Definition is_kind (k : kind) (e : entry) : bool :=
  match e_kind e, k with
  | KEntity, KEntity | KComment, KComment | KWhitespace, KWhitespace | KJunk, KJunk
  | KSection, KSection | KInstruction, KInstruction => true
  | _, _ => false
  end.
Definition all_nl (t : str) : bool := forallb (fun c => N.eqb c 10) t.

(* entities = records, comments = comment blocks, instructions = instruction blocks, and the
   only junk is runs of newlines *)
Definition nviews (s : str) (es : list entry) (bs : list nblock) : Prop :=
  map (entity_nrecord s) (filter (is_kind KEntity) es) = nrecords_of bs /\
  map (fun e => span_text s (e_span e)) (filter (is_kind KComment) es) = ncomments_of bs /\
  map (fun e => opt_text s (e_val e)) (filter (is_kind KInstruction) es) = ninstrs_of bs /\
  forallb (fun e => all_nl (span_text s (e_span e))) (filter (is_kind KJunk) es) = true.

Lemma all_nl_nls : forall n, all_nl (nls n) = true.
Proof. induction n as [|n IH]; [reflexivity|]. rewrite nls_S. simpl. exact IH. Qed.

Lemma nflush_views : forall fe (a : str) n X,
  let s := a ++ nls n ++ X in
  filter (is_kind KEntity) (nflush fe (length a) n) = [] /\
  filter (is_kind KComment) (nflush fe (length a) n) = [] /\
  filter (is_kind KInstruction) (nflush fe (length a) n) = [] /\
  forallb (fun e => all_nl (span_text s (e_span e))) (filter (is_kind KJunk) (nflush fe (length a) n)) = true.
Proof.
  intros fe a n X s. destruct n as [|n]; [repeat split|].
  unfold nflush. destruct (bad_run fe (length a) (S n)); repeat split.
  cbn [filter is_kind mk_junk e_kind forallb e_span]. unfold span_text. cbn [fst snd].
  pose proof (slice_mid a (nls (S n)) X) as H. rewrite nls_length in H. unfold s. rewrite H.
  rewrite all_nl_nls. reflexivity.
Qed.

Lemma nents_views : forall bs, Forall legal_nblock bs -> forall fe (a : str) n,
  nviews (a ++ nls n ++ nfile_text bs) (nents fe (length a) n bs) bs.
Proof.
  induction bs as [|b rest IH]; intros Hleg fe a n; unfold nviews.
  - simpl nents. destruct (nflush_views fe a n (nfile_text [])) as [F1 [F2 [F3 F4]]].
    rewrite F1, F2, F3. repeat split. exact F4.
  - inversion Hleg as [|b' rest' Hb Hrest]; subst b' rest'. specialize (IH Hrest).
    set (s := a ++ nls n ++ nfile_text (b :: rest)).
    destruct (nflush_views fe a n (nfile_text (b :: rest))) as [F1 [F2 [F3 F4]]]. fold s in F4.
    destruct b as [x|cs|w0 b0 r nl|cs b1 key v nl].
    + assert (Hs : s = a ++ nls (n + x) ++ nfile_text rest).
      { unfold s. rewrite nfile_text_cons. cbn [ntext]. rewrite nls_app. norm_app. reflexivity. }
      simpl nents. rewrite Hs. apply IH.
    + unfold legal_nblock in Hb. cbn [legal_nblockb] in Hb. apply andb_true_iff in Hb.
      destruct Hb as [Hc1 _].
      assert (Hne : cs <> []) by (destruct cs; [discriminate|discriminate]).
      set (A0 := a ++ nls n ++ cbody cs).
      assert (Hs : s = A0 ++ nls 1 ++ nfile_text rest).
      { unfold s, A0. rewrite nfile_text_cons. cbn [ntext]. rewrite (ctext_body cs Hne).
        norm_app. reflexivity. }
      assert (El : length a + n + length (cbody cs) = length A0)
        by (unfold A0; rewrite !app_length, nls_length; lia).
      destruct (IH fe A0 1) as [I1 [I2 [I3 I4]]]. rewrite <- Hs in I1, I2, I3, I4.
      simpl nents. rewrite !filter_app, F1, F2, F3, forallb_app, F4. rewrite El.
      cbn [app filter is_kind mk_comment e_kind map e_span andb]. rewrite I1, I2, I3, I4.
      split; [reflexivity|split; [|split; reflexivity]]. cbn [ncomments_of]. f_equal.
      assert (Hs' : s = (a ++ nls n) ++ cbody cs ++ nls 1 ++ nfile_text rest)
        by (rewrite Hs; unfold A0; norm_app; reflexivity).
      unfold span_text. cbn [fst snd]. rewrite <- El.
      replace (length a + n) with (length (a ++ nls n)) by (rewrite app_length, nls_length; reflexivity).
      rewrite Hs'. apply slice_mid.
    + set (N0 := a ++ nls n ++ [35%N]).
      set (A0 := N0 ++ w0 ++ b0 ++ r).
      assert (Hs : s = A0 ++ nls (length (eol nl)) ++ nfile_text rest).
      { unfold s, A0, N0. rewrite nfile_text_cons. cbn [ntext]. rewrite <- eol_nls. norm_app. reflexivity. }
      assert (En : length a + n + 1 = length N0)
        by (unfold N0; rewrite !app_length, nls_length; simpl; lia).
      assert (Ee : length a + n + 1 + length w0 + length b0 + length r = length A0).
      { unfold A0. rewrite !app_length. lia. }
      destruct (IH (new_filter fe (w0 ++ b0 ++ r)) A0 (length (eol nl))) as [I1 [I2 [I3 I4]]].
      rewrite <- Hs in I1, I2, I3, I4.
      simpl nents. rewrite !filter_app, F1, F2, F3, forallb_app, F4. rewrite Ee, En.
      cbn [app filter is_kind e_kind map e_val andb]. rewrite I1, I2, I3, I4.
      split; [reflexivity|split; [reflexivity|split; [|reflexivity]]].
      cbn [ninstrs_of]. f_equal. unfold opt_text, span_text. cbn [fst snd].
      assert (Hs' : s = N0 ++ (w0 ++ b0 ++ r) ++ nls (length (eol nl)) ++ nfile_text rest)
        by (rewrite Hs; unfold A0; norm_app; reflexivity).
      rewrite Hs'. rewrite <- Ee, En.
      replace (length N0 + length w0 + length b0 + length r) with (length N0 + length (w0 ++ b0 ++ r))
        by (rewrite !app_length; lia).
      apply slice_mid.
    + set (K0 := a ++ nls n ++ ctext cs).
      set (S0 := K0 ++ s_define ++ b1).
      set (E0 := S0 ++ key).
      set (A0 := E0 ++ vtext v).
      assert (Hs : s = A0 ++ nls (length (eol nl)) ++ nfile_text rest).
      { unfold s, A0, E0, S0, K0. rewrite nfile_text_cons. cbn [ntext]. rewrite <- eol_nls.
        rewrite <- !app_assoc. reflexivity. }
      assert (Ek : length a + n + length (ctext cs) = length K0)
        by (unfold K0; rewrite !app_length, nls_length; lia).
      assert (Es0 : length K0 + 7 + length b1 = length S0).
      { unfold S0. rewrite !app_length. simpl. lia. }
      assert (Ee0 : length S0 + length key = length E0) by (unfold E0; rewrite app_length; lia).
      assert (Ea0 : length E0 + length (vtext v) = length A0) by (unfold A0; rewrite app_length; lia).
      destruct (IH fe A0 (length (eol nl))) as [I1 [I2 [I3 I4]]]. rewrite <- Hs in I1, I2, I3, I4.
      simpl nents. rewrite !filter_app, F1, F2, F3, forallb_app, F4. rewrite Ek, Es0, Ee0, Ea0.
      cbn [app filter is_kind e_kind map andb]. rewrite I1, I2, I3, I4.
      split; [|split; [reflexivity|split; reflexivity]]. cbn [nrecords_of]. f_equal.
      unfold entity_nrecord. cbn [e_key e_val e_pre opt_text].
      unfold span_text. cbn [fst snd].
      assert (S1 : slice s (length S0) (length E0) = key).
      { rewrite <- Ee0, Hs. unfold A0, E0. rewrite <- !app_assoc. apply slice_mid. }
      rewrite S1. f_equal; [f_equal|].
      * destruct v as [[c val]|]; [|reflexivity]. cbn [option_map fst snd]. f_equal.
        replace s with ((E0 ++ [c]) ++ val ++ nls (length (eol nl)) ++ nfile_text rest)
          by (rewrite Hs; unfold A0; cbn [vtext]; norm_app; reflexivity).
        replace (length E0 + 1) with (length (E0 ++ [c])) by (rewrite app_length; reflexivity).
        apply slice_mid.
      * assert (Hcase : cs = [] \/ cs <> []) by (destruct cs; [left; reflexivity|right; discriminate]).
        destruct Hcase as [Ecs|Hne]; [rewrite Ecs; reflexivity|].
        rewrite !(match_ne cs) by exact Hne.
        cbn [option_map]. f_equal. cbn [fst snd].
        assert (Ec : length K0 - 1 = length (a ++ nls n) + length (cbody cs)).
        { rewrite <- Ek, (ctext_body cs Hne), !app_length, nls_length. simpl. lia. }
        replace (length a + n) with (length (a ++ nls n)) by (rewrite app_length, nls_length; reflexivity).
        rewrite Ec.
        replace s with ((a ++ nls n) ++ cbody cs ++ nls 1 ++
                        (s_define ++ b1 ++ key ++ vtext v ++ eol nl) ++ nfile_text rest)
          by (unfold s; rewrite nfile_text_cons; cbn [ntext]; rewrite (ctext_body cs Hne);
              rewrite <- !app_assoc; reflexivity).
        apply slice_mid.
Qed.

Theorem roundtrip_inc_multi : forall bs : list nblock,
  Forall legal_nblock bs -> nadjacent_ok bs ->
  exists es, walk_defines (nfile_text bs) = Ok es /\ nviews (nfile_text bs) es bs.
Proof.
  intros bs Hleg Hadj. exists (nentries_of bs). split; [apply blocks_inc; auto|].
  exact (nents_views bs Hleg false [] 0).
Qed.

(* a file whose empty lines are all inside "#filter emptyLines" regions (single newlines between
   lines are fine everywhere) and that does not start with an empty line has no junk at all *)
Fixpoint nblanks_ok (fe : bool) (first : bool) (bs : list nblock) : bool :=
  match bs with
  | [] => true
  | NBlank _ :: rest => fe && negb first && nblanks_ok fe false rest
  | NInstr w b r _ :: rest => nblanks_ok (new_filter fe (w ++ b ++ r)) false rest
  | _ :: rest => nblanks_ok fe false rest
  end.

Definition good_run (fe : bool) (off w : nat) : Prop := w = 0 \/ (1 <= off /\ (w = 1 \/ fe = true)).

Lemma nflush_nojunk : forall fe off w, good_run fe off w ->
  filter (is_kind KJunk) (nflush fe off w) = [].
Proof.
  intros fe off w [->|[Ho Hw]]; [reflexivity|]. destruct w as [|w]; [reflexivity|].
  unfold nflush, bad_run.
  replace (Nat.eqb off 0) with false by (symmetry; apply Nat.eqb_neq; lia).
  destruct Hw as [Hw| ->].
  - inversion Hw; subst. reflexivity.
  - rewrite orb_true_r. reflexivity.
Qed.

Lemma nents_nojunk : forall bs, Forall legal_nblock bs -> forall fe first off w,
  (first = false -> 1 <= off) -> good_run fe off w -> nblanks_ok fe first bs = true ->
  filter (is_kind KJunk) (nents fe off w bs) = [].
Proof.
  induction bs as [|b rest IH]; intros Hleg fe first off w Hf Hg Hok.
  - simpl. apply nflush_nojunk. exact Hg.
  - inversion Hleg as [|b' rest' Hb Hrest]; subst b' rest'. specialize (IH Hrest).
    destruct b as [x|cs|w0 b0 r nl|cs b1 key v nl]; simpl in Hok; simpl nents.
    + apply andb_true_iff in Hok. destruct Hok as [Hok Hrest']. apply andb_true_iff in Hok.
      destruct Hok as [Hfe Hfirst]. subst fe. apply negb_true_iff in Hfirst.
      apply (IH true false); auto. destruct Hg as [->|[Ho _]].
      * destruct x; [left; reflexivity|]. right. split; [apply Hf; exact Hfirst|right; reflexivity].
      * right. split; [exact Ho|right; reflexivity].
    + unfold legal_nblock in Hb. cbn [legal_nblockb] in Hb. apply andb_true_iff in Hb.
      destruct Hb as [Hc1 _].
      assert (Hne : cs <> []) by (destruct cs; [discriminate|discriminate]).
      pose proof (cbody_length_pos cs Hne) as Hpos.
      rewrite filter_app, nflush_nojunk by exact Hg. cbn [app filter is_kind mk_comment e_kind].
      apply (IH fe false); auto.
      * intros _. lia.
      * right. split; [lia|left; reflexivity].
    + rewrite filter_app, nflush_nojunk by exact Hg. cbn [app filter is_kind e_kind].
      apply (IH _ false); auto.
      * intros _. lia.
      * destruct nl; [right; split; [lia|left; reflexivity]|left; reflexivity].
    + rewrite filter_app, nflush_nojunk by exact Hg. cbn [app filter is_kind e_kind].
      apply (IH _ false); auto.
      * intros _. lia.
      * destruct nl; [right; split; [lia|left; reflexivity]|left; reflexivity].
Qed.

(* no junk at all when every run of empty lines is inside a filter region *)
Theorem roundtrip_inc_nojunk : forall bs : list nblock,
  Forall legal_nblock bs -> nadjacent_ok bs -> nblanks_ok false true bs = true ->
  exists es, walk_defines (nfile_text bs) = Ok es /\ nviews (nfile_text bs) es bs /\
             filter (is_kind KJunk) es = [].
Proof.
  intros bs Hleg Hadj Hok. exists (nentries_of bs). split; [apply blocks_inc; auto|].
  split; [exact (nents_views bs Hleg false [] 0)|].
  apply (nents_nojunk bs Hleg false true 0 0); auto; [discriminate|left; reflexivity].
Qed.

Example nx_nojunk :
  let bs := [nx_c; nx_filter; nx_b1; nx_e1; nx_b2; nx_e2; nx_unfilter; nx_e1; nx_e2; nx_incl; nx_e3] in
  Forall legal_nblock bs /\ nadjacent_ok bs /\ nblanks_ok false true bs = true /\
  nrecords_of bs = [(A [107], Some (A [118; 32; 119]), None); (A [107; 50], None, Some (A [35; 32; 99]));
                    (A [107], Some (A [118; 32; 119]), None); (A [107; 50], None, Some (A [35; 32; 99]));
                    (A [95; 49], Some [], None)].
Proof. split; [repeat constructor|]. split; [vm_compute; reflexivity|]. split; vm_compute; reflexivity. Qed.
