(* What the printf regular expression (Generated/RxC06.v rx_printf, i.e.
   PropertiesChecker.printf) does on the rendering of a clean token list, on
   the regex engine of Regex/Rx.v: finditer yields exactly one match per token
   that begins with a per cent sign, and that match describes the token
   (CheckPropsSpec.tok_match).  Part A of C06_specs_tokens. *)
From Coq Require Import NArith List Bool Arith Lia ZifyBool.
From CL Require Import Base.Str Regex.Rx Regex.RxLemmas Generated.Tables Generated.RxC06
  Model.CheckProps Model.CheckPropsSpec.
Import ListNotations.

Local Arguments Nat.ltb : simpl never.
Local Arguments Nat.leb : simpl never.
Local Arguments Nat.eqb : simpl never.
Local Arguments Nat.sub : simpl never.
Local Arguments Nat.add : simpl never.

(* ---- states ------------------------------------------------------------------------
   [St z l rest cs]: the state reached from z after consuming l, with the
   remaining input rest and the captures cs *)
Definition St (z : st) (l rest : list N) (cs : list (nat * (nat * nat))) : st :=
  mkst (rev l ++ pre z) rest (pos z + length l) cs.

Lemma st_ext (a b : st) :
  pre a = pre b -> suf a = suf b -> pos a = pos b -> caps a = caps b -> a = b.
Proof. destruct a, b; cbn; intros; subst; reflexivity. Qed.

Lemma St_nil z : St z [] (suf z) (caps z) = z.
Proof. apply st_ext; cbn; auto; lia. Qed.

Lemma St_St z l1 r1 cs1 l2 r2 cs2 : St (St z l1 r1 cs1) l2 r2 cs2 = St z (l1 ++ l2) r2 cs2.
Proof.
  apply st_ext; cbn; auto.
  - rewrite rev_app_distr, app_assoc. reflexivity.
  - rewrite app_length. lia.
Qed.

Lemma advance_St z c t : advance z c t = St z [c] t (caps z).
Proof. apply st_ext; cbn; auto; lia. Qed.

Lemma set_cap_St n sp z l rest cs : set_cap n sp (St z l rest cs) = St z l rest ((n, sp) :: cs).
Proof. reflexivity. Qed.

(* ---- the matcher, one constructor at a time -------------------------------------------- *)
Lemma m_Cat a b s k : m (Cat a b) s k = m a s (fun s' => m b s' k).
Proof. reflexivity. Qed.
Lemma m_Alt a b s k : m (Alt a b) s k = orelse (m a s k) (fun _ => m b s k).
Proof. reflexivity. Qed.
Lemma m_Grp n r s k : m (Grp n r) s k = m r s (fun s' => k (set_cap n (pos s, pos s') s')).
Proof. reflexivity. Qed.
Lemma m_Eps s k : m Eps s k = k s.
Proof. reflexivity. Qed.
Lemma m_Rep g lo hi r s k :
  m (Rep g lo hi r) s k = rep_loop (m r) g lo hi (lo + S (length (suf s))) 0 s k.
Proof. reflexivity. Qed.

Definition head_not (p : N -> bool) (l : list N) : Prop :=
  match l with [] => True | c :: _ => p c = false end.

Lemma m_Chr_ok neg rs s c t k : suf s = c :: t -> chr_ok neg rs c = true ->
  m (Chr neg rs) s k = k (St s [c] t (caps s)).
Proof. intros H1 H2. cbn. rewrite H1, H2, advance_St. reflexivity. Qed.

Lemma m_Chr_fail neg rs s k : head_not (chr_ok neg rs) (suf s) -> m (Chr neg rs) s k = Fail.
Proof. intros H. cbn. destruct (suf s) as [|c t]; [reflexivity|]. cbn in H. rewrite H. reflexivity. Qed.

(* ---- a greedy repetition of a character class over a maximal run -------------------- *)
Section Run.
Variables (neg : bool) (rs : cset).
Let ok (c : N) : bool := chr_ok neg rs c.

(* the continuation succeeds after the whole run: that is the result *)
Lemma rep_run_max : forall run s rest lo fuel count k x,
  suf s = run ++ rest -> Forall (fun c => ok c = true) run -> head_not ok rest ->
  lo <= count + length run -> length run < fuel ->
  k (St s run rest (caps s)) = Done x ->
  rep_loop (m (Chr neg rs)) true lo None fuel count s k = Done x.
Proof.
  induction run as [|c run IH]; intros s rest lo fuel count k x Hs Hok Hrest Hlo Hfuel Hk.
  - destruct fuel as [|f]; [cbn in Hfuel; lia|]. rewrite rep_loop_S.
    cbn in Hs, Hlo. assert (count <? lo = false) as -> by (apply Nat.ltb_ge; lia).
    cbv zeta. rewrite (m_Chr_fail neg rs s) by (rewrite Hs; exact Hrest).
    cbn [orelse]. rewrite <- Hs, St_nil in Hk. exact Hk.
  - destruct fuel as [|f]; [cbn in Hfuel; lia|]. rewrite rep_loop_S.
    inversion Hok as [|? ? Hc Hok']; subst. cbn in Hs, Hlo, Hfuel.
    assert (rep_loop (m (Chr neg rs)) true lo None f (S count) (St s [c] (run ++ rest) (caps s)) k
            = Done x) as Hrec.
    { apply (IH _ rest); auto; try (cbn; lia). rewrite St_St. exact Hk. }
    destruct (count <? lo).
    + rewrite (m_Chr_ok neg rs s c (run ++ rest)) by assumption. exact Hrec.
    + cbv zeta. rewrite (m_Chr_ok neg rs s c (run ++ rest)) by assumption.
      assert (Nat.eqb (pos (St s [c] (run ++ rest) (caps s))) (pos s) = false) as ->.
      { apply Nat.eqb_neq. cbn. lia. }
      rewrite Hrec. reflexivity.
Qed.

(* the continuation fails after every prefix of the run: failure *)
Lemma rep_run_fail : forall run s rest lo fuel count k,
  suf s = run ++ rest -> Forall (fun c => ok c = true) run -> head_not ok rest ->
  length run < fuel ->
  (forall l1 l2, run = l1 ++ l2 -> k (St s l1 (l2 ++ rest) (caps s)) = Fail) ->
  rep_loop (m (Chr neg rs)) true lo None fuel count s k = Fail.
Proof.
  induction run as [|c run IH]; intros s rest lo fuel count k Hs Hok Hrest Hfuel Hk.
  - destruct fuel as [|f]; [cbn in Hfuel; lia|]. rewrite rep_loop_S. cbn in Hs.
    rewrite !(m_Chr_fail neg rs s) by (rewrite Hs; exact Hrest).
    destruct (count <? lo); [reflexivity|]. cbv zeta. cbn [orelse].
    specialize (Hk [] [] eq_refl). cbn [app] in Hk. rewrite <- Hs, St_nil in Hk. exact Hk.
  - destruct fuel as [|f]; [cbn in Hfuel; lia|]. rewrite rep_loop_S.
    inversion Hok as [|? ? Hc Hok']; subst. cbn in Hs, Hfuel.
    assert (rep_loop (m (Chr neg rs)) true lo None f (S count) (St s [c] (run ++ rest) (caps s)) k
            = Fail) as Hrec.
    { apply (IH _ rest); auto; try (cbn; lia).
      intros l1 l2 E. rewrite St_St. apply (Hk (c :: l1) l2). rewrite E. reflexivity. }
    destruct (count <? lo).
    + rewrite (m_Chr_ok neg rs s c (run ++ rest)) by assumption. exact Hrec.
    + cbv zeta. rewrite (m_Chr_ok neg rs s c (run ++ rest)) by assumption.
      assert (Nat.eqb (pos (St s [c] (run ++ rest) (caps s))) (pos s) = false) as ->.
      { apply Nat.eqb_neq. cbn. lia. }
      rewrite Hrec. cbn [orelse].
      specialize (Hk [] (c :: run) eq_refl). cbn [app] in Hk. rewrite <- Hs, St_nil in Hk. exact Hk.
Qed.
End Run.

(* ---- the shape of the printf expression ------------------------------------------------ *)
Definition DIG : cset := [(48, 57)]%N.
Definition cPCT : cset := [(37, 37)]%N.
Definition SPECSET : cset :=
  [(100, 100); (117, 117); (120, 120); (88, 88); (111, 111); (115, 115); (83, 83); (99, 99);
   (112, 112); (102, 102); (103, 103)]%N.
Definition rNUM : rx :=
  Alt (Cat (Grp 2 (Cat (Chr false [(49, 57)]%N) (Rep true 0 None (Chr false DIG))))
           (Chr false [(36, 36)]%N)) Eps.
Definition rWIDTH : rx :=
  Alt (Grp 3 (Alt (Chr false [(42, 42)]%N) (Rep true 1 None (Chr false DIG)))) Eps.
Definition rPREC : rx :=
  Alt (Grp 4 (Cat (Chr false [(46, 46)]%N)
                  (Alt (Alt (Chr false [(42, 42)]%N) (Rep true 1 None (Chr false DIG))) Eps))) Eps.
Definition rSPEC : rx := Grp 5 (Chr false SPECSET).
Definition rGOOD : rx := Alt (Chr false cPCT) (Cat rNUM (Cat rWIDTH (Cat rPREC rSPEC))).

(* the generated expression IS this one (fails to compile when the source changes) *)
Lemma rx_printf_shape : rx_printf = Cat (Chr false cPCT) (Alt (Grp 1 rGOOD) Eps).
Proof. reflexivity. Qed.

Lemma printf_groups : g_printf_good = 1 /\ g_printf_number = 2 /\ g_printf_spec = 5.
Proof. repeat split; reflexivity. Qed.

(* ---- character classes -------------------------------------------------------------------- *)
Lemma leb_pair (x c : N) : (N.leb x c && N.leb c x) = N.eqb c x.
Proof.
  destruct (N.eqb_spec c x) as [->|Hn].
  - rewrite N.leb_refl. reflexivity.
  - destruct (N.leb_spec x c); destruct (N.leb_spec c x); cbn; try reflexivity. lia.
Qed.

Lemma chr_single a c : chr_ok false [(a, a)]%N c = N.eqb c a.
Proof. unfold chr_ok. rewrite xorb_false_l. unfold in_ranges. cbn. rewrite leb_pair, orb_false_r. reflexivity. Qed.

Lemma chr_DIG c : chr_ok false DIG c = is_digit c.
Proof. unfold chr_ok. rewrite xorb_false_l. unfold in_ranges, DIG, is_digit. cbn. rewrite orb_false_r. reflexivity. Qed.

Lemma chr_19 c : chr_ok false [(49, 57)]%N c = (N.leb 49 c && N.leb c 57).
Proof. unfold chr_ok. rewrite xorb_false_l. unfold in_ranges. cbn. rewrite orb_false_r. reflexivity. Qed.

Lemma chr_SPEC c : chr_ok false SPECSET c = is_spec_char c.
Proof.
  unfold chr_ok. rewrite xorb_false_l. unfold in_ranges, SPECSET, is_spec_char, spec_chars. cbn.
  rewrite !leb_pair, !orb_false_r. reflexivity.
Qed.

Lemma spec_char_facts c : is_spec_char c = true ->
  is_digit c = false /\ N.eqb c 37 = false /\ N.eqb c 42 = false /\ N.eqb c 46 = false /\
  N.eqb c 36 = false /\ (N.leb 49 c && N.leb c 57) = false.
Proof.
  unfold is_spec_char, spec_chars. cbn. rewrite !orb_true_iff, !N.eqb_eq.
  intros H. repeat (destruct H as [H|H]; [subst; repeat split; reflexivity|]). discriminate.
Qed.

Lemma digit_facts c : is_digit c = true ->
  N.eqb c 37 = false /\ N.eqb c 42 = false /\ N.eqb c 46 = false /\ N.eqb c 36 = false /\
  is_spec_char c = false.
Proof.
  unfold is_digit. intros H. apply andb_true_iff in H. destruct H as [H1 H2].
  apply N.leb_le in H1. apply N.leb_le in H2.
  repeat split; try (apply N.eqb_neq; lia).
  unfold is_spec_char, spec_chars. cbn.
  repeat (match goal with |- (N.eqb c ?x || _) = false =>
            assert (N.eqb c x = false) as -> by (apply N.eqb_neq; lia); cbn [orb] end).
  reflexivity.
Qed.

Lemma digits_Forall ds : forallb is_digit ds = true -> Forall (fun c => chr_ok false DIG c = true) ds.
Proof.
  rewrite forallb_forall. intros H. apply Forall_forall. intros c Hc. rewrite chr_DIG. auto.
Qed.

Ltac st_solve :=
  rewrite ?St_St; apply st_ext; cbn [St pre suf pos caps set_cap app rev length render_prec render_width];
  auto; try (repeat f_equal; rewrite ?app_length; cbn [length]; lia).

Lemma head_not_ext (p q : N -> bool) l : (forall c, p c = q c) -> head_not q l -> head_not p l.
Proof. intros H. destruct l; cbn; [auto|]. rewrite H. auto. Qed.

(* ---- repetitions of a class, at the level of [m] ------------------------------------------ *)
Lemma m_Rep_max neg rs lo run s rest k x :
  suf s = run ++ rest -> Forall (fun c => chr_ok neg rs c = true) run ->
  head_not (chr_ok neg rs) rest -> lo <= length run ->
  k (St s run rest (caps s)) = Done x ->
  m (Rep true lo None (Chr neg rs)) s k = Done x.
Proof.
  intros Hs Hok Hr Hlo Hk. rewrite m_Rep. apply (rep_run_max neg rs run s rest); auto.
  rewrite Hs, app_length. lia.
Qed.

Lemma m_Rep_fail neg rs lo run s rest k :
  suf s = run ++ rest -> Forall (fun c => chr_ok neg rs c = true) run ->
  head_not (chr_ok neg rs) rest ->
  (forall l1 l2, run = l1 ++ l2 -> k (St s l1 (l2 ++ rest) (caps s)) = Fail) ->
  m (Rep true lo None (Chr neg rs)) s k = Fail.
Proof.
  intros Hs Hok Hr Hk. rewrite m_Rep. apply (rep_run_fail neg rs run s rest); auto.
  rewrite Hs, app_length. lia.
Qed.

Lemma m_Rep1_none neg rs s k : head_not (chr_ok neg rs) (suf s) ->
  m (Rep true 1 None (Chr neg rs)) s k = Fail.
Proof.
  intros H. rewrite m_Rep. change (1 + S (length (suf s))) with (S (S (length (suf s)))).
  rewrite rep_loop_S. change (0 <? 1) with true. cbv iota. apply m_Chr_fail. exact H.
Qed.

(* ---- the parts of a conversion --------------------------------------------------------------- *)
Lemma m_SPEC z c rest k : suf z = c :: rest -> is_spec_char c = true ->
  m rSPEC z k = k (St z [c] rest ((5, (pos z, pos z + 1)) :: caps z)).
Proof.
  intros Hs Hc. unfold rSPEC. rewrite m_Grp.
  rewrite (m_Chr_ok false SPECSET z c rest) by (first [exact Hs|rewrite chr_SPEC; exact Hc]).
  reflexivity.
Qed.

Lemma m_SPEC_fail z k : head_not is_spec_char (suf z) -> m rSPEC z k = Fail.
Proof.
  intros H. unfold rSPEC. rewrite m_Grp. apply m_Chr_fail.
  eapply head_not_ext; [apply chr_SPEC|exact H].
Qed.

Definition prec_ok (p : prec) : bool := match p with PDotNum ds => digits ds | _ => true end.
Definition width_ok (w : width) : bool := match w with WNum ds => digits ds | _ => true end.

Definition prec_caps (z : st) (p : prec) : list (nat * (nat * nat)) :=
  match p with
  | PNone => caps z
  | _ => (4, (pos z, pos z + length (render_prec p))) :: caps z
  end.

Definition width_caps (z : st) (w : width) : list (nat * (nat * nat)) :=
  match w with
  | WNone => caps z
  | _ => (3, (pos z, pos z + length (render_width w))) :: caps z
  end.

Lemma digits_split ds : digits ds = true ->
  exists d r, ds = d :: r /\ is_digit d = true /\ forallb is_digit ds = true.
Proof.
  unfold digits. destruct ds as [|d r]; cbn; [discriminate|]. intros H.
  exists d, r. apply andb_true_iff in H. destruct H as [H1 H2]. rewrite H1, H2. auto.
Qed.

Lemma m_PREC z p c rest k x :
  suf z = render_prec p ++ c :: rest -> prec_ok p = true -> is_spec_char c = true ->
  k (St z (render_prec p) (c :: rest) (prec_caps z p)) = Done x ->
  m rPREC z k = Done x.
Proof.
  intros Hs Hp Hc Hk. destruct (spec_char_facts c Hc) as (C1 & C2 & C3 & C4 & C5 & C6).
  unfold rPREC. rewrite m_Alt, m_Grp, m_Cat.
  destruct p as [| | |ds]; cbn [render_prec app] in Hs.
  - (* no precision *)
    rewrite m_Chr_fail by (rewrite Hs; cbn [head_not]; rewrite chr_single; exact C4).
    cbn [orelse]. rewrite m_Eps. cbn [render_prec prec_caps] in Hk.
    rewrite <- Hs, St_nil in Hk. exact Hk.
  - (* "." *)
    rewrite (m_Chr_ok false _ z 46%N (c :: rest)) by (first [exact Hs|reflexivity]).
    rewrite m_Alt, m_Alt.
    rewrite m_Chr_fail by (cbn [head_not suf St]; rewrite chr_single; exact C3).
    rewrite m_Rep1_none by (cbn [head_not suf St]; rewrite chr_DIG; exact C1).
    cbn [orelse]. rewrite m_Eps. cbn [orelse].
    replace (set_cap 4 _ _) with (St z (render_prec PDot) (c :: rest) (prec_caps z PDot));
      [rewrite Hk; reflexivity|].
    st_solve.
  - (* ".*" *)
    rewrite (m_Chr_ok false _ z 46%N (42%N :: c :: rest)) by (first [exact Hs|reflexivity]).
    rewrite m_Alt, m_Alt.
    rewrite (m_Chr_ok false _ _ 42%N (c :: rest)) by reflexivity.
    replace (set_cap 4 _ _) with (St z (render_prec PDotStar) (c :: rest) (prec_caps z PDotStar)).
    + rewrite Hk. reflexivity.
    + st_solve.
  - (* ".digits" *)
    cbn [prec_ok] in Hp. destruct (digits_split ds Hp) as (d & r & Hds & Hd & Hall).
    destruct (digit_facts d Hd) as (D1 & D2 & D3 & D4 & D5).
    rewrite (m_Chr_ok false _ z 46%N (ds ++ c :: rest)) by (first [exact Hs|reflexivity]).
    rewrite m_Alt, m_Alt.
    rewrite m_Chr_fail by (cbn [head_not suf St]; rewrite Hds; cbn [head_not app]; rewrite chr_single; exact D2).
    cbn [orelse].
    rewrite (m_Rep_max false DIG 1 ds _ (c :: rest) _ x); [reflexivity|reflexivity| | | |].
    + apply digits_Forall. exact Hall.
    + cbn [head_not]. rewrite chr_DIG. exact C1.
    + rewrite Hds. cbn. lia.
    + replace (set_cap 4 _ _)
        with (St z (render_prec (PDotNum ds)) (c :: rest) (prec_caps z (PDotNum ds))); [exact Hk|].
      st_solve.
Qed.

Lemma m_WIDTH z w tail k x :
  suf z = render_width w ++ tail -> width_ok w = true ->
  head_not is_digit tail -> head_not (fun c => N.eqb c 42) tail ->
  k (St z (render_width w) tail (width_caps z w)) = Done x ->
  m rWIDTH z k = Done x.
Proof.
  intros Hs Hw Hd Hstar Hk. unfold rWIDTH. rewrite m_Alt, m_Grp, m_Alt.
  destruct w as [| |ds]; cbn [render_width app] in Hs.
  - rewrite m_Chr_fail by (rewrite Hs; eapply head_not_ext; [apply chr_single|exact Hstar]).
    rewrite m_Rep1_none by (rewrite Hs; eapply head_not_ext; [apply chr_DIG|exact Hd]).
    cbn [orelse]. rewrite m_Eps. cbn [render_width width_caps] in Hk.
    rewrite <- Hs, St_nil in Hk. exact Hk.
  - rewrite (m_Chr_ok false _ z 42%N tail) by (first [exact Hs|reflexivity]).
    replace (set_cap 3 _ _) with (St z (render_width WStar) tail (width_caps z WStar));
      [rewrite Hk; reflexivity|st_solve].
  - cbn [width_ok] in Hw. destruct (digits_split ds Hw) as (d & r & Hds & Hdd & Hall).
    destruct (digit_facts d Hdd) as (D1 & D2 & D3 & D4 & D5).
    rewrite m_Chr_fail
      by (rewrite Hs, Hds; cbn [head_not app]; rewrite chr_single; exact D2).
    cbn [orelse].
    rewrite (m_Rep_max false DIG 1 ds z tail _ x); [reflexivity|exact Hs| | | |].
    + apply digits_Forall. exact Hall.
    + eapply head_not_ext; [apply chr_DIG|exact Hd].
    + rewrite Hds. cbn. lia.
    + replace (set_cap 3 _ _)
        with (St z (render_width (WNum ds)) tail (width_caps z (WNum ds))); [exact Hk|st_solve].
Qed.

Lemma m_NUM_some z ds tail k x :
  suf z = ds ++ 36%N :: tail -> number_ok ds = true ->
  k (St z (ds ++ [36%N]) tail ((2, (pos z, pos z + length ds)) :: caps z)) = Done x ->
  m rNUM z k = Done x.
Proof.
  intros Hs Hn Hk. unfold rNUM. rewrite m_Alt, m_Cat, m_Grp, m_Cat.
  destruct ds as [|d r]; [discriminate|]. cbn [number_ok] in Hn.
  apply andb_true_iff in Hn. destruct Hn as [Hd Hr]. cbn [app] in Hs.
  rewrite (m_Chr_ok false _ z d (r ++ 36%N :: tail)) by (first [exact Hs|rewrite chr_19; exact Hd]).
  rewrite (m_Rep_max false DIG 0 r _ (36%N :: tail) _ x); [reflexivity|reflexivity| | | |].
  - apply digits_Forall. exact Hr.
  - reflexivity.
  - lia.
  - cbv beta. rewrite (m_Chr_ok false _ _ 36%N tail) by reflexivity.
    match goal with |- k ?s = _ =>
      replace s with (St z ((d :: r) ++ [36%N]) tail ((2, (pos z, pos z + length (d :: r))) :: caps z));
        [exact Hk|] end.
    rewrite !St_St. apply st_ext; cbn [St pre suf pos caps set_cap]; auto.
    + change (d :: r ++ [36%N]) with ((d :: r) ++ [36%N]).
      rewrite rev_app_distr, <- app_assoc. reflexivity.
    + rewrite !app_length. cbn [length]. lia.
Qed.

Lemma not_digit_19 c : is_digit c = false -> (N.leb 49 c && N.leb c 57) = false.
Proof.
  unfold is_digit. intros H.
  destruct (N.leb 49 c) eqn:A; destruct (N.leb c 57) eqn:B; cbn; auto.
  assert (N.leb 48 c = true) as E1 by (apply N.leb_le; apply N.leb_le in A; lia).
  rewrite E1 in H. cbn in H. exact H.
Qed.

Lemma m_NUM_skip z run tail k :
  suf z = run ++ tail -> forallb is_digit run = true ->
  head_not is_digit tail -> (run <> [] -> head_not (fun c => N.eqb c 36) tail) ->
  m rNUM z k = k z.
Proof.
  intros Hs Hrun Hd H36. unfold rNUM. rewrite m_Alt, m_Cat, m_Grp, m_Cat.
  match goal with |- orelse ?a _ = _ => assert (a = Fail) as -> end; [|reflexivity].
  destruct run as [|d r]; cbn [app] in Hs.
  - apply m_Chr_fail. rewrite Hs. destruct tail as [|c t]; [exact I|]. cbn [head_not] in *.
    rewrite chr_19. apply not_digit_19. exact Hd.
  - cbn [forallb] in Hrun. apply andb_true_iff in Hrun. destruct Hrun as [Hdd Hr].
    destruct (chr_ok false [(49, 57)]%N d) eqn:E.
    + rewrite (m_Chr_ok false _ z d (r ++ tail)) by assumption.
      apply (m_Rep_fail false DIG 0 r _ tail); [reflexivity| | |].
      * apply digits_Forall. exact Hr.
      * eapply head_not_ext; [apply chr_DIG|exact Hd].
      * intros l1 l2 El. cbv beta. apply m_Chr_fail. cbn [suf set_cap St].
        destruct l2 as [|d' l2']; cbn [app].
        -- eapply head_not_ext; [apply chr_single|apply H36; discriminate].
        -- cbn [head_not]. rewrite chr_single.
           assert (is_digit d' = true) as Hd'.
           { rewrite forallb_forall in Hr. apply Hr. rewrite El. apply in_or_app. right. left. reflexivity. }
           apply (digit_facts d' Hd').
    + apply m_Chr_fail. rewrite Hs. cbn [head_not]. exact E.
Qed.

(* ---- one token at a per cent sign ------------------------------------------------------------ *)
Lemma orelse_Done a b x : a = Done x -> orelse a b = Done x.
Proof. intros ->. reflexivity. Qed.

Lemma get_cap_hd n sp cs : get_cap n ((n, sp) :: cs) = Some sp.
Proof. cbn. rewrite Nat.eqb_refl. reflexivity. Qed.

Lemma get_cap_tl n k sp cs : n <> k -> get_cap n ((k, sp) :: cs) = get_cap n cs.
Proof. intros H. cbn. apply Nat.eqb_neq in H. rewrite H. reflexivity. Qed.

(* no per cent sign here: the expression does not match *)
Lemma printf_at_other z k : head_not (fun c => N.eqb c 37) (suf z) -> m rx_printf z k = Fail.
Proof.
  intros H. rewrite rx_printf_shape, m_Cat. apply m_Chr_fail.
  eapply head_not_ext; [apply chr_single|exact H].
Qed.

(* "%%" *)
Lemma printf_at_pct z rest k x : suf z = 37%N :: 37%N :: rest ->
  k (St z [37%N; 37%N] rest ((1, (pos z + 1, pos z + 2)) :: caps z)) = Done x ->
  m rx_printf z k = Done x.
Proof.
  intros Hs Hk. rewrite rx_printf_shape, m_Cat.
  rewrite (m_Chr_ok false cPCT z 37%N (37%N :: rest)) by (first [exact Hs|reflexivity]).
  rewrite m_Alt. apply orelse_Done. rewrite m_Grp. unfold rGOOD. rewrite m_Alt. apply orelse_Done.
  rewrite (m_Chr_ok false cPCT _ 37%N rest) by reflexivity.
  match goal with |- k ?s = _ =>
    replace s with (St z [37%N; 37%N] rest ((1, (pos z + 1, pos z + 2)) :: caps z)); [exact Hk|] end.
  rewrite St_St. apply st_ext; cbn [St pre suf pos caps set_cap app rev length]; auto;
    try (repeat f_equal; lia).
Qed.

(* a lone "%" *)
Lemma printf_at_lone z rest k : suf z = 37%N :: rest -> lone_ok rest = true ->
  m rx_printf z k = k (St z [37%N] rest (caps z)).
Proof.
  intros Hs Hl. rewrite rx_printf_shape, m_Cat.
  rewrite (m_Chr_ok false cPCT z 37%N rest) by (first [exact Hs|reflexivity]).
  rewrite m_Alt.
  match goal with |- orelse ?a _ = _ => assert (a = Fail) as -> end; [|reflexivity].
  rewrite m_Grp. unfold rGOOD. rewrite m_Alt.
  assert (head_not starts_conversion rest) as Hh.
  { destruct rest; cbn in *; [exact I|]. apply negb_true_iff in Hl. exact Hl. }
  assert (forall q : N -> bool, (forall c, starts_conversion c = false -> q c = false) ->
            head_not q rest) as Hq.
  { intros q Hqc. destruct rest; cbn in *; auto. }
  rewrite m_Chr_fail.
  2:{ cbn [suf St]. apply Hq. intros c Hc. unfold cPCT. rewrite chr_single.
      unfold starts_conversion in Hc.
      repeat (apply orb_false_iff in Hc; destruct Hc as [Hc ?]). exact Hc. }
  cbn [orelse]. rewrite !m_Cat.
  rewrite (m_NUM_skip _ [] rest); [| reflexivity | reflexivity | |].
  2:{ apply Hq. intros c Hc. unfold starts_conversion in Hc.
      repeat (apply orb_false_iff in Hc; destruct Hc as [Hc ?]). assumption. }
  2:{ intros Hne. contradiction. }
  cbv beta. rewrite !m_Cat. unfold rWIDTH. rewrite m_Alt, m_Grp, m_Alt.
  rewrite m_Chr_fail.
  2:{ cbn [suf St]. apply Hq. intros c Hc. rewrite chr_single. unfold starts_conversion in Hc.
      repeat (apply orb_false_iff in Hc; destruct Hc as [Hc ?]). assumption. }
  rewrite m_Rep1_none.
  2:{ cbn [suf St]. apply Hq. intros c Hc. rewrite chr_DIG. unfold starts_conversion in Hc.
      repeat (apply orb_false_iff in Hc; destruct Hc as [Hc ?]). assumption. }
  cbn [orelse]. rewrite m_Eps. cbv beta. rewrite ?m_Cat.
  unfold rPREC. rewrite m_Alt, m_Grp, m_Cat.
  rewrite m_Chr_fail.
  2:{ cbn [suf St]. apply Hq. intros c Hc. rewrite chr_single. unfold starts_conversion in Hc.
      repeat (apply orb_false_iff in Hc; destruct Hc as [Hc ?]). assumption. }
  cbn [orelse]. rewrite m_Eps. cbv beta.
  apply m_SPEC_fail. cbn [suf St]. apply Hq. intros c Hc. unfold starts_conversion in Hc.
  repeat (apply orb_false_iff in Hc; destruct Hc as [Hc ?]). assumption.
Qed.

(* a conversion *)
Lemma tail_heads p c rest : is_spec_char c = true -> prec_ok p = true ->
  head_not is_digit (render_prec p ++ c :: rest) /\
  head_not (fun x => N.eqb x 42) (render_prec p ++ c :: rest) /\
  head_not (fun x => N.eqb x 36) (render_prec p ++ c :: rest).
Proof.
  intros Hc Hp. destruct (spec_char_facts c Hc) as (C1 & C2 & C3 & C4 & C5 & C6).
  destruct p; cbn; auto.
Qed.

Lemma printf_at_spec z num w p c rest : caps z = [] ->
  suf z = render_tok (TSpec num w p c) ++ rest -> tok_ok (TSpec num w p c) = true ->
  exists sfin,
    (pre sfin = rev (render_tok (TSpec num w p c)) ++ pre z /\ suf sfin = rest /\
     pos sfin = pos z + length (render_tok (TSpec num w p c)) /\
     get_cap 1 (caps sfin) = Some (pos z + 1, pos sfin) /\
     get_cap 2 (caps sfin) =
       (match num with Some ds => Some (pos z + 1, pos z + 1 + length ds) | None => None end) /\
     get_cap 5 (caps sfin) = Some (pos sfin - 1, pos sfin)) /\
    forall k x, k sfin = Done x -> m rx_printf z k = Done x.
Proof.
  intros Hcz Hs Hok. cbn [tok_ok] in Hok.
  apply andb_true_iff in Hok. destruct Hok as [Hok Hc].
  apply andb_true_iff in Hok. destruct Hok as [Hok Hp].
  apply andb_true_iff in Hok. destruct Hok as [Hn Hw].
  assert (width_ok w = true) as Hw' by (destruct w; auto).
  assert (prec_ok p = true) as Hp' by (destruct p; auto).
  destruct (spec_char_facts c Hc) as (C1 & C2 & C3 & C4 & C5 & C6).
  destruct (tail_heads p c rest Hc Hp') as (T1 & T2 & T3).
  cbn [render_tok] in Hs.
  set (z1 := St z [37%N] (match num with Some ds => ds ++ [36%N] | None => [] end ++
                          render_width w ++ render_prec p ++ [c] ++ rest) (caps z)).
  (* the state after the optional argument number *)
  set (z2 := match num with
             | Some ds => St z1 (ds ++ [36%N]) (render_width w ++ render_prec p ++ c :: rest)
                             ((2, (pos z1, pos z1 + length ds)) :: caps z1)
             | None => z1
             end).
  set (z3 := St z2 (render_width w) (render_prec p ++ c :: rest) (width_caps z2 w)).
  set (z4 := St z3 (render_prec p) (c :: rest) (prec_caps z3 p)).
  set (z5 := St z4 [c] rest ((5, (pos z4, pos z4 + 1)) :: caps z4)).
  exists (set_cap 1 (pos z1, pos z5) z5).
  assert (suf z2 = render_width w ++ render_prec p ++ c :: rest) as Hz2.
  { unfold z2. destruct num; [reflexivity|]. unfold z1. cbn [suf St app]. reflexivity. }
  split.
  - (* what the final state looks like *)
    assert (pos z2 = pos z + 1 + length (match num with Some ds => ds ++ [36%N] | None => [] end)) as P2.
    { unfold z2, z1. destruct num; cbn [St pos length]; lia. }
    assert (pos z5 = pos z + length (37%N :: match num with Some ds => ds ++ [36%N] | None => [] end ++
                                       render_width w ++ render_prec p ++ [c])) as P5.
    { unfold z5, z4, z3. cbn [St pos]. rewrite P2. cbn [length]. rewrite !app_length. cbn [length]. lia. }
    split; [|split; [reflexivity|split; [|split; [|split]]]].
    + unfold z5, z4, z3. cbn [set_cap pre St].
      assert (pre z2 = rev (37%N :: match num with Some ds => ds ++ [36%N] | None => [] end) ++ pre z) as ->.
      { unfold z2, z1. destruct num as [ds|]; cbn [St pre]; [|reflexivity].
        change (rev [37%N]) with [37%N].
        change (rev (37%N :: ds ++ [36%N])) with (rev (ds ++ [36%N]) ++ [37%N]).
        rewrite <- app_assoc. reflexivity. }
      replace (render_tok (TSpec num w p c))
        with ((37%N :: match num with Some ds => ds ++ [36%N] | None => [] end) ++
              render_width w ++ render_prec p ++ [c]) by reflexivity.
      rewrite !rev_app_distr, <- !app_assoc. reflexivity.
    + cbn [set_cap pos]. exact P5.
    + cbn [set_cap caps pos]. rewrite get_cap_hd. apply f_equal.
      apply f_equal2; [unfold z1; cbn [St pos length]; lia|reflexivity].
    + cbn [set_cap caps]. rewrite get_cap_tl by lia. unfold z5. cbn [St caps]. rewrite get_cap_tl by lia.
      unfold z4. cbn [St caps].
      assert (get_cap 2 (prec_caps z3 p) = get_cap 2 (caps z3)) as ->
        by (destruct p; cbn [prec_caps]; [reflexivity|rewrite get_cap_tl by lia; reflexivity..]).
      unfold z3. cbn [St caps].
      assert (get_cap 2 (width_caps z2 w) = get_cap 2 (caps z2)) as ->
        by (destruct w; cbn [width_caps]; [reflexivity|rewrite get_cap_tl by lia; reflexivity..]).
      unfold z2. destruct num as [ds|].
      * cbn [St caps]. rewrite get_cap_hd. unfold z1. cbn [St pos length]. f_equal.
      * unfold z1. cbn [St caps]. rewrite Hcz. reflexivity.
    + cbn [set_cap caps]. rewrite get_cap_tl by lia. unfold z5 at 1. cbn [St caps]. rewrite get_cap_hd.
      cbn [set_cap pos]. apply f_equal.
      apply f_equal2; unfold z5; cbn [St pos length]; lia.
  - (* the match *)
    intros k x Hk. rewrite rx_printf_shape, m_Cat.
    assert (suf z = 37%N :: (match num with Some ds => ds ++ [36%N] | None => [] end ++
                             render_width w ++ render_prec p ++ [c] ++ rest)) as Hs'.
    { rewrite Hs. unfold pct. cbn [app]. f_equal. rewrite <- !app_assoc. reflexivity. }
    rewrite (m_Chr_ok false cPCT z 37%N _ _ Hs') by reflexivity.
    fold z1. rewrite m_Alt. apply orelse_Done. rewrite m_Grp. unfold rGOOD. rewrite m_Alt.
    rewrite m_Chr_fail.
    2:{ unfold z1. cbn [suf St]. unfold cPCT.
        destruct num as [[|d r]|]; [discriminate| |].
        - cbn [number_ok] in Hn. cbn [app head_not]. rewrite chr_single.
          apply andb_true_iff in Hn. destruct Hn as [Hn _]. apply andb_true_iff in Hn.
          destruct Hn as [N1 N2]. apply N.leb_le in N1. apply N.leb_le in N2. apply N.eqb_neq. lia.
        - cbn [app]. destruct w as [| |ds].
          + cbn [render_width app]. destruct p as [| | |ds']; cbn [render_prec app head_not];
              rewrite chr_single; try reflexivity. exact C2.
          + cbn. reflexivity.
          + cbn [width_ok] in Hw'. destruct (digits_split ds Hw') as (d & r & -> & Hd & _).
            cbn [render_width app head_not]. rewrite chr_single. apply (digit_facts d Hd). }
    cbn [orelse]. rewrite !m_Cat.
    (* argument number *)
    assert (forall K, K z2 = Done x -> m rNUM z1 K = Done x) as HNUM.
    { intros K HK. unfold z2 in HK. destruct num as [ds|].
      - apply (m_NUM_some z1 ds (render_width w ++ render_prec p ++ c :: rest)); [|exact Hn|exact HK].
        unfold z1. cbn [suf St]. rewrite <- !app_assoc. reflexivity.
      - destruct w as [| |ds].
        + rewrite (m_NUM_skip z1 [] (render_prec p ++ c :: rest)); auto;
            try (intros; contradiction).
        + rewrite (m_NUM_skip z1 [] (42%N :: render_prec p ++ c :: rest)); auto;
            try (intros; contradiction); try (cbn; reflexivity).
        + cbn [width_ok] in Hw'. destruct (digits_split ds Hw') as (d & r & Hds & Hd & Hall).
          rewrite (m_NUM_skip z1 ds (render_prec p ++ c :: rest)); auto. }
    apply HNUM. rewrite m_Cat.
    apply (m_WIDTH z2 w (render_prec p ++ c :: rest)); auto. fold z3. rewrite m_Cat.
    apply (m_PREC z3 p c rest); auto. fold z4.
    rewrite (m_SPEC z4 c rest) by auto. fold z5. exact Hk.
Qed.

(* ---- finditer over a rendered token list ----------------------------------------------------- *)
Definition whole (z : st) : list N := rev (pre z) ++ suf z.

Lemma whole_St z l rest cs : suf z = l ++ rest -> whole (St z l rest cs) = whole z.
Proof.
  intros H. unfold whole. cbn [St pre suf]. rewrite H, rev_app_distr, rev_involutive, <- app_assoc.
  reflexivity.
Qed.

Lemma wf_St z l rest cs : wf z -> wf (St z l rest cs).
Proof. unfold wf. cbn [St pos pre]. intros H. rewrite app_length, rev_length. lia. Qed.

Lemma slice_whole z l0 l r : wf z -> suf z = l0 ++ l ++ r ->
  slice (whole z) (pos z + length l0) (pos z + length l0 + length l) = l.
Proof.
  unfold wf, whole, slice. intros Hw Hs. rewrite Hs.
  replace (pos z + length l0 + length l - (pos z + length l0)) with (length l) by lia.
  rewrite app_assoc.
  replace (pos z + length l0) with (length (rev (pre z) ++ l0)) by (rewrite app_length, rev_length; lia).
  rewrite skipn_app, skipn_all, Nat.sub_diag. cbn [skipn app].
  rewrite firstn_app, firstn_all, Nat.sub_diag. cbn [firstn]. apply app_nil_r.
Qed.

Lemma run_at_fail r z (acc : st -> bool) : m r z (fun s' => if acc s' then Done s' else Fail) = Fail ->
  run_at r z acc = MNone.
Proof. unfold run_at. intros ->. reflexivity. Qed.

Lemma run_at_done r z (acc : st -> bool) sfin :
  m r z (fun s' => if acc s' then Done s' else Fail) = Done sfin ->
  run_at r z acc = MSome (mkres (pos z) (pos sfin) (caps sfin)).
Proof. unfold run_at. intros ->. reflexivity. Qed.

Lemma fwd_St : forall l z rest, suf z = l ++ rest -> fwd (length l) z = St z l rest (caps z).
Proof.
  induction l as [|c l IH]; intros z rest Hs; cbn [length fwd].
  - cbn [app] in Hs. rewrite <- Hs. symmetry. apply St_nil.
  - cbn [app] in Hs. rewrite Hs. rewrite (IH (advance z c (l ++ rest)) rest) by reflexivity.
    rewrite advance_St, St_St. reflexivity.
Qed.

Lemma z_nocaps z : caps z = [] -> mkst (pre z) (suf z) (pos z) [] = z.
Proof. intros H. destruct z; cbn in *; subst; reflexivity. Qed.

Lemma skip_char z c t f : suf z = c :: t -> N.eqb c 37 = false -> caps z = [] ->
  finditer_from rx_printf (S f) z None = finditer_from rx_printf (S f) (St z [c] t []) None.
Proof.
  intros Hs Hc Hcz. rewrite !finditer_from_S. cbn [suf St]. rewrite Hs. cbn [length].
  rewrite (search_from_S rx_printf (S (length t)) z None).
  rewrite run_at_fail by (apply printf_at_other; rewrite Hs; exact Hc).
  rewrite Hs, advance_St, Hcz.
  destruct (search_from rx_printf (S (length t)) (St z [c] t []) None) as [|x|] eqn:E; try reflexivity.
  apply search_from_some in E. destruct E as (E1 & E2 & _). cbn [St pos length] in E1.
  match goal with |- match finditer_from _ _ ?A _ with _ => _ end =
                     match finditer_from _ _ ?B _ with _ => _ end =>
    assert (A = B) as ->; [|reflexivity] end.
  replace (m_end x - pos z) with (S (m_end x - (pos z + 1))) by lia.
  cbn [fwd suf pre pos St rev app length]. f_equal. apply st_ext; cbn; auto. lia.
Qed.

Lemma skip_text : forall s z rest f, suf z = s ++ rest -> mem_N 37%N s = false -> caps z = [] ->
  finditer_from rx_printf (S f) z None = finditer_from rx_printf (S f) (St z s rest []) None.
Proof.
  induction s as [|c s IH]; intros z rest f Hs Hm Hcz.
  - cbn [app] in Hs. rewrite <- Hs, <- Hcz, St_nil. reflexivity.
  - cbn [mem_N] in Hm. apply orb_false_iff in Hm. destruct Hm as [Hc Hm]. cbn [app] in Hs.
    rewrite (skip_char z c (s ++ rest) f Hs) by (first [rewrite N.eqb_sym; exact Hc|exact Hcz]).
    rewrite (IH (St z [c] (s ++ rest) []) rest f) by (first [reflexivity|exact Hm]).
    rewrite St_St. reflexivity.
Qed.

Lemma gtext_cap s g x a b : get_cap g (m_caps x) = Some (a, b) -> gtext s g x = Some (slice s a b).
Proof. unfold gtext, group. intros ->. reflexivity. Qed.

Lemma gtext_none s g x : get_cap g (m_caps x) = None -> gtext s g x = None.
Proof. unfold gtext, group. intros ->. reflexivity. Qed.

Lemma render_tok_pos t : match t with TText _ => True | _ => 0 < length (render_tok t) end.
Proof. destruct t; cbn; auto; lia. Qed.

(* the step at a token that begins with a per cent sign *)
Lemma search_at_token z t rest :
  wf z -> caps z = [] -> suf z = render_tok t ++ rest -> tok_ok t = true ->
  match t with TText _ => False | TLone => lone_ok rest = true | _ => True end ->
  exists x, search_from rx_printf (S (length (suf z))) z None = MSome x /\
            m_end x = pos z + length (render_tok t) /\ tok_match (whole z) (pos z) t x.
Proof.
  intros Hwf Hcz Hs Hok Hside. rewrite search_from_S.
  destruct printf_groups as (G1 & G2 & G5).
  destruct t as [txt| | |num w p c]; [contradiction| | |].
  - (* %% *)
    cbn [render_tok app] in Hs. unfold pct in Hs.
    rewrite (run_at_done rx_printf z _ (St z [37%N; 37%N] rest ((1, (pos z + 1, pos z + 2)) :: caps z)))
      by (apply (printf_at_pct z rest); [exact Hs|reflexivity]).
    eexists; split; [reflexivity|]. cbn [m_end m_start m_caps St pos caps render_tok length].
    split; [reflexivity|]. split; [reflexivity|].
    rewrite G1. rewrite (gtext_cap _ 1 _ (pos z + 1) (pos z + 2)) by (cbn [m_caps]; apply get_cap_hd).
    f_equal. pose proof (slice_whole z [37%N] [37%N] rest Hwf Hs) as Hsl.
    cbn [length] in Hsl. replace (pos z + 1 + 1) with (pos z + 2) in Hsl by lia. exact Hsl.
  - (* lone *)
    cbn [render_tok app] in Hs. unfold pct in Hs.
    rewrite (run_at_done rx_printf z _ (St z [37%N] rest (caps z)))
      by (rewrite (printf_at_lone z rest) by assumption; reflexivity).
    eexists; split; [reflexivity|]. cbn [m_end m_start m_caps St pos caps render_tok length].
    split; [reflexivity|]. split; [reflexivity|].
    rewrite G1. apply gtext_none. cbn [m_caps]. rewrite Hcz. reflexivity.
  - (* conversion *)
    destruct (printf_at_spec z num w p c rest Hcz Hs Hok)
      as (sfin & (F1 & F2 & F3 & F4 & F5 & F6) & Hm).
    rewrite (run_at_done rx_printf z _ sfin) by (apply Hm; reflexivity).
    set (x0 := mkres (pos z) (pos sfin) (caps sfin)).
    assert (m_caps x0 = caps sfin) as Hx0 by reflexivity.
    exists x0; split; [reflexivity|]. cbn [m_end m_start x0].
    split; [exact F3|]. split; [reflexivity|].
    rewrite G1, G2, G5.
    cbn [tok_ok] in Hok. apply andb_true_iff in Hok. destruct Hok as [Hok Hc].
    set (body := match num with Some ds => ds ++ [36%N] | None => [] end ++
                 render_width w ++ render_prec p).
    assert (suf z = [37%N] ++ (body ++ [c]) ++ rest) as Hs1.
    { rewrite Hs. cbn [render_tok]. unfold body, pct. cbn [app]. f_equal.
      rewrite <- !app_assoc. reflexivity. }
    assert (length (render_tok (TSpec num w p c)) = 1 + length body + 1) as Hlen.
    { cbn [render_tok length]. unfold body. rewrite !app_length. cbn [length]. lia. }
    split; [|split].
    + exists (body ++ [c]). split.
      * rewrite (gtext_cap _ 1 x0 (pos z + 1) (pos sfin)) by (rewrite Hx0; exact F4). f_equal.
        pose proof (slice_whole z [37%N] (body ++ [c]) rest Hwf Hs1) as Hsl.
        cbn [length] in Hsl. rewrite app_length in Hsl. cbn [length] in Hsl.
        rewrite F3, Hlen. replace (pos z + (1 + length body + 1)) with (pos z + 1 + (length body + 1)) by lia.
        exact Hsl.
      * intros E. destruct (spec_char_facts c Hc) as (_ & C2 & _).
        assert (body = [] /\ c = 37%N) as [_ ->].
        { destruct body as [|b0 body']; cbn in E; [inversion E; auto|].
          destruct body'; cbn in E; discriminate. }
        discriminate.
    + destruct num as [ds|]; [|apply gtext_none; rewrite Hx0; exact F5].
      rewrite (gtext_cap _ 2 x0 (pos z + 1) (pos z + 1 + length ds)) by (rewrite Hx0; exact F5).
      f_equal.
      assert (suf z = [37%N] ++ ds ++ (36%N :: render_width w ++ render_prec p ++ [c] ++ rest)) as Hs2.
      { rewrite Hs. cbn [render_tok]. unfold pct. cbn [app]. f_equal. rewrite <- !app_assoc. reflexivity. }
      exact (slice_whole z [37%N] ds _ Hwf Hs2).
    + rewrite (gtext_cap _ 5 x0 (pos sfin - 1) (pos sfin)) by (rewrite Hx0; exact F6). f_equal.
      assert (suf z = ([37%N] ++ body) ++ [c] ++ rest) as Hs3.
      { rewrite Hs1, <- !app_assoc. reflexivity. }
      pose proof (slice_whole z ([37%N] ++ body) [c] rest Hwf Hs3) as Hsl.
      rewrite app_length in Hsl. cbn [length] in Hsl.
      rewrite F3, Hlen.
      replace (pos z + (1 + length body + 1) - 1) with (pos z + (1 + length body)) by lia.
      replace (pos z + (1 + length body + 1)) with (pos z + (1 + length body) + 1) by lia.
      exact Hsl.
Qed.

Lemma finditer_toks : forall toks z fuel,
  wf z -> caps z = [] -> suf z = render toks -> clean toks = true ->
  2 * length (suf z) + 1 < fuel ->
  exists ms, finditer_from rx_printf fuel z None = Some ms /\
    Forall2 (fun ot x => tok_match (whole z) (fst ot) (snd ot) x) (pct_toks toks (pos z)) ms.
Proof.
  induction toks as [|t toks IH]; intros z fuel Hwf Hcz Hs Hc Hfuel.
  - destruct fuel as [|f]; [lia|]. cbn [render map concat] in Hs.
    rewrite finditer_from_S, search_from_S.
    rewrite run_at_fail by (apply printf_at_other; rewrite Hs; exact I).
    rewrite Hs. exists []. split; [reflexivity|constructor].
  - destruct fuel as [|f]; [lia|].
    cbn [clean] in Hc. apply andb_true_iff in Hc. destruct Hc as [Hc Hlone].
    apply andb_true_iff in Hc. destruct Hc as [Hok Hc].
    assert (suf z = render_tok t ++ render toks) as Hs' by exact Hs.
    destruct t as [txt| | |num w p c].
    + (* text: skipped by the search *)
      cbn [render_tok] in Hs'. cbn [tok_ok] in Hok. apply negb_true_iff in Hok.
      rewrite (skip_text txt z (render toks) f Hs' Hok Hcz).
      destruct (IH (St z txt (render toks) []) (S f)) as (ms & Hms & Hf); auto.
      * apply wf_St. exact Hwf.
      * cbn [suf St]. rewrite Hs', app_length in Hfuel. lia.
      * exists ms. split; [exact Hms|]. cbn [pct_toks render_tok].
        rewrite (whole_St z txt (render toks) [] Hs') in Hf. exact Hf.
    + destruct (search_at_token z TPct (render toks) Hwf Hcz Hs' Hok I) as (x & Hx & He & Hm).
      rewrite finditer_from_S, Hx. destruct Hm as [Hst Hm].
      rewrite Hst, He. assert (Nat.eqb (pos z) (pos z + length (render_tok TPct)) = false) as ->
        by (apply Nat.eqb_neq; cbn; lia).
      replace (pos z + length (render_tok TPct) - pos z) with (length (render_tok TPct)) by lia.
      rewrite (z_nocaps z Hcz), (fwd_St (render_tok TPct) z (render toks) Hs'), Hcz.
      destruct (IH (St z (render_tok TPct) (render toks) []) f) as (ms & Hms & Hf); auto.
      * apply wf_St. exact Hwf.
      * cbn [suf St]. rewrite Hs', app_length in Hfuel. cbn [render_tok length] in Hfuel. lia.
      * rewrite Hms. exists (x :: ms). split; [reflexivity|]. cbn [pct_toks].
        constructor; [split; assumption|].
        rewrite (whole_St z _ (render toks) [] Hs') in Hf. exact Hf.
    + destruct (search_at_token z TLone (render toks) Hwf Hcz Hs' Hok Hlone) as (x & Hx & He & Hm).
      rewrite finditer_from_S, Hx. destruct Hm as [Hst Hm].
      rewrite Hst, He. assert (Nat.eqb (pos z) (pos z + length (render_tok TLone)) = false) as ->
        by (apply Nat.eqb_neq; cbn; lia).
      replace (pos z + length (render_tok TLone) - pos z) with (length (render_tok TLone)) by lia.
      rewrite (z_nocaps z Hcz), (fwd_St (render_tok TLone) z (render toks) Hs'), Hcz.
      destruct (IH (St z (render_tok TLone) (render toks) []) f) as (ms & Hms & Hf); auto.
      * apply wf_St. exact Hwf.
      * cbn [suf St]. rewrite Hs', app_length in Hfuel. cbn [render_tok length] in Hfuel. lia.
      * rewrite Hms. exists (x :: ms). split; [reflexivity|]. cbn [pct_toks].
        constructor; [split; assumption|].
        rewrite (whole_St z _ (render toks) [] Hs') in Hf. exact Hf.
    + destruct (search_at_token z (TSpec num w p c) (render toks) Hwf Hcz Hs' Hok I)
        as (x & Hx & He & Hm).
      rewrite finditer_from_S, Hx. destruct Hm as [Hst Hm].
      pose proof (render_tok_pos (TSpec num w p c)) as Hpos. cbv beta iota in Hpos.
      rewrite Hst, He.
      assert (Nat.eqb (pos z) (pos z + length (render_tok (TSpec num w p c))) = false) as ->
        by (apply Nat.eqb_neq; lia).
      replace (pos z + length (render_tok (TSpec num w p c)) - pos z)
        with (length (render_tok (TSpec num w p c))) by lia.
      rewrite (z_nocaps z Hcz), (fwd_St (render_tok (TSpec num w p c)) z (render toks) Hs'), Hcz.
      destruct (IH (St z (render_tok (TSpec num w p c)) (render toks) []) f) as (ms & Hms & Hf); auto.
      * apply wf_St. exact Hwf.
      * cbn [suf St]. rewrite Hs', app_length in Hfuel. lia.
      * rewrite Hms. exists (x :: ms). split; [reflexivity|]. cbn [pct_toks].
        constructor; [split; assumption|].
        rewrite (whole_St z _ (render toks) [] Hs') in Hf. exact Hf.
Qed.

(* Part A: on the rendering of a clean token list the printf expression finds
   exactly the tokens that begin with a per cent sign *)
Theorem printf_matches : forall toks, clean toks = true ->
  exists ms, rfinditer rx_printf (render toks) = Some ms /\ matches_describe toks ms.
Proof.
  intros toks Hc. unfold rfinditer, matches_describe.
  assert (st_at (render toks) 0 = mkst [] (render toks) 0 []) as -> by reflexivity.
  destruct (finditer_toks toks (mkst [] (render toks) 0 []) (2 * length (render toks) + 2))
    as (ms & Hms & Hf); auto.
  - reflexivity.
  - cbn [suf]. lia.
  - exists ms. split; [exact Hms|]. exact Hf.
Qed.
