(* The end-to-end theorems of C03 and C19 with the checker parameter instantiated by the
   C06 checker model (Model/CheckPlain.v props_chk / props_lint_chk), for plain files. *)
From Coq Require Import ZArith NArith List Bool Arith Lia.
From CL Require Import Base.Sx Base.Res Base.Str Model.Entry Model.Parse Model.Unescape
  Model.AddRemove Model.Compare Model.CompareText Model.Lint Model.LintProps
  Model.CheckProps Model.CheckPropsSpec Model.CheckPlain Generated.C06Facts
  Proofs.CompareProofs Proofs.CompareKeys Proofs.C02Props Proofs.C02Blocks Proofs.C02BlocksJunkRx Proofs.C02BlocksJunk
  Proofs.CompareFlat Proofs.CompareTextProofs Proofs.LintProofs Proofs.LintE2E Proofs.LintPropsE2E
  Proofs.CheckSilentProofs Proofs.E2EChecked.
Import ListNotations.

Definition pct_free_values (l : list (pykey * str)) : Prop :=
  Forall (fun kv => mem_N c_pct (snd kv) = false) l.

Lemma Forall2_In_r {A B} (P : A -> B -> Prop) l l' y :
  Forall2 P l l' -> In y l' -> exists x, In x l /\ P x y.
Proof.
  induction 1 as [|x y' l l' Hxy _ IH]; intros H; [contradiction|].
  destruct H as [<-|H]; [exists x; split; [left; reflexivity|exact Hxy]|].
  destruct (IH H) as (x' & Hx' & HP). exists x'. split; [right; exact Hx'|exact HP].
Qed.

(* every entity of a parsed garbage-free reference carries one of the values *)
Lemma reads_values (R : list (@cent pykey str)) lR a :
  reads wdf R lR [] -> pct_free_values lR -> In a R -> mem_N c_pct (c_val a) = false.
Proof.
  intros [HF HJ] Hp Ha.
  assert (c_junk a = false) as Hj.
  { destruct (c_junk a) eqn:E; [|reflexivity].
    assert (In a (filter (@c_junk pykey str) R)) as Hin by (apply filter_In; auto).
    rewrite HJ in Hin. contradiction. }
  assert (In a (filter (@nonjunkb pykey str) R)) as Hin.
  { apply filter_In. split; [exact Ha|]. unfold nonjunkb. rewrite Hj. reflexivity. }
  destruct (Forall2_In_r _ _ _ a HF Hin) as (kv & Hkv & (_ & Hv & _)).
  unfold pct_free_values in Hp. rewrite Forall_forall in Hp. rewrite Hv. apply Hp, Hkv.
Qed.

Section Compare.
Context (locale : option str) (merge : bool) (j0 : nat).
Context (bsR : list block) (lR lL : lfile (K := pykey) (V := str)).
Hypothesis HlegR : Forall legal_block bsR.
Hypothesis HadjR : adjacent_ok bsR.
Hypothesis HvalR : Forall2 tokenized (records_of bsR) lR.
Hypothesis HndR : NoDup (lkeys lR).
Hypothesis HndL : NoDup (lkeys lL).
Hypothesis HplainR : pct_free_values lR.
Hypothesis HmarkR : contains lit_plural_comment (file_text bsR) = false.

Lemma chk_agrees textL :
  mem_N c_fffd textL = false -> mem_N c_backslash textL = false ->
  compare_properties j0 (fun _ => VError) (props_chk locale (file_text bsR) textL) merge
                     (file_text bsR) textL =
  compare_properties j0 (fun _ => VError) (fun _ _ => []) merge (file_text bsR) textL.
Proof.
  intros Hf Hb. apply compare_properties_ext. intros R j1 L j2 HR HL a b Ha Hb'.
  apply props_chk_silent; auto.
  destruct (parse_blocks bsR lR j0 HlegR HadjR (tokenized_valued _ _ HvalR)) as (R' & HpR & HrR).
  rewrite HpR in HR. inversion HR; subst R' j1.
  exact (reads_values R lR a HrR HplainR Ha).
Qed.

Theorem end_to_end_properties_checked (bsL : list block) :
  Forall legal_block bsL -> adjacent_ok bsL -> Forall2 tokenized (records_of bsL) lL ->
  mem_N c_fffd (file_text bsL) = false -> mem_N c_backslash (file_text bsL) = false ->
  exists r,
    compare_properties j0 (fun _ => VError) (props_chk locale (file_text bsR) (file_text bsL)) merge
                       (file_text bsR) (file_text bsL) = Ok r /\
    (a_missings r = missing_keys pykey_eqb lR lL /\
     stats_fields (a_stats r) = flat_stats pykey_eqb str_eqb py_keyname wdf lR lL) /\
    filter (@is_njunk pykey) (a_notes r) = [] /\
    summary (fun _ => VError) r = 0 :: 0 :: flat_stats pykey_eqb str_eqb py_keyname wdf lR lL.
Proof.
  intros Hl Ha Hv Hf Hb.
  destruct (end_to_end_properties (fun _ _ => []) merge j0 bsR lR lL HlegR HadjR HvalR HndR HndL
              bsL Hl Ha Hv) as (r & Hr & Hrep & Hj & Hsum).
  exists r. rewrite (chk_agrees _ Hf Hb). repeat split; auto; apply Hrep.
Qed.

Theorem end_to_end_properties_junk_checked (bs1 : list block) (gl : list str) (bs2 : list block) :
  Forall legal_block bs1 -> legal_garbage gl = true -> Forall legal_block bs2 ->
  jadjacent_ok (with_garbage bs1 gl bs2) ->
  Forall2 tokenized (records_of bs1 ++ records_of bs2) lL ->
  let textL := file_text bs1 ++ gtext gl ++ file_text bs2 in
  let p := length (file_text bs1) in
  let jk := KS (CompareText.junk_key (S j0) (p, p + length (gtext gl))) in
  ~ In jk (lkeys lR) -> ~ In jk (lkeys lL) ->
  mem_N c_fffd textL = false -> mem_N c_backslash textL = false ->
  exists r,
    compare_properties j0 (fun _ => VError) (props_chk locale (file_text bsR) textL) merge
                       (file_text bsR) textL = Ok r /\
    (a_missings r = missing_keys pykey_eqb lR lL /\
     stats_fields (a_stats r) = flat_stats pykey_eqb str_eqb py_keyname wdf lR lL) /\
    filter (@is_njunk pykey) (a_notes r) = [NJunk (Z.of_nat p)] /\
    summary (fun _ => VError) r = 1 :: 0 :: flat_stats pykey_eqb str_eqb py_keyname wdf lR lL.
Proof.
  intros H1 Hg H2 Hadj Hv textL p jk Hk1 Hk2 Hf Hb.
  destruct (end_to_end_properties_junk (fun _ _ => []) merge j0 bsR lR lL HlegR HadjR HvalR HndR HndL
              bs1 gl bs2 H1 Hg H2 Hadj Hv Hk1 Hk2) as (r & Hr & Hrep & Hj & _ & Hsum).
  exists r. fold textL in Hr. rewrite (chk_agrees _ Hf Hb). repeat split; auto; apply Hrep.
Qed.
End Compare.

(* ---- lint ----------------------------------------------------------------------------------- *)
Theorem e2e_properties_checked (locale : option str) (all : list jblock)
        (rref : option (list jblock)) (j0 : nat) :
  Forall legal_jblock all -> jadjacent_ok all -> Forall block_key_ok all ->
  match rref with
  | Some rbs => Forall legal_jblock rbs /\ jadjacent_ok rbs
  | None => True
  end ->
  mem_N c_pct (jfile_text all) = false -> mem_N c_backslash (jfile_text all) = false ->
  mem_N c_fffd (jfile_text all) = false ->
  contains lit_plural_comment (jfile_text all) = false ->
  lint_properties j0 (Some (props_lint_chk locale (jfile_text all))) (jfile_text all)
                  (option_map jfile_text rref) = Ok (pexpected all rref).
Proof.
  intros H1 H2 H3 H4 Hp Hb Hf Hm.
  rewrite (lint_properties_ext _ (fun _ _ => [])).
  - apply (e2e_properties_silent (Some (fun _ _ => [])) all rref j0 H1 H2 H3 H4). intros e. reflexivity.
  - intros e He. apply props_lint_chk_silent; auto.
Qed.
