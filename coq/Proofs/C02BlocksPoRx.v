(* The expressions of the PO parser at an arbitrary offset: comment lines "#...\n", the string
   list item  ws* " tokens "  (tokens: plain characters and the five escapes), the loop of
   _parse_string_list, the key expression msgctxt|msgid, and PoParser.createEntity on
   [msgctxt list] msgid list msgstr list.  Used by Proofs/C02BlocksPo.v. *)
From Coq Require Import NArith List Bool Arith Lia.
From CL Require Import Base.Sx Base.Res Base.Str Regex.Rx Regex.RxLemmas Model.Entry Model.Parse
  Model.ParseFormats Generated.RxParser Proofs.UnescapeProofs
  Proofs.ClassLoop Proofs.ClassLoop2 Proofs.C02Props Proofs.WalkProofs Proofs.C02Roundtrip
  Proofs.C02BlocksRx Proofs.C02BlocksIniRx Proofs.C02BlocksIncRx Proofs.C02Po Proofs.ParseContracts.
Import ListNotations.

Local Arguments Nat.ltb : simpl never.
Local Arguments Nat.leb : simpl never.
Local Arguments Nat.eqb : simpl never.
Local Arguments N.eqb : simpl never.
Local Arguments N.leb : simpl never.
Local Arguments chr_ok : simpl never.
Local Arguments run : simpl never.
Local Arguments fwd : simpl never.

(* ---- comment lines "#text\n" (the comment includes its final newline) ------------------------- *)
Definition PBODY : rx :=
  Cat (Chr false (points [35%N]))
      (Cat (Rep false 0 None (Chr true (points [10%N]))) (Chr false (points [10%N]))).

Lemma po_comment_shape : rx_po_comment = Rep true 1 None PBODY.
Proof. reflexivity. Qed.

Definition legal_cline_p (c : N * str) : bool := N.eqb (fst c) 35 && no_nl (snd c).

Lemma pbody_line : forall t X pr p cs0 k, no_nl t = true ->
  m PBODY (mkst pr (35%N :: t ++ 10%N :: X) p cs0) k =
  k (mkst (10%N :: rev t ++ 35%N :: pr) X (S (S p + length t)) cs0).
Proof.
  intros t X pr p cs0 k Ht. unfold PBODY. rewrite m_Cat, m_Chr. cbn [suf].
  rewrite chr_ok_points, mem_single. replace (N.eqb 35 35) with true by reflexivity.
  unfold advance. cbn [pre suf pos caps]. rewrite m_Cat.
  assert (Hr : run true (points [10%N]) None (t ++ 10%N :: X) = length t).
  { apply run_exact_gen; [apply no_nl_class; exact Ht|]. simpl. rewrite nl_not_ok. reflexivity. }
  rewrite m_rep_lazy_stop; cbn [suf]; rewrite Hr.
  - rewrite fwd_app, m_Chr. cbn [suf]. rewrite chr_ok_points, mem_single.
    replace (N.eqb 10 10) with true by reflexivity. unfold advance. cbn [pre suf pos caps]. reflexivity.
  - intros i Hi. rewrite fwd_mkst_caps by (rewrite app_length; lia).
    destruct (skipn i (t ++ 10%N :: X)) as [|c' t'] eqn:Es.
    + apply (f_equal (@length N)) in Es. rewrite skipn_length, app_length in Es. simpl in Es. lia.
    + rewrite m_Chr. cbn [suf]. rewrite chr_ok_points, mem_single.
      assert (Hin : In c' t) by (eapply skipn_head_in; [exact Hi|exact Es]).
      apply (no_nl_in t c' Ht) in Hin. apply N.eqb_neq in Hin. rewrite Hin. reflexivity.
Qed.

Lemma pbody_fail : forall X pr p cs0 k, head_is (fun c => N.eqb c 35) X = false ->
  m PBODY (mkst pr X p cs0) k = Fail.
Proof.
  intros X pr p cs0 k H. unfold PBODY. rewrite m_Cat, m_Chr. cbn [suf].
  destruct X as [|c X]; [reflexivity|]. cbn [head_is] in H. rewrite chr_ok_points, mem_single, H.
  reflexivity.
Qed.

Lemma ctext_cons_len : forall (c : N) (t : str) cs,
  length (ctext (@pair N str c t :: cs)) = S (S (length t)) + length (ctext cs).
Proof.
  intros. rewrite ctext_cons, app_length. unfold cline_text. cbn [fst snd length].
  rewrite app_length. simpl. lia.
Qed.

Lemma ctext_cons_rev : forall (c : N) (t : str) cs (pr : list N),
  rev (ctext (@pair N str c t :: cs)) ++ pr = rev (ctext cs) ++ 10%N :: rev t ++ c :: pr.
Proof.
  intros. rewrite ctext_cons. unfold cline_text. cbn [fst snd].
  change (c :: t ++ [10%N]) with ((c :: t) ++ [10%N]).
  rewrite !rev_app_distr. simpl. rewrite <- !app_assoc. simpl. rewrite <- app_assoc. reflexivity.
Qed.

(* further lines, from a count >= 1 *)
Lemma pcomment_more : forall cs X fuel count pr p,
  1 <= count -> forallb legal_cline_p cs = true -> head_is (fun c => N.eqb c 35) X = false ->
  length cs < fuel ->
  rep_loop (m PBODY) true 1 None fuel count (mkst pr (ctext cs ++ X) p []) k0 =
  Done (mkst (rev (ctext cs) ++ pr) X (p + length (ctext cs)) []).
Proof.
  induction cs as [|[c t] cs IH]; intros X fuel count pr p Hc Hleg HX Hf.
  - destruct fuel as [|f]; [simpl in Hf; lia|]. rewrite rep_loop_S.
    replace (count <? 1) with false by (symmetry; apply Nat.ltb_ge; lia). cbv beta iota zeta.
    simpl app. rewrite pbody_fail by exact HX. rewrite orelse_fail, k0_done. simpl.
    rewrite Nat.add_0_r. reflexivity.
  - simpl in Hleg. apply andb_true_iff in Hleg. destruct Hleg as [Hl Hleg].
    unfold legal_cline_p in Hl. cbn [fst snd] in Hl. apply andb_true_iff in Hl. destruct Hl as [Hc0 Ht].
    apply N.eqb_eq in Hc0. subst c.
    destruct fuel as [|f]; [lia|]. rewrite rep_loop_S.
    replace (count <? 1) with false by (symmetry; apply Nat.ltb_ge; lia). cbv beta iota zeta.
    assert (Etxt : ctext (@pair N str 35%N t :: cs) ++ X = 35%N :: t ++ 10%N :: (ctext cs ++ X)).
    { rewrite ctext_cons. unfold cline_text. cbn [fst snd]. simpl. rewrite <- !app_assoc. reflexivity. }
    rewrite Etxt, pbody_line by exact Ht. cbn [pos].
    replace (Nat.eqb (S (S p + length t)) p) with false by (symmetry; apply Nat.eqb_neq; lia).
    rewrite IH; [| lia | exact Hleg | exact HX | simpl in Hf; lia].
    rewrite orelse_done. f_equal. f_equal.
    + symmetry. apply ctext_cons_rev.
    + rewrite ctext_cons_len. lia.
Qed.

Lemma pcomment_match : forall cs X pr p,
  cs <> [] -> forallb legal_cline_p cs = true -> head_is (fun c => N.eqb c 35) X = false ->
  m rx_po_comment (mkst pr (ctext cs ++ X) p []) k0 =
  Done (mkst (rev (ctext cs) ++ pr) X (p + length (ctext cs)) []).
Proof.
  intros [|[c t] cs] X pr p Hne Hleg HX; [contradiction|].
  rewrite po_comment_shape, m_Rep. cbn [Nat.add]. rewrite rep_loop_S.
  replace (0 <? 1) with true by reflexivity.
  simpl in Hleg. apply andb_true_iff in Hleg. destruct Hleg as [Hl Hleg].
  unfold legal_cline_p in Hl. cbn [fst snd] in Hl. apply andb_true_iff in Hl. destruct Hl as [Hc0 Ht].
  apply N.eqb_eq in Hc0. subst c.
  assert (Etxt : ctext (@pair N str 35%N t :: cs) ++ X = 35%N :: t ++ 10%N :: (ctext cs ++ X)).
  { rewrite ctext_cons. unfold cline_text. cbn [fst snd]. simpl. rewrite <- !app_assoc. reflexivity. }
  rewrite Etxt, pbody_line by exact Ht.
  rewrite pcomment_more; [| lia | exact Hleg | exact HX |].
  - f_equal. f_equal.
    + symmetry. apply ctext_cons_rev.
    + rewrite ctext_cons_len. lia.
  - cbn [suf length]. pose proof (ctext_length_ge cs).
    repeat rewrite app_length. cbn [length]. repeat rewrite app_length. lia.
Qed.

Lemma pcomment_fails : forall X pr p k, head_is (fun c => N.eqb c 35) X = false ->
  m rx_po_comment (mkst pr X p []) k = Fail.
Proof.
  intros X pr p k H. rewrite po_comment_shape, m_Rep. simpl Nat.add. rewrite rep_loop_S.
  replace (0 <? 1) with true by reflexivity. apply pbody_fail. exact H.
Qed.

Lemma omatch_pcomment : forall (a : str) cs X,
  cs <> [] -> forallb legal_cline_p cs = true -> head_is (fun c => N.eqb c 35) X = false ->
  omatch rx_po_comment (a ++ ctext cs ++ X) (length a) =
  Some (mkres (length a) (length a + length (ctext cs)) []).
Proof.
  intros a cs X H1 H2 H3. rewrite omatch_split, run_at_k0, pcomment_match by auto. reflexivity.
Qed.

Lemma omatch_pcomment_none : forall (a X : str), head_is (fun c => N.eqb c 35) X = false ->
  omatch rx_po_comment (a ++ X) (length a) = None.
Proof. intros a X H. rewrite omatch_split, run_at_k0, pcomment_fails by exact H. reflexivity. Qed.

(* ---- the key expression ------------------------------------------------------------------------- *)
Lemma po_key_shape : rx_po_key =
  lit_rx [109; 115; 103]%N
    (Alt (lit_rx [99; 116; 120]%N (Chr false [(116, 116)%N])) (lit_rx [105%N] (Chr false [(100, 100)%N]))).
Proof. reflexivity. Qed.

Lemma omatch_po_key_ctxt : forall (a X : str),
  exists x, omatch rx_po_key (a ++ s_msgctxt ++ X) (length a) = Some x /\ m_start x = length a.
Proof.
  intros a X. rewrite omatch_split, run_at_k0, po_key_shape, m_lit.
  change (starts_with [109; 115; 103]%N (s_msgctxt ++ X)) with true. cbv iota.
  rewrite m_Alt, m_lit. change (skipn (length [109; 115; 103]%N) (s_msgctxt ++ X)) with ([99; 116; 120; 116]%N ++ X).
  change (starts_with [99; 116; 120]%N ([99; 116; 120; 116]%N ++ X)) with true. cbv iota.
  rewrite m_Chr. cbn [suf skipn length app]. rewrite single_class.
  replace (N.eqb 116 116) with true by reflexivity. rewrite k0_done, orelse_done.
  eexists. split; reflexivity.
Qed.

Lemma omatch_po_key_id : forall (a X : str),
  exists x, omatch rx_po_key (a ++ s_msgid ++ X) (length a) = Some x /\ m_start x = length a.
Proof.
  intros a X. rewrite omatch_split, run_at_k0, po_key_shape, m_lit.
  change (starts_with [109; 115; 103]%N (s_msgid ++ X)) with true. cbv iota.
  rewrite m_Alt, m_lit. change (skipn (length [109; 115; 103]%N) (s_msgid ++ X)) with ([105; 100]%N ++ X).
  change (starts_with [99; 116; 120]%N ([105; 100]%N ++ X)) with false. cbv iota.
  rewrite orelse_fail, m_lit.
  change (starts_with [105%N] ([105; 100]%N ++ X)) with true. cbv iota.
  rewrite m_Chr. cbn [suf skipn length app]. rewrite single_class.
  replace (N.eqb 100 100) with true by reflexivity. rewrite k0_done.
  eexists. split; reflexivity.
Qed.

Lemma omatch_po_key_nil : forall (a : str), omatch rx_po_key (a ++ []) (length a) = None.
Proof. intros a. rewrite omatch_split, run_at_k0. reflexivity. Qed.

(* ---- one string-list item -------------------------------------------------------------------------- *)
Definition ESC : list N := [92; 116; 114; 110; 34]%N.
Definition QNB : list N := [34; 10; 92]%N.

Definition ITEMB : rx :=
  Alt (Cat (Chr false (points [92%N])) (Chr false (points ESC))) (Chr true (points QNB)).

Lemma listitem_shape : rx_po_listitem =
  Cat (Rep true 0 None (Chr false (points WS)))
      (Cat (Chr false (points [34%N]))
           (Cat (Grp 1 (Rep true 0 None ITEMB)) (Chr false (points [34%N])))).
Proof. reflexivity. Qed.

Lemma po_render_len : forall t, 1 <= length (po_render t).
Proof. destruct t; simpl; lia. Qed.

(* the body consumes exactly one token *)
Lemma itemb_token : forall t Y pr p cs0 k, po_tok_legal t = true ->
  m ITEMB (mkst pr (po_render t ++ Y) p cs0) k =
  k (mkst (rev (po_render t) ++ pr) Y (p + length (po_render t)) cs0).
Proof.
  intros [c|c] Y pr p cs0 k Hl; unfold ITEMB; rewrite m_Alt, m_Cat, m_Chr; cbn [po_render app suf].
  - (* a plain character: not quote, newline, backslash *)
    simpl in Hl. apply negb_true_iff in Hl. apply orb_false_iff in Hl. destruct Hl as [Hl H92].
    apply orb_false_iff in Hl. destruct Hl as [H34 H10].
    rewrite chr_ok_points, mem_single, H92. rewrite orelse_fail, m_Chr. cbn [suf].
    rewrite chr_ok_points. unfold mem, QNB. cbn [existsb]. rewrite H34, H10, H92. cbn [orb negb].
    unfold advance. cbn [pre suf pos caps rev app length]. replace (p + 1) with (S p) by lia. reflexivity.
  - (* an escape *)
    rewrite chr_ok_points, mem_single. replace (N.eqb 92 92) with true by reflexivity.
    unfold advance. cbn [pre suf pos caps]. rewrite m_Chr. cbn [suf]. rewrite chr_ok_points.
    assert (He : mem c ESC = true) by exact Hl. rewrite He. unfold advance. cbn [pre suf pos caps].
    cbn [rev app length]. replace (p + 2) with (S (S p)) by lia.
    (* when the continuation fails, the second alternative cannot take a backslash *)
    destruct (k (mkst (c :: 92%N :: pr) Y (S (S p)) cs0)) eqn:Ek; reflexivity.
Qed.

Lemma itemb_quote : forall Y pr p cs0 k, m ITEMB (mkst pr (34%N :: Y) p cs0) k = Fail.
Proof.
  intros. unfold ITEMB. rewrite m_Alt, m_Cat, m_Chr. cbn [suf]. rewrite chr_ok_points.
  replace (mem 34%N [92%N]) with false by reflexivity. rewrite orelse_fail, m_Chr. cbn [suf].
  rewrite chr_ok_points. reflexivity.
Qed.

Lemma item_body_loop : forall toks Y pr p cs0 fuel count k,
  forallb po_tok_legal toks = true -> length toks < fuel ->
  k (mkst (rev (render_item toks) ++ pr) (34%N :: Y) (p + length (render_item toks)) cs0) <> Fail ->
  rep_loop (m ITEMB) true 0 None fuel count (mkst pr (render_item toks ++ 34%N :: Y) p cs0) k =
  k (mkst (rev (render_item toks) ++ pr) (34%N :: Y) (p + length (render_item toks)) cs0).
Proof.
  induction toks as [|t toks IH]; intros Y pr p cs0 fuel count k Hleg Hf Hk;
    (destruct fuel as [|f]; [simpl in Hf; lia|]); rewrite rep_loop_S;
    replace (count <? 0) with false by (symmetry; apply Nat.ltb_ge; lia); cbv beta iota zeta.
  - simpl app. rewrite itemb_quote, orelse_fail. simpl. rewrite Nat.add_0_r. reflexivity.
  - simpl in Hleg. apply andb_true_iff in Hleg. destruct Hleg as [Ht Hleg].
    unfold render_item in *. cbn [map concat] in *. rewrite <- app_assoc.
    rewrite itemb_token by exact Ht. cbn [pos].
    pose proof (po_render_len t) as Hlen.
    replace (Nat.eqb (p + length (po_render t)) p) with false by (symmetry; apply Nat.eqb_neq; lia).
    assert (Efin : mkst (rev (concat (map po_render toks)) ++ rev (po_render t) ++ pr) (34%N :: Y)
                     (p + length (po_render t) + length (concat (map po_render toks))) cs0 =
                   mkst (rev (po_render t ++ concat (map po_render toks)) ++ pr) (34%N :: Y)
                     (p + length (po_render t ++ concat (map po_render toks))) cs0).
    { rewrite rev_app_distr, <- app_assoc, app_length. f_equal. lia. }
    rewrite IH; [| exact Hleg | simpl in Hf; lia | rewrite Efin; exact Hk].
    rewrite Efin. destruct (k _) eqn:Ek; try reflexivity. contradiction.
Qed.

(* the whole item: leading whitespace, quote, tokens, quote *)
Definition item_text (lead : str) (toks : po_item) : str := lead ++ 34%N :: render_item toks ++ [34%N].

Lemma item_match : forall lead toks X pr p,
  forallb (fun c => mem c WS) lead = true -> forallb po_tok_legal toks = true ->
  exists s', m rx_po_listitem (mkst pr (item_text lead toks ++ X) p []) k0 = Done s' /\
    pos s' = p + length (item_text lead toks) /\
    caps s' = [(1, (p + length lead + 1, p + length lead + 1 + length (render_item toks)))].
Proof.
  intros lead toks X pr p Hlead Htoks. rewrite listitem_shape, m_Cat.
  set (R := render_item toks).
  assert (Etxt : item_text lead toks ++ X = lead ++ 34%N :: R ++ 34%N :: X).
  { unfold item_text. fold R. rewrite <- !app_assoc. simpl. rewrite <- app_assoc. reflexivity. }
  rewrite Etxt.
  assert (Rl : run false (points WS) None (lead ++ 34%N :: R ++ 34%N :: X) = length lead).
  { apply run_exact_gen; [apply ws_class; exact Hlead|]. cbn [head_is]. rewrite chr_ok_points. reflexivity. }
  set (kq := fun s' : st => m (Cat (Chr false (points [34%N]))
                 (Cat (Grp 1 (Rep true 0 None ITEMB)) (Chr false (points [34%N])))) s' k0).
  assert (Hq : kq (fwd (length lead) (mkst pr (lead ++ 34%N :: R ++ 34%N :: X) p [])) =
               Done (mkst (34%N :: rev R ++ 34%N :: rev lead ++ pr) X (S (S (p + length lead) + length R))
                          [(1, (S (p + length lead), S (p + length lead) + length R))])).
  { unfold kq. rewrite fwd_app, m_Cat, m_Chr. cbn [suf]. rewrite chr_ok_points, mem_single.
    replace (N.eqb 34 34) with true by reflexivity. unfold advance. cbn [pre suf pos caps].
    rewrite m_Cat, m_Grp, m_Rep. cbn [pos suf].
    set (kc := fun s' : st => (fun s'0 : st => m (Chr false (points [34%N])) s'0 k0)
                                (set_cap 1 (S (p + length lead), pos s') s')).
    assert (Hkc : kc (mkst (rev R ++ 34%N :: rev lead ++ pr) (34%N :: X) (S (p + length lead) + length R) []) =
                  Done (mkst (34%N :: rev R ++ 34%N :: rev lead ++ pr) X (S (S (p + length lead) + length R))
                          [(1, (S (p + length lead), S (p + length lead) + length R))])).
    { unfold kc, set_cap. cbn [pre suf pos caps]. rewrite m_Chr. cbn [suf].
      rewrite chr_ok_points, mem_single. replace (N.eqb 34 34) with true by reflexivity.
      unfold advance. cbn [pre suf pos caps]. rewrite k0_done. reflexivity. }
    fold kc. unfold R. rewrite item_body_loop; fold R.
    - exact Hkc.
    - exact Htoks.
    - rewrite app_length. simpl. unfold R, render_item.
      assert (length toks <= length (concat (map po_render toks))).
      { clear. induction toks as [|t toks IH]; [simpl; lia|]. simpl. rewrite app_length.
        pose proof (po_render_len t). lia. }
      lia.
    - rewrite Hkc. discriminate. }
  fold kq. rewrite (m_rep_class_max false (points WS) 0 None); [|exact I|].
  - cbn [suf]. rewrite Rl. replace (0 <=? length lead) with true by reflexivity.
    rewrite Hq. eexists. split; [reflexivity|]. cbn [pos caps]. unfold item_text. fold R.
    rewrite !app_length. simpl. rewrite app_length. simpl. split; [lia|].
    replace (S (p + length lead + length R)) with (p + length lead + 1 + length R) by lia.
    replace (S (p + length lead)) with (p + length lead + 1) by lia. reflexivity.
  - cbn [suf]. rewrite Rl, Hq. discriminate.
Qed.

(* no item here: after whitespace there is no quote *)
Definition item_stops (T : str) : Prop :=
  exists w Y, T = w ++ Y /\ forallb (fun c => mem c WS) w = true /\
              head_is (fun c => mem c (34%N :: WS)) Y = false.

Lemma item_fails : forall T pr p k, item_stops T ->
  m rx_po_listitem (mkst pr T p []) k = Fail.
Proof.
  intros T pr p k [w [Y [-> [Hw HY]]]]. rewrite listitem_shape, m_Cat.
  assert (Hy : head_is (chr_ok false (points WS)) Y = false).
  { destruct Y as [|c Y]; [reflexivity|]. cbn [head_is] in *. rewrite chr_ok_points.
    unfold mem in *. cbn [existsb] in HY. apply orb_false_iff in HY. apply HY. }
  assert (Rl : run false (points WS) None (w ++ Y) = length w)
    by (apply run_exact_gen; [apply ws_class; exact Hw|exact Hy]).
  rewrite (m_rep_class_desc false (points WS) 0 None); [|exact I|].
  - cbn [suf]. rewrite Rl. replace (0 <=? length w) with true by reflexivity.
    rewrite fwd_app, m_Cat, m_Chr. cbn [suf]. destruct Y as [|c Y]; [reflexivity|].
    cbn [head_is] in HY. rewrite chr_ok_points, mem_single. unfold mem in HY. cbn [existsb] in HY.
    apply orb_false_iff in HY. destruct HY as [H34 _]. rewrite H34. reflexivity.
  - cbn [suf]. rewrite Rl. intros j Hj _. rewrite fwd_mkst_caps by (rewrite app_length; lia).
    rewrite m_Cat, m_Chr. cbn [suf].
    destruct (skipn j (w ++ Y)) as [|c t] eqn:Es; [reflexivity|].
    assert (Hin : In c w) by (eapply skipn_head_in; [exact Hj|exact Es]).
    rewrite forallb_forall in Hw. specialize (Hw c Hin). rewrite chr_ok_points, mem_single.
    apply mem_in in Hw. simpl in Hw. destruct Hw as [<-|[<-|[<-|[<-|[]]]]]; reflexivity.
Qed.

(* ---- the loop over the items ------------------------------------------------------------------------- *)
Definition pitem := (str * po_item)%type.          (* leading whitespace, tokens *)
Definition legal_pitem (it : pitem) : bool :=
  forallb (fun c => mem c WS) (fst it) && forallb po_tok_legal (snd it).
Definition items_text (its : list pitem) : str :=
  concat (map (fun it => item_text (fst it) (snd it)) its).

Fixpoint frag_spans (off : nat) (its : list pitem) : list span :=
  match its with
  | [] => []
  | (lead, toks) :: rest =>
      (off + length lead + 1, off + length lead + 1 + length (render_item toks))
      :: frag_spans (off + length (item_text lead toks)) rest
  end.

Lemma items_text_cons : forall lead toks its,
  items_text ((lead, toks) :: its) = item_text lead toks ++ items_text its.
Proof. reflexivity. Qed.

Lemma list_items_ok : forall its (a T : str) fuel,
  forallb legal_pitem its = true -> item_stops T -> length its < fuel ->
  list_items rx_po_listitem fuel (a ++ items_text its ++ T) (length a) =
  (frag_spans (length a) its, length a + length (items_text its)).
Proof.
  induction its as [|[lead toks] its IH]; intros a T fuel Hleg HT Hf;
    (destruct fuel as [|f]; [simpl in Hf; lia|]); cbn [list_items].
  - simpl app. rewrite omatch_split, run_at_k0, item_fails by exact HT. simpl.
    rewrite Nat.add_0_r. reflexivity.
  - cbn [forallb] in Hleg. apply andb_true_iff in Hleg. destruct Hleg as [Hl Hleg].
    unfold legal_pitem in Hl. cbn [fst snd] in Hl. apply andb_true_iff in Hl. destruct Hl as [Hl1 Hl2].
    rewrite items_text_cons, <- app_assoc.
    destruct (item_match lead toks (items_text its ++ T) (rev a) (length a) Hl1 Hl2) as [s' [E1 [E2 E3]]].
    rewrite omatch_split, run_at_k0, E1. cbn [m_end]. rewrite E2.
    assert (Hs : a ++ item_text lead toks ++ items_text its ++ T =
                 (a ++ item_text lead toks) ++ items_text its ++ T) by (rewrite <- app_assoc; reflexivity).
    rewrite Hs, <- app_length, IH by (auto; simpl in Hf; lia).
    unfold group. cbn [m_caps]. rewrite E3. cbn [get_cap].
    replace (Nat.eqb 1 1) with true by reflexivity. cbn [frag_spans].
    rewrite !app_length. f_equal. lia.
Qed.

Lemma items_len : forall its, length its <= length (items_text its).
Proof.
  induction its as [|[lead toks] its IH]; [simpl; lia|]. rewrite items_text_cons, app_length.
  unfold item_text. rewrite app_length. simpl. lia.
Qed.

(* ---- _parse_string_list ------------------------------------------------------------------------------- *)
Lemma startswith_at_app : forall (a key X : str), startswith_at key (a ++ key ++ X) (length a) = true.
Proof.
  intros a key X. unfold startswith_at. rewrite skipn_app_length.
  replace (length a <=? length (a ++ key ++ X)) with true
    by (symmetry; apply Nat.leb_le; rewrite app_length; lia).
  apply starts_with_app.
Qed.

Lemma parse_string_list_ok : forall (a key T : str) its,
  its <> [] -> forallb legal_pitem its = true -> item_stops T ->
  parse_string_list rx_po_listitem (a ++ key ++ items_text its ++ T) (length a) key =
  Some (frag_spans (length a + length key) its, length a + length key + length (items_text its)).
Proof.
  intros a key T its Hne Hleg HT. unfold parse_string_list. rewrite startswith_at_app.
  assert (Hs : a ++ key ++ items_text its ++ T = (a ++ key) ++ items_text its ++ T)
    by (rewrite <- app_assoc; reflexivity).
  rewrite Hs, <- app_length, list_items_ok; auto.
  - destruct its as [|[lead toks] its']; [contradiction|]. reflexivity.
  - pose proof (items_len its). rewrite !app_length. lia.
Qed.
