(* C19 end to end, the part shared by the formats: a file as a list of ITEMS (an entity with
   the texts around its key and value, a garbage region, anything else), the entity objects
   of an item list, the findings expected from the items alone, and the theorem that the
   linter of Model/Lint.v on those objects yields exactly these findings.  A format supplies:
   its walk parses the text of the items of its blocks to those objects ([parsed]). *)
From Coq Require Import ZArith NArith List Bool Arith Lia.
From CL Require Import Base.Sx Base.Res Base.Str Model.Entry Model.Parse
  Model.CheckProps Model.LineCol Model.AddRemove Model.Lint Model.LintText
  Proofs.AddRemoveProofs Proofs.LineColProofs Proofs.LintProofs Proofs.CheckDTDProofs.
Import ListNotations.
Open Scope nat_scope.

Local Arguments Nat.ltb : simpl never.
Local Arguments Nat.leb : simpl never.
Local Arguments str_of_nat : simpl never.

(* ---- items ------------------------------------------------------------------------------- *)
Inductive item :=
| IEnt (lead head key mid raw close tail : str)
    (* text  lead head key mid raw close tail : [lead] is what precedes the entity (its attached
       comment), the entity's span is  head key mid raw close , the key span [key], the value
       span [raw]; [tail] follows (the newline) *)
| IJunk (g : str)                                  (* a garbage region *)
| IOther (t : str).                                (* comments, white-space, section headers *)

Definition item_text (it : item) : str :=
  match it with
  | IEnt l h k m r c t => l ++ h ++ k ++ m ++ r ++ c ++ t
  | IJunk g => g
  | IOther t => t
  end.
Definition items_text (its : list item) : str := concat (map item_text its).

Lemma items_text_cons : forall it its, items_text (it :: its) = item_text it ++ items_text its.
Proof. reflexivity. Qed.

(* number of entity items with the key *)
Fixpoint key_occurrences (k : str) (its : list item) : nat :=
  match its with
  | [] => 0
  | IEnt _ _ key _ _ _ _ :: rest => (if str_eqb k key then 1 else 0) + key_occurrences k rest
  | _ :: rest => key_occurrences k rest
  end.

(* raw value of the LAST entity item with the key *)
Fixpoint ref_value (k : str) (its : list item) : option str :=
  match its with
  | [] => None
  | it :: rest =>
      match ref_value k rest with
      | Some v => Some v
      | None => match it with
                | IEnt _ _ key _ raw _ _ => if str_eqb k key then Some raw else None
                | _ => None
                end
      end
  end.

Fixpoint junk_items (its : list item) : nat :=
  match its with
  | [] => 0
  | IJunk _ :: rest => S (junk_items rest)
  | _ :: rest => junk_items rest
  end.

(* premise on the keys of a file: none is spelt like the key of a Junk object *)
Definition item_key_ok (it : item) : Prop :=
  match it with
  | IEnt _ _ key _ _ _ _ => starts_with s_junk_ key = false
  | _ => True
  end.

(* (line, column), 1-based, of the character that follows the prefix [pre]: newlines in
   [pre] plus one, characters since its last newline plus one (C17) *)
Definition lc (pre : str) : pos :=
  (Z.of_nat (1 + count_nl pre), Z.of_nat (1 + LineCol.cur 0 pre)).

Lemma starts_with_app : forall p x, starts_with p (p ++ x) = true.
Proof. induction p as [|c p IH]; intros x; cbn; [reflexivity|]. rewrite N.eqb_refl, IH. reflexivity. Qed.

Lemma junk_key_neq : forall k n sp, starts_with s_junk_ k = false -> str_eqb k (junk_key n sp) = false.
Proof.
  intros k n sp H. destruct (str_eqb k (junk_key n sp)) eqn:E; [|reflexivity].
  apply str_eqb_eq in E. subst k. unfold junk_key in H. rewrite starts_with_app in H. discriminate.
Qed.

(* ---- positions --------------------------------------------------------------------------- *)
Lemma firstn_pre : forall (pre rest : str), firstn (length pre) (pre ++ rest) = pre.
Proof. intros. rewrite firstn_app, firstn_all, Nat.sub_diag. cbn. apply app_nil_r. Qed.

Lemma pos_at : forall (s pre rest : str), s = pre ++ rest ->
  ctx_linecol s (Z.of_nat (length pre)) = Ok (lc pre).
Proof.
  intros s pre rest ->. rewrite ctx_linecol_spec.
  - rewrite Nat2Z.id, firstn_pre. reflexivity.
  - rewrite app_length. lia.
Qed.

Lemma entity_pos0 : forall (s pre rest : str) e, s = pre ++ rest ->
  entry_position s (zspan (length pre, e)) 0%Z = Ok (lc pre).
Proof.
  intros s pre rest e H. unfold entry_position, zspan. cbn [fst snd].
  change (0 <? 0)%Z with false. cbv iota. rewrite Z.add_0_r. exact (pos_at s pre rest H).
Qed.

Lemma junk_pos_end : forall (s pre g rest : str) a, s = (pre ++ g) ++ rest ->
  entry_position s (zspan (a, length pre + length g)) (-1)%Z = Ok (lc (pre ++ g)).
Proof.
  intros s pre g rest a H. unfold entry_position, zspan. cbn [fst snd].
  change (-1 <? 0)%Z with true. cbv iota. rewrite <- app_length. exact (pos_at s (pre ++ g) rest H).
Qed.

Lemma mk_ent_eq : forall (vp : str -> option Lint.span -> vpos -> result pos) s (k : str) raw a a' e e' v v' w w',
  a = a' -> e = e' -> v = v' -> w = w' ->
  mkEntity a k false raw (entry_position s (zspan (a, e))) (vp s (Some (zspan (v, w)))) =
  mkEntity a' k false raw (entry_position s (zspan (a', e'))) (vp s (Some (zspan (v', w')))).
Proof. intros; subst; reflexivity. Qed.

Lemma mk_junk_eq : forall s k raw a a' e e',
  a = a' -> e = e' ->
  mkEntity a (junk_key k (a, e)) true raw (entry_position s (zspan (a, e))) (fun _ => Raise NotSupported) =
  mkEntity a' (junk_key k (a', e')) true raw (entry_position s (zspan (a', e'))) (fun _ => Raise NotSupported).
Proof. intros; subst; reflexivity. Qed.

Section Format.
Variable vp : str -> option Lint.span -> vpos -> result pos.
Variable val : str -> result str.
Hypothesis val_total : forall raw, exists v, val raw = Ok v.

(* ---- the entity objects of an item list ---------------------------------------------------- *)
(* [pre]: the text before the items; offsets are lengths of prefixes *)
Fixpoint gen_entities (s : str) (j : nat) (pre : str) (its : list item) : list (@entity str) :=
  match its with
  | [] => []
  | IJunk g :: rest =>
      let a := length pre in
      let e := a + length g in
      mkEntity a (junk_key (S j) (a, e)) true g
               (entry_position s (zspan (a, e))) (fun _ => Raise NotSupported)
      :: gen_entities s (S j) (pre ++ g) rest
  | IEnt l h k m r c t :: rest =>
      let a := length (pre ++ l) in
      let v := a + length h + length k + length m in
      let e := v + length r + length c in
      mkEntity a k false r
               (entry_position s (zspan (a, e))) (vp s (Some (zspan (v, v + length r))))
      :: gen_entities s j (pre ++ item_text (IEnt l h k m r c t)) rest
  | IOther t :: rest => gen_entities s j (pre ++ t) rest
  end.

Lemma kcount_gen : forall k, starts_with s_junk_ k = false -> forall its s j pre,
  kcount str_eqb k (gen_entities s j pre its) = key_occurrences k its.
Proof.
  intros k Hk. induction its as [|it rest IH]; intros s j pre; [reflexivity|].
  destruct it as [l h key m r c t|g|t]; cbn [gen_entities key_occurrences].
  - unfold kcount in *. cbn [filter Lint.e_key]. destruct (str_eqb k key); cbn [length]; rewrite IH; reflexivity.
  - unfold kcount in *. cbn [filter Lint.e_key]. rewrite junk_key_neq by exact Hk. apply IH.
  - apply IH.
Qed.

Lemma last_with_gen : forall k, starts_with s_junk_ k = false -> forall its s j pre,
  match last_with str_eqb Lint.e_key k (gen_entities s j pre its) with
  | Some r => Lint.e_key r = k /\ e_junk r = false /\ ref_value k its = Some (e_raw r)
  | None => ref_value k its = None
  end.
Proof.
  intros k Hk. induction its as [|it rest IH]; intros s j pre; [reflexivity|].
  destruct it as [l h key m r c t|g|t]; cbn [gen_entities ref_value].
  - cbn [last_with]. specialize (IH s j (pre ++ item_text (IEnt l h key m r c t))).
    destruct (last_with _ _ _ _) as [x|]; [destruct IH as (A1 & A2 & A3); rewrite A3; auto|].
    rewrite IH. cbn [Lint.e_key]. destruct (str_eqb k key) eqn:E; [|reflexivity].
    apply str_eqb_eq in E. cbn [Lint.e_key e_junk e_raw]. auto.
  - cbn [last_with]. specialize (IH s (S j) (pre ++ g)).
    destruct (last_with _ _ _ _) as [x|]; [destruct IH as (A1 & A2 & A3); rewrite A3; auto|].
    rewrite IH. cbn [Lint.e_key]. rewrite junk_key_neq by exact Hk. reflexivity.
  - specialize (IH s j (pre ++ t)).
    destruct (last_with _ _ _ _) as [x|]; [destruct IH as (A1 & A2 & A3); rewrite A3; auto|].
    rewrite IH. reflexivity.
Qed.

Lemma junk_gen : forall its s j pre,
  length (filter e_junk (gen_entities s j pre its)) = junk_items its.
Proof.
  induction its as [|it rest IH]; intros s j pre; [reflexivity|].
  destruct it as [l h key m r c t|g|t]; cbn [gen_entities junk_items filter e_junk length]; rewrite IH;
    reflexivity.
Qed.

Lemma count_junk_entities : forall s es j,
  count_junk es = length (filter e_junk (fmt_entities vp s j (filter is_localizable es))).
Proof.
  intros s. induction es as [|e es IH]; intros j; [reflexivity|].
  unfold count_junk in *. cbn [filter]. unfold is_localizable at 1.
  destruct (Entry.e_kind e) eqn:E; cbn [fmt_entities]; rewrite ?E; cbn [filter e_junk length];
    first [rewrite (IH (S j)); reflexivity | rewrite (IH j); reflexivity].
Qed.

(* the unescaped value *)
Definition uval (raw : str) : str := match val raw with Ok v => v | Raise _ => raw end.

(* ---- the expected findings, from the items alone --------------------------------------------- *)
Section E2E.
Context {Msg : Type}.
Variable chk : option (@checker str Msg).
Variable all : list item.                (* the linted file *)
Variable rref : option (list item).      (* the reference file, if any *)
Variables j0 j1 : nat.                   (* Junk.junkid before the reference / the file is parsed *)

Notation finding := (@finding str Msg).

(* the key is in the reference and its last value there is a different value *)
Definition changed_by_ref (key raw : str) : bool :=
  match rref with
  | Some rits => match ref_value key rits with
                 | Some v => negb (str_eqb (uval raw) (uval v))
                 | None => false
                 end
  | None => false
  end.

Fixpoint expected (pre : str) (its : list item) : list finding :=
  match its with
  | [] => []
  | IJunk g :: rest =>
      mkf (lc pre) LError (MJunk (length pre) (lc pre) (lc (pre ++ g)))
      :: expected (pre ++ g) rest
  | IEnt l h key m r c t :: rest =>
      let p := lc (pre ++ l) in
      (if 1 <? key_occurrences key all then [mkf p LError (MDuplicate key)] else []) ++
      (if changed_by_ref key r then [mkf p LWarning (MChanged key)] else []) ++
      expected (pre ++ item_text (IEnt l h key m r c t)) rest
  | IOther t :: rest => expected (pre ++ t) rest
  end.

Definition no_check (f : finding) : bool := negb (is_check f).

Let s := items_text all.
Let rtext := match rref with Some rits => items_text rits | None => [] end.
Let reference := match rref with
                 | Some rits => Some (gen_entities rtext j0 [] rits)
                 | None => None
                 end.
Let cur_ents := gen_entities s j1 [] all.
Let li := new_linter str_eqb cur_ents chk reference.

Lemma verdict : forall k sp vpf key raw, starts_with s_junk_ key = false ->
  ref_verdict str_eqb (fmt_equals val) reference
    (mkEntity k key false raw sp vpf) = Ok (changed_by_ref key raw).
Proof.
  intros k sp vpf key raw Hk. destruct (val_total raw) as [u Hu].
  unfold ref_verdict, changed_by_ref, reference, ref_entity.
  cbn [Lint.e_key]. destruct rref as [rits|]; [|reflexivity].
  pose proof (last_with_gen key Hk rits rtext j0 []) as H.
  destruct (last_with str_eqb Lint.e_key key (gen_entities rtext j0 [] rits)) as [r|].
  - destruct H as (A1 & A2 & A3). rewrite A3.
    destruct (val_total (e_raw r)) as [y Hy].
    unfold fmt_equals, ent_val. cbn [Lint.e_key e_junk e_raw]. rewrite A1, A2.
    rewrite (proj2 (str_eqb_eq key key) eq_refl), Hu, Hy. cbn.
    unfold uval. rewrite Hu, Hy. reflexivity.
  - rewrite H. reflexivity.
Qed.

Lemma nocheck_resolved : forall (e : @entity str) rs cks,
  mapM (resolve (Msg := Msg) e) rs = Ok cks -> filter no_check cks = [].
Proof.
  intros e rs cks H. apply mapM_Forall2 in H.
  induction H as [|r f rs cks Hr _ IH]; [reflexivity|].
  apply resolve_resolved in Hr. destruct Hr as (p & _ & ->). cbn. exact IH.
Qed.

Ltac norm_app := repeat (progress (rewrite <- ?app_assoc; cbn [app])).

Lemma lint_items : forall its pre j,
  s = pre ++ items_text its -> Forall item_key_ok its ->
  (forall fs, lint_entities str_eqb (fmt_equals val) li (gen_entities s j pre its) = Ok fs ->
              filter no_check fs = expected pre its) /\
  ((forall e, check_results chk e = []) ->
   lint_entities str_eqb (fmt_equals val) li (gen_entities s j pre its) = Ok (expected pre its)).
Proof.
  induction its as [|it rest IH]; intros pre j Hs Hok.
  - split; [intros fs H; inversion H; reflexivity|reflexivity].
  - inversion Hok as [|? ? Hb Hrest]; subst.
    rewrite items_text_cons in Hs.
    destruct it as [l h key m r c t|g|t]; cbn [gen_entities expected].
    + pose proof Hb as Hk. cbn [item_key_ok] in Hk.
      set (it := IEnt l h key m r c t) in *.
      set (e := mkEntity _ _ _ _ _ _).
      destruct (IH (pre ++ item_text it) j) as [IHa IHb]; [rewrite <- app_assoc; exact Hs|exact Hrest|].
      assert (Hp : e_position e 0%Z = Ok (lc (pre ++ l))).
      { unfold e. cbn [e_position].
        apply (entity_pos0 s (pre ++ l) (h ++ key ++ m ++ r ++ c ++ t ++ items_text rest)).
        rewrite Hs. unfold it. cbn [item_text]. norm_app. reflexivity. }
      assert (Hv : ref_verdict str_eqb (fmt_equals val) reference e = Ok (changed_by_ref key r))
        by (unfold e; apply verdict; exact Hk).
      assert (Hc : kcount str_eqb (Lint.e_key e) cur_ents = key_occurrences key all)
        by (unfold e, cur_ents; cbn [Lint.e_key]; apply kcount_gen; exact Hk).
      pose proof (lint_entity_exact str_eqb str_eqb_eq (fmt_equals val) cur_ents chk reference e _ _
                    eq_refl Hp Hv) as Hex.
      fold li in Hex. rewrite Hc in Hex. unfold dup_finding, changed_finding in Hex. cbn [Lint.e_key e] in Hex.
      rewrite (lint_entities_cons str_eqb (fmt_equals val) cur_ents chk reference). fold li. rewrite Hex.
      split.
      * intros fs H.
        destruct (mapM (resolve e) (check_results chk e)) as [cks|tg] eqn:Em; [|discriminate].
        destruct (lint_entities str_eqb (fmt_equals val) li (gen_entities s j (pre ++ item_text it) rest))
          as [fs'|tg] eqn:El; [|discriminate].
        inversion H; subst fs. rewrite !filter_app, (IHa fs' eq_refl), (nocheck_resolved e _ _ Em).
        destruct (1 <? key_occurrences key all); destruct (changed_by_ref key r); reflexivity.
      * intros Hsil. rewrite (Hsil e). cbn [mapM]. rewrite (IHb Hsil). rewrite app_nil_r, app_assoc.
        reflexivity.
    + set (e := mkEntity _ _ _ _ _ _).
      destruct (IH (pre ++ g) (S j)) as [IHa IHb]; [rewrite <- app_assoc; exact Hs|exact Hrest|].
      assert (Hp : e_position e 0%Z = Ok (lc pre)).
      { unfold e. cbn [e_position]. apply (entity_pos0 s pre (item_text (IJunk g) ++ items_text rest)). exact Hs. }
      assert (Hq : e_position e (-1)%Z = Ok (lc (pre ++ g))).
      { unfold e. cbn [e_position]. apply (junk_pos_end s pre g (items_text rest)).
        rewrite Hs. cbn [item_text]. norm_app. reflexivity. }
      pose proof (lint_entity_junk_exact str_eqb (fmt_equals val) cur_ents chk reference e _ _
                    eq_refl Hp Hq) as Hex.
      fold li in Hex. unfold junk_finding in Hex. cbn [Lint.e_id e] in Hex.
      rewrite (lint_entities_cons str_eqb (fmt_equals val) cur_ents chk reference). fold li. rewrite Hex.
      split.
      * intros fs H.
        destruct (lint_entities str_eqb (fmt_equals val) li (gen_entities s (S j) (pre ++ g) rest))
          as [fs'|tg] eqn:El; [|discriminate].
        inversion H; subst fs. cbn [app filter no_check is_check f_message mkf negb].
        rewrite (IHa fs' eq_refl). reflexivity.
      * intros Hsil. rewrite (IHb Hsil). reflexivity.
    + apply IH; [rewrite <- app_assoc; exact Hs|exact Hrest].
Qed.

End E2E.

(* ---- from the texts ---------------------------------------------------------------------------- *)
Variable walkf : str -> result (list entry).

(* what a format shows of the item list of a legal block list: its walk parses the text to
   entries whose objects are [gen_entities] *)
Definition parsed (its : list item) : Prop :=
  exists es, walkf (items_text its) = Ok es /\
             forall j, fmt_entities vp (items_text its) j (filter is_localizable es) =
                       gen_entities (items_text its) j [] its.

Section Top.
Context {Msg : Type}.
Variable chk : option (@checker str Msg).
Variable all : list item.
Variable rref : option (list item).
Variable j0 : nat.
Hypothesis Hall : parsed all.
Hypothesis Hkeys : Forall item_key_ok all.
Hypothesis Href : match rref with Some rits => parsed rits | None => True end.

Lemma lint_text_unfold :
  lint_text vp val walkf j0 chk (items_text all) (option_map items_text rref) =
  lint_entities str_eqb (fmt_equals val)
    (new_linter str_eqb
       (gen_entities (items_text all)
          (j0 + match rref with Some rits => junk_items rits | None => 0 end) [] all) chk
       match rref with
       | Some rits => Some (gen_entities (match rref with Some r => items_text r | None => [] end)
                                         j0 [] rits)
       | None => None
       end)
    (gen_entities (items_text all)
       (j0 + match rref with Some rits => junk_items rits | None => 0 end) [] all).
Proof.
  unfold lint_text. destruct Hall as (es & Hw & He).
  destruct rref as [rits|]; cbn [option_map].
  - destruct Href as (res & Hrw & Hre). rewrite Hrw. cbn [bind fst snd].
    rewrite Hw. cbn [bind fst snd].
    rewrite (count_junk_entities (items_text rits) res j0), Hre, junk_gen, He. reflexivity.
  - cbn [bind fst snd]. rewrite Hw. cbn [bind fst snd]. rewrite He, Nat.add_0_r. reflexivity.
Qed.

(* silent checker: the result is exactly the expected list *)
Theorem lint_text_items_silent :
  (forall e, check_results chk e = []) ->
  lint_text vp val walkf j0 chk (items_text all) (option_map items_text rref) =
  Ok (expected all rref [] all).
Proof.
  intros Hsil. rewrite lint_text_unfold.
  exact (proj2 (lint_items chk all rref j0 _ all [] _ eq_refl Hkeys) Hsil).
Qed.

(* any checker: whatever the checks add, the other findings are exactly the expected list *)
Theorem lint_text_items : forall fs,
  lint_text vp val walkf j0 chk (items_text all) (option_map items_text rref) = Ok fs ->
  filter no_check fs = expected all rref [] all.
Proof.
  intros fs H. rewrite lint_text_unfold in H.
  exact (proj1 (lint_items chk all rref j0 _ all [] _ eq_refl Hkeys) fs H).
Qed.

End Top.
End Format.
