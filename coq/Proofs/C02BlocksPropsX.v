(* C02, properties: the block theorem with the remaining layouts.  The blocks of
   Proofs/C02Blocks.v and the garbage regions of Proofs/C02BlocksJunk.v, and in addition
     - blanks, tabs and carriage returns between a value and its newline (so also CRLF line
       ends): they are not part of the value; with the newline and the whitespace blocks that
       follow they form ONE whitespace entry,
     - indentation (blanks, tabs, carriage returns; no newline) between an attached comment and
       its key: it belongs, with the newline that ends the comment, to the inner whitespace of
       the entity,
     - a standalone comment without its final newline at the end of the file,
     - a garbage region at the end of the file whose last line has no newline.
   The statement is the same: the walk yields exactly the entries computed from the blocks. *)
From Coq Require Import NArith List Bool Arith Lia.
From CL Require Import Base.Sx Base.Res Base.Str Regex.Rx Regex.RxLemmas Model.Entry Model.Parse
  Model.ParseFormats Generated.RxParser Proofs.UnescapeProofs
  Proofs.ClassLoop Proofs.ClassLoop2 Proofs.C02Props Proofs.WalkProofs Proofs.C02Roundtrip
  Proofs.C02BlocksRx Proofs.C02BlocksIniRx Proofs.C02BlocksVal Proofs.C02Blocks Proofs.C02BlocksJunkRx
  Proofs.C02BlocksJunk.
From CL Require Proofs.C02BlocksDtdJunk.
Import ListNotations.

Local Arguments Nat.ltb : simpl never.
Local Arguments Nat.leb : simpl never.
Local Arguments Nat.eqb : simpl never.
Local Arguments N.eqb : simpl never.
Local Arguments N.leb : simpl never.
Local Arguments chr_ok : simpl never.
Local Arguments vraw : simpl never.
Local Arguments run : simpl never.
Local Arguments fwd : simpl never.

Ltac norm_app := repeat (progress (rewrite <- ?app_assoc; cbn [app])).

(* ---- trailing blanks ------------------------------------------------------------------------------------ *)
(* blanks, tabs, carriage returns *)
Definition TB : list N := [32; 9; 13]%N.
Definition is_tb (t : str) : bool := forallb (fun c => mem c TB) t.

Lemma tb_ws : forall t, is_tb t = true -> forallb (fun c => mem c WS) t = true.
Proof.
  intros t H. unfold is_tb in H. rewrite forallb_forall in *. intros c Hc. specialize (H c Hc).
  apply mem_in in H. simpl in H. destruct H as [<-|[<-|[<-|[]]]]; reflexivity.
Qed.

Lemma tb_no_nl : forall t, is_tb t = true -> no_nl t = true.
Proof.
  intros t H. unfold is_tb in H. unfold no_nl. rewrite forallb_forall in *. intros c Hc. specialize (H c Hc).
  apply mem_in in H. simpl in H. destruct H as [<-|[<-|[<-|[]]]]; reflexivity.
Qed.

Lemma tb_last_not_bs : forall t, t <> [] -> is_tb t = true -> last t 0%N <> 92%N.
Proof.
  intros t Hne H. destruct (exists_last Hne) as [t' [c ->]]. rewrite last_last.
  unfold is_tb in H. rewrite forallb_app in H. apply andb_true_iff in H. destruct H as [_ H].
  cbn [forallb] in H. apply andb_true_iff in H. destruct H as [H _]. apply mem_in in H. simpl in H.
  destruct H as [<-|[<-|[<-|[]]]]; discriminate.
Qed.

(* the trailing-whitespace expression matches at the start of the blanks that end a line *)
Lemma tw_attempt_blanks : forall tb T pr p, is_tb tb = true -> tail_ok T ->
  exists x, run_at rx_props_trailing_ws (mkst pr (tb ++ T) p []) (fun _ => true) = MSome x /\
            m_start x = p.
Proof.
  intros tb T pr p Htb HT. rewrite run_at_k0, tw_shape, m_Cat. fold KT. rewrite m_Rep.
  set (s0 := mkst pr (tb ++ T) p []).
  destruct (rep_class_greedy false (points WS) (0 + S (length (suf s0))) 0 s0 KT) as [j [J1 [J2 [J3 J4]]]]; [lia|].
  rewrite J2. destruct (KT_cases (fwd j s0)) as [E|[s' E]].
  - exfalso. specialize (J4 E). subst j.
    assert (Hr : length tb <= run false (points WS) None (suf s0)).
    { unfold s0. cbn [suf]. apply run_ge_prefix. apply ws_class. apply tb_ws. exact Htb. }
    assert (Hk : KT (fwd (length tb) s0) <> Fail).
    { unfold s0. rewrite fwd_app. destruct HT as [->|[X ->]].
      - unfold KT. rewrite m_Alt, m_Chr, m_EndStr. cbn [suf]. rewrite orelse_fail, k0_done. discriminate.
      - apply KT_newline. }
    destruct (length tb) as [|n] eqn:En.
    + apply Hk. rewrite <- E. reflexivity.
    + apply Hk. apply J3; lia.
  - rewrite E. eexists. split; reflexivity.
Qed.

Lemma tw_search_blanks : forall (a raw tb T : str),
  (forall c, In c raw -> c <> 10%N) -> (raw = [] \/ mem (last raw 0%N) WS = false) ->
  is_tb tb = true -> tail_ok T ->
  exists x, osearch rx_props_trailing_ws (a ++ raw ++ tb ++ T) (length a) = Some x /\
            m_start x = length a + length raw.
Proof.
  intros a raw tb T Hnl Hlast Htb HT. unfold osearch. rewrite rsearch_split.
  rewrite search_skip_fails.
  - destruct (tw_attempt_blanks tb T (rev raw ++ rev a) (length a + length raw) Htb HT) as [x [X1 X2]].
    rewrite app_length.
    replace (S (length raw + length (tb ++ T)) - length raw) with (S (length (tb ++ T))) by lia.
    rewrite search_from_S. cbv beta iota. cbn [suf pos].
    change (fun s' : st => true) with (fun _ : st => true).
    rewrite X1. exists x. split; [reflexivity|exact X2].
  - rewrite app_length. lia.
  - intros i pr' p' Hi. apply tw_attempt_fails_any.
    + intro E. apply (f_equal (@length N)) in E. rewrite skipn_length in E. simpl in E. lia.
    + rewrite last_skipn by exact Hi. destruct Hlast as [->|H]; [simpl in Hi; lia|exact H].
    + intros c Hc. apply Hnl. eapply In_skipn. exact Hc.
Qed.

(* ---- key, value, trailing blanks ------------------------------------------------------------------------- *)
Lemma entity_tail_x : forall (P : str) c0 ktl b1 sc b2 conts lastl tb T cc wsp dflt,
  legal_key (c0 :: ktl) = true -> legal_sep b1 sc b2 = true -> legal_value conts lastl = true ->
  is_tb tb = true -> head_is (fun c => mem c BL) (vraw conts lastl ++ tb) = false -> tail_ok T ->
  let raw := vraw conts lastl in
  let s := P ++ c0 :: ktl ++ b1 ++ sc :: b2 ++ raw ++ tb ++ T in
  let v := length P + S (length ktl) + length b1 + 1 + length b2 in
  match omatch rx_props_key s (length P) with
  | Some k =>
      let (endval, startline) :=
        value_loop rx_props_escaped_end (S (length s)) s (m_end k) (m_end k) in
      let endval := match osearch rx_props_trailing_ws s startline with
                    | Some ws => m_start ws
                    | None => endval
                    end in
      mkentry KEntity (m_start k, endval) (group g_props_key_key k) (Some (m_end k, endval)) cc wsp
  | None => dflt
  end =
  mkentry KEntity (length P, v + length raw) (Some (length P, length P + S (length ktl)))
          (Some (v, v + length raw)) cc wsp.
Proof.
  intros P c0 ktl b1 sc b2 conts lastl tb T cc wsp dflt Hk Hs Hr Htb Hhead HT raw s v.
  unfold legal_value in Hr. apply andb_true_iff in Hr. destruct Hr as [Hr _].
  apply andb_true_iff in Hr. destruct Hr as [Hconts Hlast].
  destruct (last_facts lastl Hlast) as [L1 [L2 [L3 L4]]].
  assert (R2' : head_is (fun c => mem c BL) (raw ++ tb ++ T) = false).
  { fold raw in Hhead. destruct (raw ++ tb) as [|r0 rt] eqn:E.
    - apply app_eq_nil in E. destruct E as [E1 E2]. rewrite E1, E2. cbn [app].
      destruct HT as [->|[X ->]]; reflexivity.
    - rewrite app_assoc, E. exact Hhead. }
  unfold s at 1. rewrite omatch_key by auto. fold v. cbn [m_end m_start].
  set (A0 := P ++ c0 :: ktl ++ b1 ++ sc :: b2).
  assert (Es : s = A0 ++ vpre conts ++ (lastl ++ tb) ++ T).
  { unfold s, A0, raw, vraw. norm_app. reflexivity. }
  assert (Es' : s = (A0 ++ vpre conts) ++ lastl ++ tb ++ T)
    by (rewrite Es; norm_app; reflexivity).
  assert (Ev : v = length A0).
  { unfold v, A0. rewrite !app_length. simpl. rewrite !app_length. simpl. lia. }
  assert (Er : length raw = length (vpre conts) + length lastl)
    by (unfold raw, vraw; apply app_length).
  assert (Hnl2 : no_nl (lastl ++ tb) = true).
  { unfold no_nl in *. rewrite forallb_app, L1. apply (tb_no_nl tb Htb). }
  assert (Hev : Nat.even (tbs (lastl ++ tb)) = true).
  { destruct tb as [|t0 tb'] eqn:Etb; [rewrite app_nil_r; exact L3|]. rewrite <- Etb in *.
    rewrite tbs_zero; [reflexivity|]. right.
    assert (Hne : tb <> []) by (rewrite Etb; discriminate).
    destruct (exists_last Hne) as [t' [c Et]]. rewrite Et, app_assoc, last_last.
    pose proof (tb_last_not_bs tb Hne Htb) as Hl. rewrite Et, last_last in Hl. exact Hl. }
  assert (El : value_loop rx_props_escaped_end (S (length s)) s v v =
               (v + length (vpre conts) + length (lastl ++ tb), v + length (vpre conts))).
  { rewrite Es at 2. rewrite Ev, value_loop_tail; auto.
    rewrite Es, !app_length.
    assert (length conts <= length (vpre conts)).
    { clear. induction conts as [|l c IH]; [simpl; lia|]. rewrite vpre_cons, app_length. simpl. lia. }
    lia. }
  rewrite El. cbv beta iota zeta.
  destruct (tw_search_blanks (A0 ++ vpre conts) lastl tb T L2 L4 Htb HT) as [x [X1 X2]].
  assert (X : osearch rx_props_trailing_ws s (v + length (vpre conts)) = Some x).
  { rewrite Es', Ev, <- app_length. exact X1. }
  rewrite X, X2, app_length, <- Ev, <- Nat.add_assoc, <- Er.
  unfold group. cbn [m_caps get_cap]. unfold g_props_key_key.
  replace (Nat.eqb 1 1) with true by reflexivity. reflexivity.
Qed.

(* ---- an entity with indentation after its comment and blanks after its value ---------------------------- *)
Lemma count_tb : forall t, is_tb t = true -> count_char 10%N t = 0.
Proof.
  induction t as [|c t IH]; intros H; [reflexivity|]. unfold is_tb in H. cbn [forallb] in H.
  apply andb_true_iff in H. destruct H as [H1 H2]. unfold count_char. cbn [filter].
  apply mem_in in H1. simpl in H1.
  destruct H1 as [<-|[<-|[<-|[]]]]; cbn [N.eqb]; apply (IH H2).
Qed.

Lemma gn_entity_x : forall (a : str) cs iw c0 ktl b1 sc b2 conts lastl tb T,
  forallb legal_cline cs = true -> is_tb iw = true -> (cs = [] -> iw = []) ->
  legal_key (c0 :: ktl) = true -> legal_sep b1 sc b2 = true ->
  legal_value conts lastl = true -> is_tb tb = true ->
  head_is (fun c => mem c BL) (vraw conts lastl ++ tb) = false -> tail_ok T ->
  (a = [] -> contains s_License (comment_val (COffset 1) (cbody cs)) = false) ->
  let raw := vraw conts lastl in
  let s := a ++ ctext cs ++ iw ++ c0 :: ktl ++ b1 ++ sc :: b2 ++ raw ++ tb ++ T in
  let l := length a + length (cbody cs) in
  let k := length a + length (ctext cs) + length iw in
  let v := k + S (length ktl) + length b1 + 1 + length b2 in
  gn_properties s (length a) =
  mkentry KEntity (k, v + length raw) (Some (k, k + S (length ktl))) (Some (v, v + length raw))
    (match cs with [] => None | _ => Some (length a, l) end)
    (match cs with [] => None | _ => Some (l, k) end).
Proof.
  intros a cs iw c0 ktl b1 sc b2 conts lastl tb T Hcs Hiw Hiw0 Hk Hs Hr Htb Hhead HT Hlic raw s l k v.
  destruct (c0_facts c0 ktl Hk) as [C1 C2].
  set (X := c0 :: ktl ++ b1 ++ sc :: b2 ++ raw ++ tb ++ T) in *.
  assert (HX1 : head_is (fun c => mem c CM) X = false) by exact C1.
  assert (HX2 : head_is (fun c => mem c WS) X = false) by exact C2.
  assert (Hcase : cs = [] \/ cs <> []) by (destruct cs; [left; reflexivity|right; discriminate]).
  destruct Hcase as [Ecs|Hne].
  - (* no comment, hence no indentation *)
    pose proof (Hiw0 Ecs) as Eiw. subst iw. subst cs.
    assert (Es : s = a ++ X) by reflexivity.
    assert (Ek : k = length a) by (unfold k; simpl; lia).
    unfold gn_properties, get_next_properties.
    rewrite Es, omatch_comment_none, omatch_ws_none by auto.
    cbv beta iota zeta. unfold v. rewrite Ek. unfold X, raw. apply entity_tail_x; auto.
  - rewrite !(match_ne cs) by exact Hne.
    set (L := a ++ cbody cs). set (P := a ++ ctext cs ++ iw).
    assert (Es1 : s = a ++ cbody cs ++ ([10%N] ++ iw) ++ X).
    { unfold s. rewrite (ctext_body cs Hne). norm_app. reflexivity. }
    assert (Es2 : s = L ++ ([10%N] ++ iw) ++ X) by (rewrite Es1; unfold L; apply app_assoc).
    assert (Es3 : s = P ++ X) by (unfold s, P; norm_app; reflexivity).
    assert (EL : l = length L) by (unfold l, L; rewrite app_length; reflexivity).
    assert (EP : length L + length ([10%N] ++ iw) = length P).
    { unfold L, P. rewrite (ctext_body cs Hne), !app_length. simpl. lia. }
    assert (Ekp : k = length P) by (unfold k, P; rewrite !app_length; lia).
    assert (Ec : omatch rx_props_comment s (length a) = Some (mkres (length a) (length L) [])).
    { unfold s. rewrite omatch_comment; auto.
      - rewrite <- EL. reflexivity.
      - destruct iw as [|i0 iw']; [exact HX1|]. cbn [app head_is]. apply ws_not_cm.
        pose proof (tb_ws _ Hiw) as Hw. simpl in Hw. apply andb_true_iff in Hw. apply Hw. }
    assert (Lic : Nat.eqb (length a) 0 &&
                  contains s_License (comment_val (COffset 1) (slice s (length a) (length L))) = false).
    { rewrite <- EL. unfold l. rewrite Es1, slice_mid. destruct a as [|a0 a']; [|reflexivity].
      rewrite Hlic by reflexivity. reflexivity. }
    assert (Ew : omatch rx_props_ws s (length L) = Some (mkres (length L) (length P) [])).
    { rewrite Es2, omatch_ws_run; [rewrite EP; reflexivity|discriminate| |exact HX2].
      cbn [app forallb]. rewrite (tb_ws _ Hiw). reflexivity. }
    assert (Ect : (1 <? count_char 10%N (slice s (length L) (length P))) = false).
    { rewrite <- EP, Es2, slice_mid. rewrite count_char_app, count_nl1, count_tb by exact Hiw.
      reflexivity. }
    unfold gn_properties, get_next_properties.
    rewrite Ec. cbn [m_start m_end]. rewrite Lic. cbv beta iota zeta. cbn [m_start m_end].
    rewrite Ew. cbn [m_start m_end]. rewrite Ect. cbv beta iota zeta. cbn [mspan m_start m_end].
    rewrite EL, Ekp.
    unfold v. rewrite Ekp, Es3. unfold X, raw. apply entity_tail_x; auto.
Qed.

(* ---- a comment that ends the file without a newline ----------------------------------------------------- *)
Lemma body_fails_eof : forall c t pr p cs0 k, no_nl t = true ->
  m BODY (mkst pr (c :: t) p cs0) k = Fail.
Proof.
  intros c t pr p cs0 k Ht. unfold BODY. rewrite m_Cat, m_Chr. cbn [suf].
  destruct (chr_ok false (points CM) c); [|reflexivity]. unfold advance. cbn [pre suf pos caps]. rewrite m_Cat.
  assert (Hr : run true (points [10%N]) None (t ++ []) = length t).
  { apply run_exact_gen; [apply no_nl_class; exact Ht|reflexivity]. }
  rewrite app_nil_r in Hr.
  rewrite (m_rep_class_desc true (points [10%N]) 0 None); [|exact I|].
  - cbn [suf]. rewrite Hr. replace (0 <=? length t) with true by reflexivity.
    rewrite <- (app_nil_r t) at 2. rewrite fwd_app, m_Chr. reflexivity.
  - cbn [suf]. rewrite Hr. intros j Hj _. rewrite fwd_mkst_caps by lia.
    destruct (skipn j t) as [|c' t'] eqn:Es.
    + apply (f_equal (@length N)) in Es. rewrite skipn_length in Es. simpl in Es. lia.
    + rewrite m_Chr. cbn [suf]. rewrite chr_ok_points, mem_single.
      assert (Hin : In c' t).
      { rewrite <- (firstn_skipn j t), Es. apply in_or_app. right. left. reflexivity. }
      apply (no_nl_in t c' Ht) in Hin. apply N.eqb_neq in Hin. rewrite Hin. reflexivity.
Qed.

Lemma last_line_eof : forall c t pr p cs0,
  mem c CM = true -> no_nl t = true ->
  m LAST (mkst pr (c :: t) p cs0) k0 = Done (mkst (rev t ++ c :: pr) [] (S p + length t) cs0).
Proof.
  intros c t pr p cs0 Hc Ht. unfold LAST. rewrite m_Cat, m_Chr. cbn [suf].
  rewrite chr_ok_points, Hc. unfold advance. cbn [pre suf pos caps].
  assert (Hr : run true (points [10%N]) None (t ++ []) = length t).
  { apply run_exact_gen; [apply no_nl_class; exact Ht|reflexivity]. }
  rewrite app_nil_r in Hr.
  rewrite (m_rep_class true (points [10%N]) 0 None); [|intros s'; rewrite k0_done; discriminate|exact I].
  cbn [suf]. rewrite Hr. replace (0 <=? length t) with true by reflexivity.
  rewrite <- (app_nil_r t) at 2. rewrite fwd_app, k0_done. reflexivity.
Qed.

Lemma comment_loop_eof : forall cs fuel count pr p,
  cs <> [] -> forallb legal_cline cs = true -> length cs < fuel ->
  rep_loop (m BODY) true 0 None fuel count (mkst pr (cbody cs) p []) KL =
  Done (mkst (rev (cbody cs) ++ pr) [] (p + length (cbody cs)) []).
Proof.
  induction cs as [|[c t] cs IH]; intros fuel count pr p Hne Hleg Hf; [contradiction|].
  simpl in Hleg. apply andb_true_iff in Hleg. destruct Hleg as [Hl Hleg].
  unfold legal_cline in Hl. cbn [fst snd] in Hl. apply andb_true_iff in Hl. destruct Hl as [Hc Ht].
  destruct fuel as [|f]; [lia|].
  rewrite rep_loop_S. replace (count <? 0) with false by (symmetry; apply Nat.ltb_ge; lia).
  cbv zeta.
  destruct cs as [|c2 cs].
  - (* the last line: no newline, the body fails, the last-line expression takes it *)
    rewrite cbody_one. cbn [fst snd]. rewrite body_fails_eof by exact Ht. rewrite orelse_fail.
    unfold KL. rewrite last_line_eof by auto. simpl rev. rewrite <- app_assoc. simpl.
    f_equal. f_equal. lia.
  - assert (Etxt : cbody ((c, t) :: c2 :: cs) = c :: t ++ 10%N :: cbody (c2 :: cs)).
    { rewrite cbody_cons. unfold cline_text. cbn [fst snd]. simpl. rewrite <- !app_assoc. reflexivity. }
    rewrite Etxt, body_line by auto. cbn [pos].
    replace (Nat.eqb (S (S p + length t)) p) with false by (symmetry; apply Nat.eqb_neq; lia).
    rewrite IH; [| discriminate | exact Hleg | simpl in Hf; simpl; lia].
    simpl orelse. f_equal. f_equal.
    + change (c :: t ++ 10%N :: cbody (c2 :: cs)) with ((c :: t) ++ [10%N] ++ cbody (c2 :: cs)).
      rewrite !rev_app_distr. simpl. rewrite <- !app_assoc. simpl. reflexivity.
    + simpl. rewrite !app_length. simpl. lia.
Qed.

Lemma cbody_length_ge : forall cs, cs <> [] -> length cs <= length (cbody cs).
Proof.
  induction cs as [|c cs IH]; intros H; [contradiction|]. destruct cs as [|c2 cs].
  - rewrite cbody_one. simpl. lia.
  - rewrite cbody_cons, app_length. unfold cline_text. simpl length.
    assert (IH' := IH ltac:(discriminate)). simpl length in IH'. rewrite app_length. simpl. lia.
Qed.

Lemma gn_comment_eof : forall (a : str) cs,
  cs <> [] -> forallb legal_cline cs = true ->
  gn_properties (a ++ cbody cs) (length a) = mk_comment (length a, length a + length (cbody cs)).
Proof.
  intros a cs Hne Hcs. set (s := a ++ cbody cs).
  assert (EL : length a + length (cbody cs) = length s) by (unfold s; rewrite app_length; reflexivity).
  assert (Ec : omatch rx_props_comment s (length a) = Some (mkres (length a) (length s) [])).
  { unfold s. rewrite omatch_split, run_at_k0, comment_shape, m_Cat, m_Rep. fold KL.
    rewrite comment_loop_eof; auto.
    - rewrite <- app_length. reflexivity.
    - cbn [suf]. pose proof (cbody_length_ge cs Hne). lia. }
  unfold gn_properties, get_next_properties. fold s. rewrite Ec. cbn [m_start m_end].
  destruct (Nat.eqb (length a) 0 &&
            contains s_License (comment_val (COffset 1) (slice s (length a) (length s)))) eqn:Lic.
  - unfold mspan. cbn [m_start m_end]. rewrite EL. reflexivity.
  - cbv beta iota zeta. cbn [m_start m_end].
    assert (Es : s = s ++ []) by (rewrite app_nil_r; reflexivity).
    assert (Ew : omatch rx_props_ws s (length s) = None) by (rewrite Es at 1; apply omatch_ws_none; reflexivity).
    rewrite Ew. cbv beta iota zeta.
    assert (Ek : omatch rx_props_key s (length s) = None) by (rewrite Es at 1; apply omatch_key_nil).
    rewrite Ek. unfold mspan. cbn [m_start m_end]. rewrite EL. reflexivity.
Qed.

(* ---- garbage that ends the file without a newline --------------------------------------------------------- *)
Definition legal_garbage_eof (gl : list str) (lg : str) : bool :=
  forallb legal_gline gl && legal_gline lg && negb (is_nil lg) &&
  negb (head_is (fun c => mem c WS) (gtext gl ++ lg)).

Lemma geof_attempts : forall gl lg i pr p,
  forallb legal_gline gl = true -> legal_gline lg = true -> i < length (gtext gl ++ lg) ->
  run_at rx_props_key (mkst pr (skipn i (gtext gl ++ lg) ++ []) p []) (fun _ => true) = MNone /\
  run_at rx_props_comment (mkst pr (skipn i (gtext gl ++ lg) ++ []) p []) (fun _ => true) = MNone.
Proof.
  intros gl lg i pr p Hgl Hlg Hi. rewrite app_nil_r.
  destruct (Nat.lt_ge_cases i (length (gtext gl))) as [Hlt|Hge].
  - rewrite skipn_app_le by lia. split.
    + apply key_attempt_fails_g; auto.
    + apply comment_attempt_fails_g; auto.
  - rewrite skipn_app, skipn_all2 by lia. cbn [app].
    set (j := i - length (gtext gl)). rewrite app_length in Hi.
    assert (Hj : j < length lg) by (unfold j; lia).
    assert (Hl : no_chars GC (skipn j lg) = true).
    { unfold legal_gline, no_chars in *. rewrite forallb_forall in *. intros x Hx. apply Hlg.
      eapply In_skipn. exact Hx. }
    split.
    + rewrite run_at_k0. rewrite <- (app_nil_r (skipn j lg)).
      rewrite key_fails_line; [reflexivity|apply gc_kc; exact Hl|left; reflexivity].
    + destruct (skipn j lg) as [|c t] eqn:Es.
      * apply (f_equal (@length N)) in Es. rewrite skipn_length in Es. simpl in Es. lia.
      * rewrite run_at_k0, comment_fails; [reflexivity|]. eapply gc_cm; [exact Hl|left; reflexivity].
Qed.

Lemma gn_junk_eof : forall (a : str) gl lg,
  legal_garbage_eof gl lg = true ->
  gn_properties (a ++ gtext gl ++ lg) (length a) =
  mk_junk (length a, length a + length (gtext gl ++ lg)).
Proof.
  intros a gl lg Hg. unfold legal_garbage_eof in Hg.
  repeat (apply andb_true_iff in Hg; let H := fresh "L" in destruct Hg as [Hg H]).
  rename Hg into Hgl. apply negb_true_iff in L. apply negb_true_iff in L0.
  set (G := gtext gl ++ lg) in *.
  assert (Hpos : 1 <= length G).
  { unfold G. rewrite app_length. destruct lg; [discriminate|simpl; lia]. }
  assert (Es : a ++ G = a ++ G ++ []) by (rewrite app_nil_r; reflexivity).
  rewrite Es. set (s := a ++ G ++ []).
  pose proof (fun i pr p (Hi : i < length G) => geof_attempts gl lg i pr p Hgl L1 Hi) as Hatt.
  destruct (Hatt 0 (rev a) (length a) ltac:(lia)) as [K0 C0]. cbn [skipn] in K0, C0. fold G in K0, C0.
  assert (Ec : omatch rx_props_comment s (length a) = None) by (unfold s; rewrite omatch_split, C0; reflexivity).
  assert (Ew : omatch rx_props_ws s (length a) = None).
  { unfold s. apply omatch_ws_none. rewrite app_nil_r. exact L. }
  assert (Ek : omatch rx_props_key s (length a) = None) by (unfold s; rewrite omatch_split, K0; reflexivity).
  unfold gn_properties, get_next_properties. fold s. rewrite Ec, Ew, Ek.
  assert (Sk := C02BlocksDtdJunk.search_from_region rx_props_key a G []
                  (fun i Hi => proj1 (Hatt i _ _ Hi)) Hpos).
  assert (Sc := C02BlocksDtdJunk.search_from_region rx_props_comment a G []
                  (fun i Hi => proj2 (Hatt i _ _ Hi)) Hpos).
  assert (Nk : osearch rx_props_key s (S (length a)) = None).
  { unfold osearch, s. rewrite Sk, search_from_S. cbv beta iota. cbn [suf].
    change (fun s' : st => true) with (fun _ : st => true). rewrite key_nil_fails. reflexivity. }
  assert (Nc : osearch rx_props_comment s (S (length a)) = None).
  { unfold osearch, s. rewrite Sc, search_from_S. cbv beta iota. cbn [suf].
    change (fun s' : st => true) with (fun _ : st => true). rewrite comment_nil_fails. reflexivity. }
  rewrite get_junk_eof by auto. unfold s. rewrite !app_length. simpl. rewrite Nat.add_0_r. reflexivity.
Qed.

(* ---- blocks --------------------------------------------------------------------------------------------- *)
Inductive xblock :=
| XBlank (w : str)
| XComment (cs : list cline) (nl : bool)
      (* standalone comment lines; [nl = false]: the last line has no newline (end of the file) *)
| XEntity (cs : list cline) (iw : str) (key b1 : str) (sc : N) (b2 : str) (conts : list str)
          (lastl tb : str) (nl : bool)
      (* attached comment lines, indentation [iw], key sep value, trailing blanks [tb], newline *)
| XGarbage (gl : list str)
| XGarbageEof (gl : list str) (lg : str).
      (* garbage at the end of the file; its last line [lg] has no newline *)

Definition xtext (b : xblock) : str :=
  match b with
  | XBlank w => w
  | XComment cs nl => if nl then ctext cs else cbody cs
  | XEntity cs iw key b1 sc b2 conts lastl tb nl =>
      ctext cs ++ iw ++ key ++ b1 ++ sc :: b2 ++ vraw conts lastl ++ tb ++ eol nl
  | XGarbage gl => gtext gl
  | XGarbageEof gl lg => gtext gl ++ lg
  end.
Definition xfile_text (bs : list xblock) : str := concat (map xtext bs).

Definition legal_xblockb (b : xblock) : bool :=
  match b with
  | XBlank w => negb (is_nil w) && forallb (fun c => mem c WS) w
  | XComment cs _ => negb (is_nil cs) && forallb legal_cline cs
  | XEntity cs iw key b1 sc b2 conts lastl tb _ =>
      forallb legal_cline cs && is_tb iw && (negb (is_nil cs) || is_nil iw) &&
      legal_key key && legal_sep b1 sc b2 && legal_value conts lastl && is_tb tb &&
      negb (head_is (fun c => mem c BL) (vraw conts lastl ++ tb))
  | XGarbage gl => legal_garbage gl
  | XGarbageEof gl lg => legal_garbage_eof gl lg
  end.
Definition legal_xblock (b : xblock) : Prop := legal_xblockb b = true.

(* local separation, as in C02Blocks / C02BlocksJunk: a standalone comment is followed by the
   end of the file or by a whitespace block that contains a newline, and only at the end of the
   file may it lack its newline; an entity without its final newline is the last block; a
   garbage region is followed by the end of the file, a comment with its newline or an entity *)
Fixpoint xsep (bs : list xblock) : bool :=
  match bs with
  | [] => true
  | XComment _ nl :: rest =>
      match rest with
      | [] => true
      | XBlank w :: _ => nl && mem 10%N w
      | _ => false
      end && xsep rest
  | XEntity _ _ _ _ _ _ _ _ _ nl :: rest => (nl || is_nil rest) && xsep rest
  | XBlank _ :: rest => xsep rest
  | XGarbage _ :: rest =>
      match rest with
      | [] | XComment _ true :: _ | XEntity _ _ _ _ _ _ _ _ _ _ :: _ => true
      | _ => false
      end && xsep rest
  | XGarbageEof _ _ :: rest => is_nil rest
  end.

Definition xlicense_okb (bs : list xblock) : bool :=
  match bs with
  | XEntity cs _ _ _ _ _ _ _ _ _ :: _ => negb (contains s_License (comment_val (COffset 1) (cbody cs)))
  | _ => true
  end.

Definition xadjacent_okb (bs : list xblock) : bool := xsep bs && xlicense_okb bs.
Definition xadjacent_ok (bs : list xblock) : Prop := xadjacent_okb bs = true.

Fixpoint xents (off w : nat) (bs : list xblock) : list entry :=
  match bs with
  | [] => flush off w
  | XBlank x :: rest => xents off (w + length x) rest
  | XComment cs nl :: rest =>
      let a := off + w in
      let e := a + length (cbody cs) in
      flush off w ++ mk_comment (a, e) :: xents e (length (eol nl)) rest
  | XEntity cs iw key b1 sc b2 conts lastl tb nl :: rest =>
      let a := off + w in
      let l := a + length (cbody cs) in
      let k := a + length (ctext cs) + length iw in
      let ke := k + length key in
      let v := ke + length b1 + 1 + length b2 in
      let e := v + length (vraw conts lastl) in
      flush off w ++
      mkentry KEntity (k, e) (Some (k, ke)) (Some (v, e))
              (match cs with [] => None | _ => Some (a, l) end)
              (match cs with [] => None | _ => Some (l, k) end)
      :: xents e (length tb + length (eol nl)) rest
  | XGarbage gl :: rest =>
      let a := off + w in
      flush off w ++ mk_junk (a, a + length (gtext gl)) :: xents (a + length (gtext gl)) 0 rest
  | XGarbageEof gl lg :: rest =>
      let a := off + w in
      flush off w ++ mk_junk (a, a + length (gtext gl ++ lg)) :: xents (a + length (gtext gl ++ lg)) 0 rest
  end.
Definition xentries_of (bs : list xblock) : list entry := xents 0 0 bs.

(* sanity, by evaluation: CRLF lines, an indented key under its comment, a value with blanks
   after it, garbage, and a last comment without newline *)
Definition xx_e1 : xblock := XEntity [] [] (A [107]) [] 61%N [] [] (A [118]) (A [13]) true.        (* k=v CR LF *)
Definition xx_e2 : xblock :=                                            (* #c / <2 blanks>a b = x y<blank><tab> *)
  XEntity [(35%N, A [99])] (A [32; 32]) (A [97; 32; 98]) (A [32]) 61%N (A [32]) [] (A [120; 32; 121]) (A [32; 9]) true.
Definition xx_e3 : xblock :=                                            (* k : a\ / b<blank>   (no newline) *)
  XEntity [] [] (A [107]) (A [32]) 58%N (A [32]) [A [97; 92]] (A [98]) (A [32]) false.
Definition xx_c : xblock := XComment [(35%N, A [32; 115]); (35%N, [])] true.
Definition xx_c0 : xblock := XComment [(35%N, A [32; 115]); (33%N, A [120])] false.
Definition xx_g : xblock := XGarbage [A [103; 97; 114; 98]; []; A [32; 120; 32; 121]].
Example xx_all :
  let bs := [xx_e1; xx_e2; XBlank (A [10]); xx_c; XBlank (A [13; 10]); xx_e1; xx_g; xx_e2; xx_c0] in
  Forall legal_xblock bs /\ xadjacent_ok bs /\ walk_properties (xfile_text bs) = Ok (xentries_of bs) /\
  map (fun e => (e_kind e, e_span e)) (xentries_of bs) =
  [(KEntity, (0, 3)); (KWhitespace, (3, 5)); (KEntity, (10, 19)); (KWhitespace, (19, 23));
   (KComment, (23, 28)); (KWhitespace, (28, 31)); (KEntity, (31, 34)); (KWhitespace, (34, 36));
   (KJunk, (36, 47)); (KEntity, (52, 61)); (KWhitespace, (61, 64)); (KComment, (64, 70))].
Proof. split; [repeat constructor|]. split; [vm_compute; reflexivity|]. split; vm_compute; reflexivity. Qed.
Example xx_eof :
  let bs := [xx_c; XBlank (A [10]); xx_e3] in
  Forall legal_xblock bs /\ xadjacent_ok bs /\ walk_properties (xfile_text bs) = Ok (xentries_of bs).
Proof. split; [repeat constructor|]. split; vm_compute; reflexivity. Qed.
Example xx_geof :
  let bs := [xx_e1; XBlank (A [10]); XGarbageEof [A [103]; []] (A [32; 120])] in
  Forall legal_xblock bs /\ xadjacent_ok bs /\ walk_properties (xfile_text bs) = Ok (xentries_of bs) /\
  map (fun e => (e_kind e, e_span e)) (xentries_of bs) =
  [(KEntity, (0, 3)); (KWhitespace, (3, 6)); (KJunk, (6, 11))].
Proof. split; [repeat constructor|]. split; [vm_compute; reflexivity|]. split; vm_compute; reflexivity. Qed.

(* ---- the walk ---------------------------------------------------------------------------------------------- *)
Definition xstmt (bs : list xblock) (a w : str) : Prop :=
  (a = [] -> w = [] -> xlicense_okb bs = true) ->
  forall fuel, length (a ++ w ++ xfile_text bs) - length a < fuel ->
  walk_loop (stateless gn_properties) fuel tt (a ++ w ++ xfile_text bs) (length a) =
  Ok (xents (length a) (length w) bs).

Definition xnonblank_head (bs : list xblock) : Prop :=
  match bs with XBlank _ :: _ => False | _ => True end.

Lemma xents_flush : forall bs off w, xnonblank_head bs ->
  xents off w bs = flush off w ++ xents (off + w) 0 bs.
Proof.
  intros [|[x|cs nl|cs iw key b1 sc b2 conts lastl tb nl|gl|gl lg] rest] off w H; try contradiction; simpl;
    rewrite ?Nat.add_0_r, ?app_nil_r; reflexivity.
Qed.

Lemma xlift_flush : forall bs, xnonblank_head bs ->
  head_is (fun c => mem c WS) (xfile_text bs) = false ->
  (forall a, xstmt bs a []) ->
  forall a w, forallb (fun c => mem c WS) w = true -> xstmt bs a w.
Proof.
  intros bs Hnb Hhead H0 a w Hw Hlic fuel Hf.
  destruct w as [|c w'] eqn:Ew; [apply (H0 a); auto|]. rewrite <- Ew in *.
  assert (Hne : w <> []) by (rewrite Ew; discriminate).
  destruct fuel as [|f]; [lia|].
  rewrite xents_flush by exact Hnb.
  assert (Efl : flush (length a) (length w) = [mk_white (length a, length a + length w)])
    by (rewrite Ew; reflexivity).
  rewrite Efl. simpl app.
  pose proof (gn_white a w (xfile_text bs) Hne Hw Hhead) as G.
  rewrite <- G. apply walk_step.
  - rewrite !app_length. rewrite Ew. simpl. lia.
  - rewrite G. cbn [mk_white e_span snd].
    assert (Hs : a ++ w ++ xfile_text bs = (a ++ w) ++ [] ++ xfile_text bs)
      by (rewrite <- app_assoc; reflexivity).
    rewrite Hs, <- app_length. apply (H0 (a ++ w)).
    + intros E. apply app_eq_nil in E. destruct E as [_ E]. contradiction.
    + rewrite <- Hs. rewrite !app_length in *. rewrite Ew in *. simpl in *. lia.
Qed.

Lemma xfile_text_cons : forall b bs, xfile_text (b :: bs) = xtext b ++ xfile_text bs.
Proof. reflexivity. Qed.

Lemma head_cbody : forall cs X, cs <> [] -> forallb legal_cline cs = true ->
  head_is (fun c => mem c WS) (cbody cs ++ X) = false.
Proof.
  intros cs X Hne H. pose proof (head_ctext cs X Hne H) as Hh. rewrite (ctext_body cs Hne) in Hh.
  destruct (cbody cs) as [|c t] eqn:E.
  - pose proof (cbody_length_pos cs Hne) as Hp. rewrite E in Hp. simpl in Hp. lia.
  - exact Hh.
Qed.

(* the text of an entity *)
Lemma xentity_text : forall cs iw c0 ktl b1 sc b2 conts lastl tb nl Y,
  xtext (XEntity cs iw (c0 :: ktl) b1 sc b2 conts lastl tb nl) ++ Y =
  ctext cs ++ iw ++ c0 :: ktl ++ b1 ++ sc :: b2 ++ vraw conts lastl ++ tb ++ eol nl ++ Y.
Proof. intros. cbn [xtext]. norm_app. reflexivity. Qed.

(* what follows a garbage region, from the next block *)
Lemma xjunk_after_rest : forall rest, Forall legal_xblock rest -> xsep rest = true ->
  match rest with
  | [] | XComment _ true :: _ | XEntity _ _ _ _ _ _ _ _ _ _ :: _ => true
  | _ => false
  end = true -> junk_after (xfile_text rest).
Proof.
  intros [|[x|cs [|]|cs iw key b1 sc b2 conts lastl tb nl|gl|gl lg] rest'] Hleg Hsep Hshape; try discriminate.
  - constructor.
  - (* a comment block: what follows it is the end of the file or whitespace *)
    inversion Hleg as [|? ? Hb Hrest]; subst. unfold legal_xblock in Hb. cbn [legal_xblockb] in Hb.
    apply andb_true_iff in Hb. destruct Hb as [Hc1 Hc2].
    rewrite xfile_text_cons. cbn [xtext]. constructor; auto.
    + destruct cs; [discriminate|discriminate].
    + simpl in Hsep. apply andb_true_iff in Hsep. destruct Hsep as [Hnext _].
      destruct rest' as [|[x| | | |] rest'']; try discriminate; [reflexivity|].
      rewrite xfile_text_cons. cbn [xtext].
      inversion Hrest as [|? ? Hx _]; subst. unfold legal_xblock in Hx. cbn [legal_xblockb] in Hx.
      apply andb_true_iff in Hx. destruct Hx as [Hx1 Hx2].
      rewrite head_is_app by (destruct x; [discriminate|discriminate]).
      apply head_ws_not_cm; [destruct x; [discriminate|discriminate]|exact Hx2].
  - (* an entity *)
    inversion Hleg as [|? ? Hb Hrest]; subst. unfold legal_xblock in Hb. cbn [legal_xblockb] in Hb.
    repeat (apply andb_true_iff in Hb; let H := fresh "L" in destruct Hb as [Hb H]).
    rename Hb into Hcs. apply negb_true_iff in L.
    destruct key as [|c0 ktl]; [discriminate|].
    rewrite xfile_text_cons, xentity_text.
    destruct cs as [|c1 cs1].
    + assert (iw = []) by (destruct iw; [reflexivity|discriminate]). subst iw.
      change (ctext [] ++ [] ++ c0 :: ktl ++ b1 ++ sc :: b2 ++ vraw conts lastl ++ tb ++ eol nl ++ xfile_text rest')
        with (c0 :: ktl ++ b1 ++ sc :: b2 ++ (vraw conts lastl ++ tb ++ eol nl ++ xfile_text rest')).
      constructor; auto.
      destruct (vraw conts lastl ++ tb) as [|r0 rt] eqn:E.
      * apply app_eq_nil in E. destruct E as [E1 E2]. rewrite E1, E2. cbn [app].
        simpl in Hsep. apply andb_true_iff in Hsep. destruct Hsep as [Hnl _].
        destruct nl; [reflexivity|]. simpl in Hnl. destruct rest'; [reflexivity|discriminate].
      * rewrite app_assoc, E. exact L.
    + constructor; [discriminate|exact Hcs|].
      destruct iw as [|i0 iw'].
      * cbn [app]. destruct (c0_facts c0 ktl L3) as [C1 _]. exact C1.
      * cbn [app head_is]. apply ws_not_cm. pose proof (tb_ws _ L5) as Hw. simpl in Hw.
        apply andb_true_iff in Hw. apply Hw.
Qed.

Lemma walk_xents : forall bs, Forall legal_xblock bs -> xsep bs = true ->
  forall a w, forallb (fun c => mem c WS) w = true -> xstmt bs a w.
Proof.
  induction bs as [|b rest IH]; intros Hleg Hsep.
  - apply xlift_flush; [exact I|reflexivity|].
    intros a _ fuel Hf. simpl. apply walk_loop_done. rewrite !app_length. simpl. lia.
  - inversion Hleg as [|b' rest' Hb Hrest]; subst b' rest'.
    destruct b as [x|cs nl|cs iw key b1 sc b2 conts lastl tb nl|gl|gl lg].
    + (* whitespace: joins what is pending *)
      intros a w Hw Hlic fuel Hf. simpl in Hsep.
      unfold legal_xblock in Hb. cbn [legal_xblockb] in Hb. apply andb_true_iff in Hb.
      destruct Hb as [Hx1 Hx2].
      assert (Hs : a ++ w ++ xfile_text (XBlank x :: rest) = a ++ (w ++ x) ++ xfile_text rest).
      { rewrite xfile_text_cons. cbn [xtext]. rewrite <- app_assoc. reflexivity. }
      simpl xents. rewrite Hs in *. rewrite <- app_length. apply (IH Hrest Hsep); auto.
      * rewrite forallb_app, Hw, Hx2. reflexivity.
      * intros _ E. apply app_eq_nil in E. destruct E as [_ E]. subst x. discriminate.
    + (* a standalone comment *)
      unfold legal_xblock in Hb. cbn [legal_xblockb] in Hb. apply andb_true_iff in Hb.
      destruct Hb as [Hc1 Hc2].
      assert (Hne : cs <> []) by (destruct cs; [discriminate|discriminate]).
      simpl in Hsep. apply andb_true_iff in Hsep. destruct Hsep as [Hnext Hsep].
      pose proof (cbody_length_pos cs Hne) as Hpos.
      destruct nl.
      * (* with its newline *)
        apply xlift_flush; [exact I| rewrite xfile_text_cons; apply head_ctext; auto |].
        intros a _ fuel Hf. destruct fuel as [|f]; [lia|].
        rewrite xfile_text_cons in *. cbn [xtext] in *. simpl app in *.
        assert (Hafter : xfile_text rest = [] \/
                  exists x y, xfile_text rest = x ++ y /\ forallb (fun c => mem c WS) x = true /\
                              mem 10%N x = true).
        { destruct rest as [|[x| | | |] rest']; try discriminate; [left; reflexivity|].
          right. exists x, (xfile_text rest'). split; [reflexivity|]. split; [|exact Hnext].
          inversion Hrest as [|b' r' Hx _]; subst. unfold legal_xblock in Hx. cbn [legal_xblockb] in Hx.
          apply andb_true_iff in Hx. destruct Hx as [_ Hx]. exact Hx. }
        pose proof (gn_comment a cs (xfile_text rest) Hne Hc2 Hafter) as G.
        simpl xents. rewrite !Nat.add_0_r. rewrite <- G. apply walk_step.
        -- rewrite !app_length. pose proof (ctext_length_ge cs). destruct cs; [contradiction|].
           simpl in *. lia.
        -- rewrite G. cbn [mk_comment e_span snd].
           assert (Hs : a ++ ctext cs ++ xfile_text rest = (a ++ cbody cs) ++ [10%N] ++ xfile_text rest).
           { rewrite (ctext_body cs Hne), <- !app_assoc. reflexivity. }
           rewrite Hs, <- app_length. change 1 with (length [10%N]).
           apply (IH Hrest Hsep); [reflexivity| |].
           ++ intros E. apply app_eq_nil in E. destruct E as [_ E]. discriminate.
           ++ rewrite <- Hs.
              assert (Elen : length (ctext cs) = length (cbody cs) + 1)
                by (rewrite (ctext_body cs Hne), app_length; reflexivity).
              rewrite !app_length in *. simpl in *. lia.
      * (* without it: the end of the file *)
        assert (Er : rest = []).
        { destruct rest as [|[x| | | |] rest']; try discriminate; reflexivity. }
        subst rest.
        apply xlift_flush; [exact I| rewrite xfile_text_cons; apply head_cbody; auto |].
        intros a _ fuel Hf. destruct fuel as [|f]; [lia|].
        assert (Etxt : a ++ [] ++ xfile_text [XComment cs false] = a ++ cbody cs).
        { cbn [xfile_text map concat xtext app]. rewrite app_nil_r. reflexivity. }
        rewrite Etxt in *.
        pose proof (gn_comment_eof a cs Hne Hc2) as G.
        simpl xents. rewrite !Nat.add_0_r. rewrite <- G. apply walk_step.
        -- rewrite app_length. lia.
        -- rewrite G. cbn [mk_comment e_span snd]. apply walk_loop_done. rewrite app_length. lia.
    + (* an entity line *)
      assert (Hb' := Hb). unfold legal_xblock in Hb'. cbn [legal_xblockb] in Hb'.
      repeat (apply andb_true_iff in Hb'; let H := fresh "L" in destruct Hb' as [Hb' H]).
      rename Hb' into Hcs. apply negb_true_iff in L.
      simpl in Hsep. apply andb_true_iff in Hsep. destruct Hsep as [Hnl Hsep].
      destruct key as [|c0 ktl]; [discriminate|].
      destruct (c0_facts c0 ktl L3) as [_ C2].
      set (raw := vraw conts lastl) in *.
      assert (Hiw0 : cs = [] -> iw = []).
      { intros E. subst cs. destruct iw; [reflexivity|discriminate]. }
      apply xlift_flush; [exact I| |].
      { rewrite xfile_text_cons, xentity_text. destruct cs as [|c1 cs1].
        - rewrite (Hiw0 eq_refl). exact C2.
        - apply head_ctext; [discriminate|exact Hcs]. }
      intros a Hlic fuel Hf. destruct fuel as [|f]; [lia|].
      rewrite xfile_text_cons in *. rewrite xentity_text in *. fold raw in Hf |- *. simpl app in *.
      assert (Hl : a = [] -> contains s_License (comment_val (COffset 1) (cbody cs)) = false).
      { intros Ea. specialize (Hlic Ea eq_refl). simpl in Hlic. apply negb_true_iff in Hlic.
        exact Hlic. }
      assert (HT : tail_ok (eol nl ++ xfile_text rest)).
      { destruct nl; [right; eexists; reflexivity|]. simpl in Hnl.
        destruct rest; [left; reflexivity|discriminate]. }
      assert (Hew : forallb (fun c => mem c WS) (tb ++ eol nl) = true).
      { rewrite forallb_app, (tb_ws _ L0). destruct nl; reflexivity. }
      pose proof (gn_entity_x a cs iw c0 ktl b1 sc b2 conts lastl tb (eol nl ++ xfile_text rest)
                    Hcs L5 Hiw0 L3 L2 L1 L0 L HT Hl) as G.
      cbv zeta in G. fold raw in G. simpl xents. fold raw. rewrite !Nat.add_0_r. simpl length.
      set (k := length a + length (ctext cs) + length iw) in *.
      set (v := k + S (length ktl) + length b1 + 1 + length b2) in *.
      rewrite <- G. apply walk_step.
      * rewrite !app_length. simpl. rewrite !app_length. simpl. rewrite !app_length. simpl. lia.
      * rewrite G. cbn [e_span snd].
        set (A0 := a ++ ctext cs ++ iw ++ c0 :: ktl ++ b1 ++ sc :: b2 ++ raw).
        assert (Hs2 : a ++ ctext cs ++ iw ++ c0 :: ktl ++ b1 ++ sc :: b2 ++ raw ++ tb ++ eol nl ++ xfile_text rest
                      = A0 ++ (tb ++ eol nl) ++ xfile_text rest).
        { unfold A0. norm_app. reflexivity. }
        assert (El : v + length raw = length A0).
        { unfold A0, v, k. rewrite !app_length. simpl. rewrite !app_length. simpl.
          rewrite !app_length. lia. }
        rewrite Hs2, El, <- app_length.
        apply (IH Hrest Hsep); [exact Hew| |].
        -- intros E. unfold A0 in E. apply app_eq_nil in E. destruct E as [_ E].
           apply app_eq_nil in E. destruct E as [_ E]. apply app_eq_nil in E. destruct E as [_ E].
           discriminate.
        -- assert (Hlt : length a < length A0) by (rewrite <- El; unfold v, k; lia).
           rewrite Hs2 in Hf. clear - Hf Hlt. rewrite !app_length in *. simpl in *. lia.
    + (* a garbage region *)
      unfold legal_xblock in Hb. cbn [legal_xblockb] in Hb.
      simpl in Hsep. apply andb_true_iff in Hsep. destruct Hsep as [Hnext Hsep].
      pose proof (gtext_pos gl Hb) as Hpos.
      apply xlift_flush; [exact I| rewrite xfile_text_cons; apply head_gtext; exact Hb |].
      intros a _ fuel Hf. destruct fuel as [|f]; [lia|].
      rewrite xfile_text_cons in *. cbn [xtext] in *. simpl app in *.
      pose proof (gn_junk a gl (xfile_text rest) Hb (xjunk_after_rest rest Hrest Hsep Hnext)) as G.
      simpl xents. rewrite !Nat.add_0_r. rewrite <- G. apply walk_step.
      * rewrite !app_length. lia.
      * rewrite G. cbn [mk_junk e_span snd].
        assert (Hs : a ++ gtext gl ++ xfile_text rest = (a ++ gtext gl) ++ [] ++ xfile_text rest)
          by (rewrite <- app_assoc; reflexivity).
        rewrite Hs, <- app_length. change 0 with (length (@nil N)).
        apply (IH Hrest Hsep); [reflexivity| |].
        -- intros E. apply app_eq_nil in E. destruct E as [_ E]. rewrite E in Hpos. simpl in Hpos. lia.
        -- rewrite <- Hs. rewrite !app_length in *. lia.
    + (* garbage that ends the file *)
      unfold legal_xblock in Hb. cbn [legal_xblockb] in Hb. cbn [xsep] in Hsep.
      assert (Er : rest = []) by (destruct rest; [reflexivity|discriminate]). subst rest.
      assert (Hh : head_is (fun c => mem c WS) (gtext gl ++ lg) = false).
      { unfold legal_garbage_eof in Hb. apply andb_true_iff in Hb. destruct Hb as [_ Hb].
        apply negb_true_iff in Hb. exact Hb. }
      assert (Hpos : 1 <= length (gtext gl ++ lg)).
      { unfold legal_garbage_eof in Hb. apply andb_true_iff in Hb. destruct Hb as [Hb _].
        apply andb_true_iff in Hb. destruct Hb as [_ Hb]. rewrite app_length.
        destruct lg; [discriminate|simpl; lia]. }
      apply xlift_flush; [exact I| |].
      { cbn [xfile_text map concat xtext]. rewrite app_nil_r. exact Hh. }
      intros a _ fuel Hf. destruct fuel as [|f]; [lia|].
      assert (Etxt : a ++ [] ++ xfile_text [XGarbageEof gl lg] = a ++ gtext gl ++ lg).
      { cbn [xfile_text map concat xtext app]. rewrite app_nil_r. reflexivity. }
      rewrite Etxt in *.
      pose proof (gn_junk_eof a gl lg Hb) as G.
      simpl xents. rewrite !Nat.add_0_r. rewrite <- G. apply walk_step.
      * rewrite !app_length in *. lia.
      * rewrite G. cbn [mk_junk e_span snd]. apply walk_loop_done. rewrite !app_length. lia.
Qed.

(* ---- the block theorem ------------------------------------------------------------------------------------- *)
Theorem blocks_properties_x : forall bs : list xblock,
  Forall legal_xblock bs -> xadjacent_ok bs ->
  walk_properties (xfile_text bs) = Ok (xentries_of bs).
Proof.
  intros bs Hleg Hadj. unfold xadjacent_ok, xadjacent_okb in Hadj. apply andb_true_iff in Hadj.
  destruct Hadj as [Hsep Hlic]. unfold walk_properties, walk, xentries_of.
  apply (walk_xents bs Hleg Hsep [] [] eq_refl); [intros _ _; exact Hlic|]. simpl. lia.
Qed.
Print Assumptions blocks_properties_x.

(* ---- what the entries contain ----------------------------------------------------------------------------- *)
Fixpoint xrecords_of (bs : list xblock) : list record :=
  match bs with
  | [] => []
  | XEntity cs _ key _ _ _ conts lastl _ _ :: rest =>
      (key, vraw conts lastl, match cs with [] => None | _ => Some (cbody cs) end) :: xrecords_of rest
  | _ :: rest => xrecords_of rest
  end.
Fixpoint xcomments_of (bs : list xblock) : list str :=
  match bs with
  | [] => []
  | XComment cs _ :: rest => cbody cs :: xcomments_of rest
  | _ :: rest => xcomments_of rest
  end.
Fixpoint xgarbage_of (bs : list xblock) : list str :=
  match bs with
  | [] => []
  | XGarbage gl :: rest => gtext gl :: xgarbage_of rest
  | XGarbageEof gl lg :: rest => (gtext gl ++ lg) :: xgarbage_of rest
  | _ :: rest => xgarbage_of rest
  end.

Definition xviews (s : str) (es : list entry) (bs : list xblock) : Prop :=
  map (entity_record s) (filter (is_kind KEntity) es) = xrecords_of bs /\
  map (fun e => span_text s (e_span e)) (filter (is_kind KComment) es) = xcomments_of bs /\
  map (fun e => span_text s (e_span e)) (filter (is_kind KJunk) es) = xgarbage_of bs.

Lemma slice_at : forall (P b c : str) i j, i = length P -> j = length P + length b ->
  slice (P ++ b ++ c) i j = b.
Proof. intros; subst. apply slice_mid. Qed.

Lemma xents_views : forall bs, Forall legal_xblock bs -> forall (a w : str),
  xviews (a ++ w ++ xfile_text bs) (xents (length a) (length w) bs) bs.
Proof.
  induction bs as [|b rest IH]; intros Hleg a w; unfold xviews.
  - simpl xents. rewrite !flush_no by discriminate. repeat split.
  - inversion Hleg as [|b' rest' Hb Hrest]; subst b' rest'. specialize (IH Hrest).
    set (s := a ++ w ++ xfile_text (b :: rest)).
    destruct b as [x|cs nl|cs iw key b1 sc b2 conts lastl tb nl|gl|gl lg].
    + assert (Hs : s = a ++ (w ++ x) ++ xfile_text rest).
      { unfold s. rewrite xfile_text_cons. cbn [xtext]. rewrite <- app_assoc. reflexivity. }
      simpl xents. rewrite <- app_length, Hs. apply IH.
    + unfold legal_xblock in Hb. cbn [legal_xblockb] in Hb. apply andb_true_iff in Hb.
      destruct Hb as [Hc1 _].
      assert (Hne : cs <> []) by (destruct cs; [discriminate|discriminate]).
      set (A0 := a ++ w ++ cbody cs).
      assert (Hs : s = A0 ++ eol nl ++ xfile_text rest).
      { unfold s, A0. rewrite xfile_text_cons. cbn [xtext]. destruct nl.
        - rewrite (ctext_body cs Hne). norm_app. reflexivity.
        - norm_app. reflexivity. }
      assert (El : length a + length w + length (cbody cs) = length A0)
        by (unfold A0; rewrite !app_length; lia).
      destruct (IH A0 (eol nl)) as [I1 [I2 I3]]. rewrite <- Hs in I1, I2, I3.
      simpl xents. rewrite !filter_app, !flush_no by discriminate. rewrite El.
      cbn [app filter is_kind mk_comment e_kind map e_span]. rewrite I1, I2, I3.
      split; [reflexivity|split; [|reflexivity]]. cbn [xcomments_of]. f_equal.
      assert (Hs' : s = (a ++ w) ++ cbody cs ++ eol nl ++ xfile_text rest)
        by (rewrite Hs; unfold A0; norm_app; reflexivity).
      unfold span_text. cbn [fst snd]. rewrite <- El, <- app_length, Hs'. apply slice_mid.
    + set (raw := vraw conts lastl).
      set (C0 := a ++ w).
      set (K0 := C0 ++ ctext cs ++ iw).
      set (V0 := K0 ++ key ++ b1 ++ sc :: b2).
      set (A0 := V0 ++ raw).
      assert (Hs : s = A0 ++ (tb ++ eol nl) ++ xfile_text rest).
      { unfold s, A0, V0, K0, C0. rewrite xfile_text_cons. cbn [xtext]. fold raw. norm_app. reflexivity. }
      assert (Ec : length a + length w = length C0) by (unfold C0; rewrite app_length; lia).
      assert (Ek : length C0 + length (ctext cs) + length iw = length K0)
        by (unfold K0; rewrite !app_length; lia).
      assert (Ev : length K0 + length key + length b1 + 1 + length b2 = length V0).
      { unfold V0. rewrite !app_length. simpl. rewrite ?app_length. lia. }
      assert (Ee : length V0 + length raw = length A0) by (unfold A0; rewrite app_length; lia).
      destruct (IH A0 (tb ++ eol nl)) as [I1 [I2 I3]]. rewrite <- Hs in I1, I2, I3.
      rewrite app_length in I1, I2, I3.
      simpl xents. fold raw. rewrite !filter_app, !flush_no by discriminate. rewrite Ec, Ek, Ev, Ee.
      cbn [app filter is_kind e_kind map]. rewrite I1, I2, I3.
      split; [|split; reflexivity]. cbn [xrecords_of]. fold raw. f_equal. unfold entity_record.
      cbn [e_key e_val e_pre opt_text]. unfold span_text. cbn [fst snd].
      assert (S1 : slice s (length K0) (length K0 + length key) = key).
      { replace s with (K0 ++ key ++ (b1 ++ sc :: b2 ++ raw ++ tb ++ eol nl) ++ xfile_text rest)
          by (unfold s, K0, C0; rewrite xfile_text_cons; cbn [xtext]; fold raw; norm_app; reflexivity).
        apply slice_mid. }
      assert (S2 : slice s (length V0) (length A0) = raw).
      { rewrite <- Ee, Hs. unfold A0. rewrite <- app_assoc. apply slice_mid. }
      rewrite S1, S2. f_equal.
      assert (Hcase : cs = [] \/ cs <> []) by (destruct cs; [left; reflexivity|right; discriminate]).
      destruct Hcase as [Ecs|Hne]; [rewrite Ecs; reflexivity|].
      rewrite !(match_ne cs) by exact Hne.
      cbn [option_map]. f_equal. cbn [fst snd].
      replace s with (C0 ++ cbody cs ++ [10%N] ++ (iw ++ key ++ b1 ++ sc :: b2 ++ raw ++ tb ++ eol nl) ++ xfile_text rest)
        by (unfold s, C0; rewrite xfile_text_cons; cbn [xtext]; fold raw; rewrite (ctext_body cs Hne);
            norm_app; reflexivity).
      apply slice_mid.
    + set (A0 := a ++ w ++ gtext gl).
      assert (Hs : s = A0 ++ [] ++ xfile_text rest).
      { unfold s, A0. rewrite xfile_text_cons. cbn [xtext]. norm_app. reflexivity. }
      assert (El : length a + length w + length (gtext gl) = length A0)
        by (unfold A0; rewrite !app_length; lia).
      destruct (IH A0 []) as [I1 [I2 I3]]. rewrite <- Hs in I1, I2, I3.
      change (length (@nil N)) with 0 in I1, I2, I3.
      simpl xents. rewrite !filter_app, !flush_no by discriminate. rewrite El.
      cbn [app filter is_kind mk_junk e_kind map e_span]. rewrite I1, I2, I3.
      split; [reflexivity|split; [reflexivity|]]. cbn [xgarbage_of]. f_equal.
      assert (Hs' : s = (a ++ w) ++ gtext gl ++ xfile_text rest)
        by (rewrite Hs; unfold A0; norm_app; reflexivity).
      unfold span_text. cbn [fst snd]. rewrite <- El, <- app_length, Hs'. apply slice_mid.
    + set (G := gtext gl ++ lg).
      set (A0 := a ++ w ++ G).
      assert (Hs : s = A0 ++ [] ++ xfile_text rest).
      { unfold s, A0, G. rewrite xfile_text_cons. cbn [xtext]. norm_app. reflexivity. }
      assert (El : length a + length w + length G = length A0)
        by (unfold A0; rewrite !app_length; lia).
      destruct (IH A0 []) as [I1 [I2 I3]]. rewrite <- Hs in I1, I2, I3.
      change (length (@nil N)) with 0 in I1, I2, I3.
      simpl xents. fold G. rewrite !filter_app, !flush_no by discriminate. rewrite El.
      cbn [app filter is_kind mk_junk e_kind map e_span]. rewrite I1, I2, I3.
      split; [reflexivity|split; [reflexivity|]]. cbn [xgarbage_of]. fold G. f_equal.
      assert (Hs' : s = (a ++ w) ++ G ++ xfile_text rest)
        by (rewrite Hs; unfold A0; norm_app; reflexivity).
      unfold span_text. cbn [fst snd]. rewrite <- El, <- app_length, Hs'. apply slice_mid.
Qed.

(* the entities are exactly the records (key, raw value without the trailing blanks, attached
   comment), the standalone comments exactly the comment blocks, the Junk entries exactly the
   garbage regions, all in order *)
Theorem roundtrip_properties_x : forall bs : list xblock,
  Forall legal_xblock bs -> xadjacent_ok bs ->
  exists es, walk_properties (xfile_text bs) = Ok es /\ xviews (xfile_text bs) es bs.
Proof.
  intros bs Hleg Hadj. exists (xentries_of bs). split; [apply blocks_properties_x; auto|].
  exact (xents_views bs Hleg [] []).
Qed.
Print Assumptions roundtrip_properties_x.

(* the blocks of C02Blocks.v and the garbage regions of C02BlocksJunk.v are the special case
   without indentation and trailing blanks *)
Definition x_of_block (b : block) : xblock :=
  match b with
  | BBlank w => XBlank w
  | BComment cs => XComment cs true
  | BEntity cs key b1 sc b2 conts lastl nl => XEntity cs [] key b1 sc b2 conts lastl [] nl
  end.
Definition x_of_jblock (jb : jblock) : xblock :=
  match jb with JB b => x_of_block b | JG gl => XGarbage gl end.

Lemma x_of_jblock_text : forall bs, xfile_text (map x_of_jblock bs) = jfile_text bs.
Proof.
  induction bs as [|[[x|cs|cs key b1 sc b2 conts lastl nl]|gl] bs IH]; [reflexivity| | | |];
    rewrite map_cons, xfile_text_cons, jfile_text_cons, IH; cbn [x_of_jblock x_of_block xtext jtext text];
    reflexivity.
Qed.
