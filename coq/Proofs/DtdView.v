(* DTD: the entries [dcentries_of bs] are the view of the parser's output on the text of a
   legal block list without parameter-entity blocks, and on its entities the model's
   Entity.wrap (apply_wrap over the spans of the parse) is [wrap_dtd]. *)
From Coq Require Import ZArith NArith List Bool Arith Lia.
From CL Require Import Base.Sx Base.Res Base.Str Model.Entry Model.Parse Model.ParseFormats
                       Proofs.C02Roundtrip Proofs.C02BlocksRx Proofs.C02BlocksDtdRx
                       Proofs.C02BlocksDtdPeRx Proofs.C02BlocksDtd
                       Model.Channels Model.Serializer Proofs.ChannelsProofs Proofs.DtdShape
                       Proofs.DtdReparse Proofs.SerializerFinal.
From CL Require Proofs.C02Blocks Proofs.PropsShape Proofs.PropsView Proofs.PropsWrap.
Import ListNotations.
Local Open Scope nat_scope.
Local Arguments comment_text : simpl never.
Local Arguments decl_text : simpl never.
Local Arguments Nat.sub : simpl never.

Definition dview (s : str) (e : entry) : centry :=
  mkc (PropsView.ckind_of (e_kind e))
      (match e_kind e with
       | KComment => comment_val CDtd (all_text s e)
       | KWhitespace => []
       | _ => C02Blocks.opt_text s (e_key e)
       end)
      (all_text s e)
      (match e_kind e with KEntity => C02Blocks.opt_text s (e_val e) | _ => [] end) 0.

Lemma dview_flush (a w rest : str) :
  map (dview (a ++ w ++ rest)) (flush (length a) (length w)) = dflush w.
Proof.
  destruct w as [|c w']; [reflexivity|].
  change (flush (length a) (length (c :: w'))) with [mk_white (length a, length a + length (c :: w'))].
  cbn [map dflush]. unfold dview, mk_white, all_text, Entry.span_start. cbn [e_kind e_pre e_span fst snd PropsView.ckind_of].
  rewrite (slice_mid a (c :: w') rest). reflexivity.
Qed.

Lemma comment_val_dtd body : comment_val CDtd (comment_text body) = body.
Proof.
  unfold comment_val, comment_text, COPEN, CCLOSE. rewrite !app_length. cbn [length].
  replace (4 + (length body + 3) - 3) with (length (A [60;33;45;45]) + length body) by (cbn; lia).
  change ([60; 33; 45; 45]%N ++ body ++ [45; 45; 62]%N) with (A [60;33;45;45] ++ body ++ [45; 45; 62]%N).
  change 4 with (length (A [60;33;45;45])). apply slice_mid.
Qed.

Definition wrap_good_dtd (s : str) (e : entry) : Prop :=
  e_kind e = KEntity -> forall raw,
  apply_wrap s (PropsWrap.wrap_info_of e) (c_key (dview s e)) raw = wrap_dtd (dview s e) raw.

Lemma dflush_good s off w : Forall (wrap_good_dtd s) (flush off w).
Proof. destruct w; constructor; [intros H; discriminate|constructor]. Qed.

Lemma wrap_dtd_ent pre ws1 name ws2 q v ws3 raw :
  legal_blockb (BEntity pre ws1 name ws2 q v ws3) = true ->
  wrap_dtd (dent_centry pre ws1 name ws2 q v ws3) raw =
  Ok (literal name raw (dent_text pre ws1 name ws2 q raw ws3)).
Proof.
  intros Hl. destruct wrap_dtd_contract as [_ Hc].
  destruct (wrap_dtd (dent_centry pre ws1 name ws2 q v ws3) raw) as [e|t] eqn:E.
  - pose proof (Hc _ raw e pre ws1 name ws2 q v ws3 Hl eq_refl E) as Hs.
    unfold wrap_dtd in E. destruct (lastq_suffix _); [|discriminate]. inversion E; subst e.
    destruct (PropsShape.strip_fields _ _ Hs) as (_ & _ & K3 & _). cbn [c_text literal dent_centry] in K3.
    unfold literal. cbn [c_key dent_centry]. rewrite K3. reflexivity.
  - exfalso. unfold wrap_dtd in E. cbn [c_text dent_centry] in E.
    unfold legal_blockb in Hl. apply andb_true_iff in Hl. destruct Hl as [_ Hd]. unfold legal_decl in Hd.
    apply andb_true_iff in Hd. destruct Hd as [Hd D7]. apply andb_true_iff in Hd. destruct Hd as [_ D6].
    unfold legal_qval in D6. apply andb_true_iff in D6. destruct D6 as [Dq _].
    assert (Ht : dent_text pre ws1 name ws2 q v ws3 =
                 (pre_text pre ++ ENT ++ ws1 ++ name ++ ws2 ++ q :: v) ++ q :: ws3 ++ [62%N]).
    { unfold dent_text, decl_text. repeat (progress (rewrite <- ?app_assoc; cbn [app])). reflexivity. }
    rewrite Ht, (lastq_app _ q (ws3 ++ [62%N]) Dq (ws_noquote ws3 D7)) in E. discriminate.
Qed.

Lemma dcents_view : forall bs, Forall legal_block bs -> no_pe bs -> forall (a w : str),
  map (dview (a ++ w ++ file_text bs)) (ents (length a) (length w) bs) = dcents w bs /\
  Forall (wrap_good_dtd (a ++ w ++ file_text bs)) (ents (length a) (length w) bs).
Proof.
  induction bs as [|b rest IH]; intros Hleg Hpe a w.
  - cbn [ents dcents file_text map concat]. split; [apply dview_flush|apply dflush_good].
  - inversion Hleg as [|b' rest' Hb Hrest]; subst b' rest'. inversion Hpe as [|? ? Hpb Hpr]; subst.
    specialize (IH Hrest Hpr). rewrite file_text_cons.
    destruct b as [x|body|pre ws1 name ws2 q v ws3|d]; [| | |contradiction].
    + cbn [ents dcents text]. rewrite <- app_length.
      replace (a ++ w ++ x ++ file_text rest) with (a ++ (w ++ x) ++ file_text rest)
        by (rewrite <- !app_assoc; reflexivity).
      apply IH.
    + set (A0 := a ++ w ++ comment_text body).
      assert (Hs : a ++ w ++ text (BComment body) ++ file_text rest = A0 ++ [] ++ file_text rest).
      { unfold A0. cbn [text]. rewrite <- !app_assoc. reflexivity. }
      assert (El : length a + length w + length (comment_text body) = length A0)
        by (unfold A0; rewrite !app_length; lia).
      destruct (IH A0 []) as [I1 I2]. rewrite <- Hs in I1, I2. change (length (@nil N)) with 0 in I1, I2.
      cbn [ents dcents]. rewrite El. split.
      * rewrite map_app. f_equal; [apply dview_flush|]. cbn [map]. f_equal; [|exact I1].
        unfold dview, mk_comment, all_text, Entry.span_start, dcom_centry. cbn [e_kind e_pre e_span fst snd PropsView.ckind_of].
        assert (Sl : slice (a ++ w ++ text (BComment body) ++ file_text rest) (length a + length w) (length A0)
                     = comment_text body).
        { cbn [text]. replace (a ++ w ++ comment_text body ++ file_text rest)
            with ((a ++ w) ++ comment_text body ++ file_text rest) by (rewrite <- !app_assoc; reflexivity).
          apply slice_at; [rewrite app_length; reflexivity|rewrite <- El, app_length; lia]. }
        rewrite Sl, comment_val_dtd. reflexivity.
      * apply Forall_app. split; [apply dflush_good|]. constructor; [intros H; discriminate|exact I2].
    + set (D := decl_text ws1 name ws2 q v ws3).
      set (K0 := a ++ w ++ pre_text pre).
      set (A0 := K0 ++ D).
      set (s := a ++ w ++ text (BEntity pre ws1 name ws2 q v ws3) ++ file_text rest).
      assert (Hs : s = A0 ++ [] ++ file_text rest).
      { unfold s, A0, K0, D. cbn [text]. repeat (progress (rewrite <- ?app_assoc; cbn [app])). reflexivity. }
      assert (Ek : length a + length w + length (pre_text pre) = length K0)
        by (unfold K0; rewrite !app_length; lia).
      assert (El : key_end ws1 name ws2 v ws3 (length a + length w + length (pre_text pre)) = length A0).
      { unfold A0, D. rewrite <- (decl_text_length ws1 name ws2 q v ws3), Ek, !app_length. lia. }
      destruct (IH A0 []) as [I1 I2]. rewrite <- Hs in I1, I2. change (length (@nil N)) with 0 in I1, I2.
      cbn [ents dcents]. rewrite El.
      set (P0 := K0 ++ ENT ++ ws1 ++ name ++ ws2 ++ [q]).
      assert (Es : s = P0 ++ v ++ (q :: ws3 ++ 62%N :: file_text rest)).
      { unfold s, P0, K0. cbn [text]. fold D. unfold D. rewrite <- app_assoc, decl_text_app.
        repeat (progress (rewrite <- ?app_assoc; cbn [app])). reflexivity. }
      assert (Lp : length P0 = length a + length w + length (pre_text pre) + 8 + length ws1 + length name + length ws2 + 1).
      { unfold P0. rewrite !app_length, <- Ek. unfold ENT. cbn [length]. lia. }
      assert (Sname : slice s (length a + length w + length (pre_text pre) + 8 + length ws1)
                        (length a + length w + length (pre_text pre) + 8 + length ws1 + length name) = name).
      { unfold s. cbn [text]. fold D. unfold D. rewrite <- app_assoc, decl_text_app.
        replace (a ++ w ++ pre_text pre ++ ENT ++ ws1 ++ name ++ ws2 ++ q :: v ++ q :: ws3 ++ 62%N :: file_text rest)
          with ((K0 ++ ENT ++ ws1) ++ name ++ (ws2 ++ q :: v ++ q :: ws3 ++ 62%N :: file_text rest))
          by (unfold K0; repeat (progress (rewrite <- ?app_assoc; cbn [app])); reflexivity).
        apply slice_at; rewrite !app_length, <- Ek; unfold ENT; simpl length; lia. }
      assert (Sval : slice s (length P0) (length P0 + length v) = v) by (rewrite Es; apply slice_mid).
      assert (Sall : slice s (length a + length w) (length A0) = dent_text pre ws1 name ws2 q v ws3).
      { rewrite Hs. unfold A0, K0, dent_text. fold D.
        replace ((a ++ w ++ pre_text pre) ++ D) with ((a ++ w) ++ pre_text pre ++ D) by (rewrite <- !app_assoc; reflexivity).
        rewrite <- app_assoc. apply slice_at; [rewrite app_length; reflexivity|rewrite !app_length; lia]. }
      assert (Hstart : Entry.span_start (entity_entry (length a + length w) pre ws1 name ws2 v ws3) = length a + length w).
      { unfold Entry.span_start, entity_entry. cbn [e_pre e_span fst]. destruct pre as [[body iw]|]; cbn [fst]; [reflexivity|].
        cbn [pre_text length]. lia. }
      assert (Hview : dview s (entity_entry (length a + length w) pre ws1 name ws2 v ws3) =
                      dent_centry pre ws1 name ws2 q v ws3).
      { unfold dview, all_text. rewrite Hstart.
        unfold entity_entry. cbn [e_kind e_key e_val e_span snd PropsView.ckind_of C02Blocks.opt_text].
        unfold C02Blocks.span_text. cbn [fst snd]. rewrite El, Sall, Sname.
        replace (length a + length w + length (pre_text pre) + 8 + length ws1 + length name + length ws2 + 1)
          with (length P0) by lia.
        rewrite Sval. reflexivity. }
      split.
      * rewrite map_app. f_equal; [unfold s; apply dview_flush|]. cbn [map]. fold s. rewrite Hview. f_equal. exact I1.
      * apply Forall_app. split; [apply dflush_good|]. constructor; [|exact I2].
        intros _ raw. fold s. rewrite Hview, (wrap_dtd_ent pre ws1 name ws2 q v ws3 raw Hb). cbn [c_key dent_centry].
        unfold apply_wrap, PropsWrap.wrap_info_of, entity_entry. cbn [e_span e_val e_pre option_map].
        assert (Hlen : length A0 <= length s) by (rewrite Hs, app_length; lia).
        f_equal. f_equal.
        assert (Hst : Serializer.span_start
                        (PropsWrap.zs (length a + length w + length (pre_text pre),
                                       key_end ws1 name ws2 v ws3 (length a + length w + length (pre_text pre))))
                        (option_map PropsWrap.zs
                           match pre with
                           | Some (body, _) => Some (length a + length w, length a + length w + length (comment_text body))
                           | None => None
                           end) = Z.of_nat (length a + length w)).
        { destruct pre as [[body iw]|]; cbn [option_map Serializer.span_start PropsWrap.zs fst snd]; [reflexivity|].
          cbn [pre_text length]. f_equal. lia. }
        rewrite Hst. cbn [PropsWrap.zs fst snd]. rewrite El.
        replace (length a + length w + length (pre_text pre) + 8 + length ws1 + length name + length ws2 + 1)
          with (length P0) by lia.
        assert (Bp : length P0 + length v <= length s) by (rewrite Es, !app_length; lia).
        assert (Bq : length P0 <= length s) by lia.
        assert (Ba : length a + length w <= length s) by (rewrite Lp in Bq; lia).
        rewrite !PropsWrap.pyslice_nat by lia.
        assert (Sp : slice s (length a + length w) (length P0) =
                     pre_text pre ++ ENT ++ ws1 ++ name ++ ws2 ++ [q]).
        { rewrite Es. unfold P0, K0.
          replace ((a ++ w ++ pre_text pre) ++ ENT ++ ws1 ++ name ++ ws2 ++ [q])
            with ((a ++ w) ++ pre_text pre ++ ENT ++ ws1 ++ name ++ ws2 ++ [q]) by (rewrite <- !app_assoc; reflexivity).
          rewrite <- app_assoc.
          apply slice_at; [rewrite app_length; reflexivity|]. rewrite !app_length. cbn [length]. lia. }
        assert (Sq : slice s (length P0 + length v) (length A0) = q :: ws3 ++ [62%N]).
        { rewrite Es. replace (P0 ++ v ++ q :: ws3 ++ 62%N :: file_text rest)
            with ((P0 ++ v) ++ (q :: ws3 ++ [62%N]) ++ file_text rest)
            by (repeat (progress (rewrite <- ?app_assoc; cbn [app])); reflexivity).
          apply slice_at; [rewrite app_length; reflexivity|].
          rewrite <- El. unfold key_end. rewrite !app_length. cbn [length]. rewrite ?app_length. cbn [length]. rewrite Lp. lia. }
        rewrite Sp, Sq. unfold dent_text, decl_text. repeat (progress (rewrite <- ?app_assoc; cbn [app])). reflexivity.
Qed.

(* the entries of the parse of a legal file, as the models see them *)
Theorem dcentries_view : forall bs, Forall legal_block bs -> no_pe bs -> adjacent_ok bs ->
  exists es, walk_dtd (file_text bs) = Ok es /\ map (dview (file_text bs)) es = dcentries_of bs.
Proof.
  intros bs Hl Hp Ha. exists (entries_of bs). split; [apply blocks_dtd; assumption|].
  exact (proj1 (dcents_view bs Hl Hp [] [])).
Qed.

(* on the entities of the parse of a legal file, the model's Entity.wrap is wrap_dtd *)
Theorem wrap_view_dtd : forall bs, Forall legal_block bs -> no_pe bs ->
  forall e, In e (entries_of bs) -> e_kind e = KEntity -> forall raw,
  apply_wrap (file_text bs) (PropsWrap.wrap_info_of e) (c_key (dview (file_text bs) e)) raw =
  wrap_dtd (dview (file_text bs) e) raw.
Proof.
  intros bs Hl Hp e He Hk raw. pose proof (proj2 (dcents_view bs Hl Hp [] [])) as H. cbn [app length] in H.
  rewrite Forall_forall in H. apply (H e He Hk raw).
Qed.
