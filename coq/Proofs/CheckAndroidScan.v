(* finditer / sub for a regular expression whose match at a position is decided
   by a function of the remaining text alone, always consumes, and records no
   group: the engine's answers are the obvious left-to-right scan.  Used for the
   three group-free expressions of check_apostrophes (C09). *)
From Coq Require Import NArith List Bool Arith Lia.
From CL Require Import Base.Res Base.Str Regex.Rx Regex.RxLemmas Model.CheckAndroid.
Import ListNotations.

Definition mk_res (p : nat * nat) : mres := mkres (fst p) (snd p) [].

Section Local.
Variable r : rx.
Variable step : list N -> option nat.
Hypothesis step_bound : forall l n, step l = Some n -> 1 <= n /\ n <= length l.
Hypothesis run_local : forall z, caps z = [] ->
  run_at r z (fun _ => true) =
  match step (suf z) with
  | Some n => MSome (mkres (pos z) (pos z + n) [])
  | None => MNone
  end.

Lemma step_nil : step [] = None.
Proof.
  destruct (step []) as [n|] eqn:E; auto. apply step_bound in E. simpl in E. lia.
Qed.

Fixpoint first_match (l : list N) (off : nat) : option (nat * nat) :=
  match step l with
  | Some n => Some (off, off + n)
  | None => match l with [] => None | _ :: t => first_match t (S off) end
  end.

Lemma first_match_eq : forall l off,
  first_match l off =
  match step l with
  | Some n => Some (off, off + n)
  | None => match l with [] => None | _ :: t => first_match t (S off) end
  end.
Proof. destruct l; reflexivity. Qed.

Lemma first_match_bounds : forall l off a b, first_match l off = Some (a, b) ->
  off <= a /\ a < b /\ b <= off + length l.
Proof.
  induction l as [|c t IH]; intros off a b H; rewrite first_match_eq in H.
  - rewrite step_nil in H. discriminate.
  - destruct (step (c :: t)) as [n|] eqn:E.
    + inversion H; subst. apply step_bound in E. simpl in *. lia.
    + apply IH in H. simpl. lia.
Qed.

(* the scan, by structural recursion; [skip] characters are still inside the
   previous match *)
Fixpoint scan (l : list N) (off skip : nat) : list (nat * nat) :=
  match l with
  | [] => []
  | _ :: t =>
      match skip with
      | S k => scan t (S off) k
      | O => match step l with
             | Some n => (off, off + n) :: scan t (S off) (n - 1)
             | None => scan t (S off) 0
             end
      end
  end.

Lemma scan_skip : forall k l off, k <= length l -> scan l off k = scan (skipn k l) (off + k) 0.
Proof.
  induction k as [|k IH]; intros l off H.
  - simpl. rewrite Nat.add_0_r. reflexivity.
  - destruct l as [|c t]; simpl in H; [lia|]. simpl. rewrite IH by lia.
    f_equal. lia.
Qed.

Lemma scan_unfold : forall l off,
  scan l off 0 =
  match first_match l off with
  | None => []
  | Some (a, b) => (a, b) :: scan (skipn (b - off) l) b 0
  end.
Proof.
  induction l as [|c t IH]; intro off; rewrite first_match_eq.
  - rewrite step_nil. reflexivity.
  - simpl scan. destruct (step (c :: t)) as [n|] eqn:E.
    + apply step_bound in E. simpl in E. destruct n as [|n]; [lia|].
      replace (off + S n - off) with (S n) by lia. simpl skipn.
      replace (S n - 1) with n by lia. rewrite scan_skip by lia. f_equal. f_equal; lia.
    + rewrite IH. destruct (first_match t (S off)) as [[a b]|] eqn:F; auto.
      apply first_match_bounds in F.
      replace (b - off) with (S (b - S off)) by lia. reflexivity.
Qed.

(* ---- search ------------------------------------------------------------------ *)
Lemma search_local : forall fuel z, caps z = [] -> length (suf z) < fuel ->
  search_from r fuel z None =
  match first_match (suf z) (pos z) with
  | Some p => MSome (mk_res p)
  | None => MNone
  end.
Proof.
  induction fuel as [|f IH]; intros z Hc Hf; [lia|].
  rewrite search_from_S.
  change (run_at r z (fun s' => match @None nat with
                                | Some p => negb (Nat.eqb (pos z) p && Nat.eqb (pos s') p)
                                | None => true
                                end))
    with (run_at r z (fun _ => true)).
  rewrite (run_local z Hc), first_match_eq.
  destruct (step (suf z)) as [n|] eqn:E; [reflexivity|].
  destruct (suf z) as [|c t] eqn:Hs; [reflexivity|].
  rewrite (IH (advance z c t)); simpl; auto. simpl in Hf. lia.
Qed.

Lemma fwd_full : forall n z, n <= length (suf z) ->
  suf (fwd n z) = skipn n (suf z) /\ pos (fwd n z) = pos z + n /\ caps (fwd n z) = caps z.
Proof.
  induction n as [|n IH]; intros z H; simpl.
  - repeat split. lia.
  - destruct (suf z) as [|c t] eqn:Hs; simpl in H; [lia|].
    destruct (IH (advance z c t)) as [H1 [H2 H3]]; simpl; [lia|].
    rewrite H1, H2, H3. simpl. repeat split. lia.
Qed.

Lemma finditer_local : forall fuel z, caps z = [] -> length (suf z) < fuel ->
  finditer_from r fuel z None = Some (map mk_res (scan (suf z) (pos z) 0)).
Proof.
  induction fuel as [|f IH]; intros z Hc Hf; [lia|].
  rewrite finditer_from_S, search_local by (auto; lia).
  rewrite scan_unfold.
  destruct (first_match (suf z) (pos z)) as [[a b]|] eqn:F; [|reflexivity].
  apply first_match_bounds in F. simpl m_end. simpl m_start.
  assert (Hz : mkst (pre z) (suf z) (pos z) [] = z).
  { destruct z; simpl in *; subst; reflexivity. }
  rewrite Hz.
  destruct (fwd_full (b - pos z) z) as [H1 [H2 H3]]; [lia|].
  replace (Nat.eqb a b) with false by (symmetry; apply Nat.eqb_neq; lia).
  rewrite IH.
  - rewrite H1, H2. replace (pos z + (b - pos z)) with b by lia. reflexivity.
  - rewrite H3. exact Hc.
  - rewrite H1, skipn_length. lia.
Qed.

Theorem rfinditer_local : forall s, rfinditer r s = Some (map mk_res (scan s 0 0)).
Proof.
  intro s. unfold rfinditer. rewrite finditer_local; simpl; auto. lia.
Qed.

(* ---- substitution ---------------------------------------------------------------- *)
Variable repl : str.

Fixpoint subst (l : str) (skip : nat) : str :=
  match l with
  | [] => []
  | c :: t =>
      match skip with
      | S k => subst t k
      | O => match step l with
             | Some n => repl ++ subst t (n - 1)
             | None => c :: subst t 0
             end
      end
  end.

Lemma slice_same : forall (s : str) p, slice s p p = [].
Proof. intros. unfold slice. rewrite Nat.sub_diag. reflexivity. Qed.

Lemma slice_snoc : forall (pre : str) c t p, p <= length pre ->
  slice (pre ++ c :: t) p (S (length pre)) = slice (pre ++ c :: t) p (length pre) ++ [c].
Proof.
  intros pre c t p H. unfold slice.
  rewrite skipn_app. replace (p - length pre) with 0 by lia. simpl skipn.
  assert (Hl : length (skipn p pre) = length pre - p) by apply skipn_length.
  rewrite !firstn_app, Hl.
  replace (S (length pre) - p - (length pre - p)) with 1 by lia.
  rewrite Nat.sub_diag.
  rewrite (firstn_all2 (skipn p pre)) by lia. rewrite (firstn_all2 (skipn p pre)) by lia.
  simpl. rewrite app_nil_r. reflexivity.
Qed.

Lemma sub_scan : forall l pre,
  (forall p, p <= length pre ->
     sub_spans repl (pre ++ l) p (map mk_res (scan l (length pre) 0)) =
     slice (pre ++ l) p (length pre) ++ subst l 0) /\
  (forall k, 0 < k -> k <= length l ->
     sub_spans repl (pre ++ l) (length pre + k) (map mk_res (scan l (length pre) k)) = subst l k).
Proof.
  induction l as [|c t IH]; intro pre.
  - split.
    + intros p Hp. simpl. rewrite !app_nil_r. unfold slice.
      rewrite firstn_all2; auto. rewrite skipn_length. lia.
    + intros k H1 H2. simpl in H2. lia.
  - assert (Hpre : pre ++ c :: t = (pre ++ [c]) ++ t) by (rewrite <- app_assoc; reflexivity).
    assert (Hlen : length (pre ++ [c]) = S (length pre)) by (rewrite app_length; simpl; lia).
    destruct (IH (pre ++ [c])) as [IH1 IH2]. rewrite Hlen in IH1, IH2. rewrite <- Hpre in IH1, IH2.
    assert (Hafter : forall k, k <= length t ->
              sub_spans repl (pre ++ c :: t) (S (length pre) + k)
                (map mk_res (scan t (S (length pre)) k)) = subst t k).
    { intros k Hk. destruct k as [|k].
      - rewrite Nat.add_0_r, IH1 by lia. rewrite slice_same. reflexivity.
      - apply IH2; lia. }
    split.
    + intros p Hp. simpl scan. simpl subst.
      destruct (step (c :: t)) as [n|] eqn:E.
      * apply step_bound in E. simpl in E. simpl map. simpl sub_spans.
        replace (length pre + n) with (S (length pre) + (n - 1)) by lia.
        rewrite Hafter by lia. reflexivity.
      * rewrite IH1 by lia. rewrite slice_snoc by lia. rewrite <- app_assoc. reflexivity.
    + intros k H1 H2. destruct k as [|k]; [lia|]. simpl in H2. simpl scan. simpl subst.
      replace (length pre + S k) with (S (length pre) + k) by lia.
      apply Hafter. lia.
Qed.

Theorem sub_local : forall s, sub_spans repl s 0 (map mk_res (scan s 0 0)) = subst s 0.
Proof.
  intro s. destruct (sub_scan s []) as [H _]. simpl in H.
  apply H. lia.
Qed.

End Local.
