From Coq Require Import ZArith List Bool Lia ZifyBool Permutation Sorted.
From CL Require Import Base.Sx Base.Res Model.AddRemove.
Import ListNotations.
Open Scope Z_scope.

Section Proofs.
Context {K : Type} (eqb : K -> K -> bool).
Hypothesis eqb_eq : forall a b, eqb a b = true <-> a = b.

Notation dset := (dset eqb).
Notation dget := (dget eqb).
Notation mem := (mem eqb).

Lemma eqb_refl a : eqb a a = true.
Proof. apply eqb_eq; reflexivity. Qed.

Lemma eqb_neq a b : eqb a b = false <-> a <> b.
Proof.
  split; intros H.
  - intros ->. rewrite eqb_refl in H. discriminate.
  - destruct (eqb a b) eqn:E; [|reflexivity]. apply eqb_eq in E. contradiction.
Qed.

Lemma mem_In k l : mem k l = true <-> In k l.
Proof.
  induction l as [|x l IH]; cbn.
  - split; [discriminate|tauto].
  - rewrite orb_true_iff, IH, eqb_eq. split; intros [H|H]; auto.
Qed.

Lemma mem_nIn k l : mem k l = false <-> ~ In k l.
Proof.
  rewrite <- mem_In. destruct (mem k l); split; intros H; try congruence; try reflexivity.
Qed.

Definition keys (m : list (K * ord)) : list K := map fst m.

(* the key sequence of a dict after inserting the items of a list *)
Fixpoint addnew (acc : list K) (l : list K) : list K :=
  match l with
  | [] => acc
  | x :: l' => addnew (if mem x acc then acc else acc ++ [x]) l'
  end.

Lemma keys_dset k v m :
  keys (dset k v m) = if mem k (keys m) then keys m else keys m ++ [k].
Proof.
  induction m as [|[k' v'] m IH]; cbn; [reflexivity|].
  destruct (eqb k k') eqn:E; cbn; [reflexivity|].
  unfold keys in *. rewrite IH. destruct (mem k (map fst m)); reflexivity.
Qed.

Lemma dget_mem k m : (exists v, dget k m = Some v) <-> mem k (keys m) = true.
Proof.
  induction m as [|[k' v'] m IH]; cbn.
  - split; [intros [v H]; discriminate|discriminate].
  - destruct (eqb k k'); cbn; [split; eauto|exact IH].
Qed.

Lemma dget_none k m : dget k m = None <-> mem k (keys m) = false.
Proof.
  pose proof (dget_mem k m) as H. destruct (dget k m) eqn:E.
  - split; [discriminate|]. intros Hm. destruct H as [H _].
    rewrite H in Hm; [discriminate|eauto].
  - split; [|reflexivity]. intros _. destruct (mem k (keys m)); [|reflexivity].
    destruct H as [_ H]. destruct (H eq_refl) as [v Hv]. discriminate.
Qed.

Lemma keys_build_left i l m :
  keys (build_left eqb i l m) = addnew (keys m) l.
Proof.
  revert i m; induction l as [|x l IH]; intros i m; cbn; [reflexivity|].
  rewrite IH, keys_dset. reflexivity.
Qed.

Lemma keys_build_right i off r m :
  keys (build_right eqb i off r m) = addnew (keys m) r.
Proof.
  revert i off m; induction r as [|x r IH]; intros i off m; cbn; [reflexivity|].
  destruct (dget x m) as [[li ri]|] eqn:E.
  - rewrite IH. assert (mem x (keys m) = true) as -> by (apply dget_mem; eauto).
    reflexivity.
  - rewrite IH, keys_dset. apply dget_none in E. rewrite E. reflexivity.
Qed.

Lemma keys_order_map l r : keys (order_map eqb l r) = addnew (addnew [] l) r.
Proof. unfold order_map. rewrite keys_build_right, keys_build_left. reflexivity. Qed.

Lemma addnew_nodup acc l :
  NoDup (acc ++ l) -> addnew acc l = acc ++ l.
Proof.
  revert acc; induction l as [|x l IH]; intros acc H; cbn.
  - rewrite app_nil_r; reflexivity.
  - assert (mem x acc = false) as ->.
    { apply mem_nIn. intros Hin. apply NoDup_remove_2 in H. apply H.
      apply in_or_app; left; exact Hin. }
    rewrite IH; rewrite <- app_assoc; cbn; [reflexivity|exact H].
Qed.

Lemma addnew_filter acc r :
  NoDup r ->
  addnew acc r = acc ++ filter (fun y => negb (mem y acc)) r.
Proof.
  revert acc; induction r as [|x r IH]; intros acc H; cbn.
  - rewrite app_nil_r; reflexivity.
  - inversion H as [|? ? Hx Hr]; subst.
    destruct (mem x acc) eqn:E; cbn.
    + apply IH; exact Hr.
    + rewrite IH by exact Hr. rewrite <- app_assoc. cbn. f_equal. f_equal.
      apply filter_ext_in. intros y Hy. f_equal.
      assert (y <> x) by (intros ->; contradiction).
      clear -H0 eqb_eq. induction acc as [|a acc IHa]; cbn.
      * assert (eqb y x = false) as -> by (apply eqb_neq; exact H0). reflexivity.
      * rewrite IHa. reflexivity.
Qed.

(* ---- the sort ---------------------------------------------------------- *)
Definition ord_le (a b : ord) : Prop := ord_ltb b a = false.

Lemma ord_ltb_spec a b :
  ord_ltb a b = true <-> (fst a < fst b \/ (fst a = fst b /\ snd a < snd b)).
Proof. unfold ord_ltb. lia. Qed.

Lemma ord_le_spec a b :
  ord_le a b <-> (fst a < fst b \/ (fst a = fst b /\ snd a <= snd b)).
Proof. unfold ord_le, ord_ltb. lia. Qed.

Lemma ord_le_trans a b c : ord_le a b -> ord_le b c -> ord_le a c.
Proof. rewrite !ord_le_spec. lia. Qed.

Definition ent_le (x y : K * ord) : Prop := ord_le (snd x) (snd y).

Lemma insert_perm (x : K * ord) s : Permutation (insert x s) (x :: s).
Proof.
  induction s as [|y s IH]; cbn; [reflexivity|].
  destruct (ord_ltb (snd y) (snd x)); [|reflexivity].
  rewrite IH. apply perm_swap.
Qed.

Lemma sort_perm (m : list (K * ord)) : Permutation (sort m) m.
Proof.
  induction m as [|x m IH]; cbn; [reflexivity|].
  rewrite insert_perm. constructor. exact IH.
Qed.

Lemma insert_sorted (x : K * ord) s :
  StronglySorted ent_le s -> StronglySorted ent_le (insert x s).
Proof.
  induction s as [|y s IH]; intros Hs; cbn.
  - constructor; constructor.
  - inversion Hs as [|? ? Hs' Hy]; subst.
    destruct (ord_ltb (snd y) (snd x)) eqn:E.
    + constructor; [apply IH; exact Hs'|].
      eapply Permutation_Forall; [symmetry; apply insert_perm|].
      constructor; [|exact Hy].
      unfold ent_le. apply ord_le_spec. apply ord_ltb_spec in E. lia.
    + constructor; [exact Hs|]. constructor; [exact E|].
      eapply Forall_impl; [|exact Hy]. intros z Hz.
      eapply ord_le_trans; [exact E|exact Hz].
Qed.

Lemma sort_sorted (m : list (K * ord)) : StronglySorted ent_le (sort m).
Proof.
  induction m as [|x m IH]; cbn; [constructor|]. apply insert_sorted; exact IH.
Qed.

(* ---- labels ------------------------------------------------------------ *)
Lemma label_of_spec l r k :
  match label_of eqb l r k with
  | Equal => In k l /\ In k r
  | Delete => In k l /\ ~ In k r
  | Add => ~ In k l
  end.
Proof.
  unfold label_of. destruct (mem k l) eqn:El; [destruct (mem k r) eqn:Er|].
  - split; apply mem_In; assumption.
  - split; [apply mem_In|apply mem_nIn]; assumption.
  - apply mem_nIn; assumption.
Qed.

Lemma addremove_keys l r :
  map snd (addremove eqb l r) = keys (sort (order_map eqb l r)).
Proof. unfold addremove, keys. rewrite map_map. reflexivity. Qed.

Lemma addremove_labels l r lab k :
  In (lab, k) (addremove eqb l r) -> lab = label_of eqb l r k.
Proof.
  unfold addremove. rewrite in_map_iff. intros [[k' o] [H _]]. cbn in H.
  inversion H; reflexivity.
Qed.

Lemma NoDup_app_disjoint (l f : list K) :
  NoDup l -> NoDup f -> (forall y, In y l -> ~ In y f) -> NoDup (l ++ f).
Proof.
  intros Hl Hf Hd. induction Hl as [|a l' Ha Hl' IH]; [exact Hf|].
  cbn. constructor.
  - intros Hin. apply in_app_or in Hin. destruct Hin as [Hin|Hin]; [contradiction|].
    apply (Hd a); [left; reflexivity|exact Hin].
  - apply IH. intros y Hy. apply Hd. right; exact Hy.
Qed.

Theorem addremove_once l r :
  NoDup l -> NoDup r ->
  Permutation (map snd (addremove eqb l r))
              (l ++ filter (fun y => negb (mem y l)) r)
  /\ NoDup (map snd (addremove eqb l r)).
Proof.
  intros Hl Hr.
  assert (Hk : keys (order_map eqb l r) = l ++ filter (fun y => negb (mem y l)) r).
  { rewrite keys_order_map. rewrite (addnew_nodup [] l) by exact Hl.
    cbn. apply addnew_filter; exact Hr. }
  assert (Hp : Permutation (map snd (addremove eqb l r))
                           (l ++ filter (fun y => negb (mem y l)) r)).
  { rewrite addremove_keys. unfold keys. rewrite (sort_perm (order_map eqb l r)).
    fold (keys (order_map eqb l r)). rewrite Hk. reflexivity. }
  split; [exact Hp|].
  eapply Permutation_NoDup; [symmetry; exact Hp|].
  apply NoDup_app_disjoint; [exact Hl|apply NoDup_filter; exact Hr|].
  intros y Hy Hf. apply filter_In in Hf. destruct Hf as [_ Hf].
  apply mem_In in Hy. rewrite Hy in Hf. discriminate.
Qed.

Theorem addremove_sorted l r :
  StronglySorted ent_le (sort (order_map eqb l r)).
Proof. apply sort_sorted. Qed.

(* ---- KeyedTuple -------------------------------------------------------- *)
Context {E : Type} (key : E -> K).
Notation kt_index_from := (kt_index_from eqb key).

(* the last entity with key k, by direct recursion *)
Fixpoint last_with (k : K) (items : list E) : option E :=
  match items with
  | [] => None
  | e :: items' =>
      match last_with k items' with
      | Some e' => Some e'
      | None => if eqb k (key e) then Some e else None
      end
  end.

Lemma kt_index_from_last i k items :
  match kt_index_from i k items with
  | Some j => (i <= j)%nat /\ nth_error items (j - i) = last_with k items
              /\ last_with k items <> None
  | None => last_with k items = None
  end.
Proof.
  revert i; induction items as [|e items IH]; intros i; cbn; [reflexivity|].
  specialize (IH (S i)).
  destruct (kt_index_from (S i) k items) as [j|].
  - destruct IH as (Hle & Hn & Hne). split; [lia|].
    replace (j - i)%nat with (S (j - S i)) by lia. cbn. rewrite Hn.
    destruct (last_with k items); [auto|contradiction].
  - rewrite IH. destruct (eqb k (key e)); [|reflexivity].
    split; [lia|]. rewrite Nat.sub_diag. cbn. split; [reflexivity|discriminate].
Qed.

Lemma kt_getitem_last k items :
  kt_getitem eqb key k items =
  match last_with k items with Some e => Ok e | None => Raise TypeError end.
Proof.
  unfold kt_getitem, kt_index. pose proof (kt_index_from_last 0 k items) as H.
  destruct (AddRemove.kt_index_from eqb key 0 k items) as [j|].
  - destruct H as (_ & Hn & Hne). rewrite Nat.sub_0_r in Hn. rewrite Hn.
    destruct (last_with k items); [reflexivity|contradiction].
  - rewrite H. reflexivity.
Qed.

Lemma last_with_spec k items e :
  last_with k items = Some e <->
  exists pre post, items = pre ++ e :: post /\ key e = k /\
                   Forall (fun e' => key e' <> k) post.
Proof.
  revert e; induction items as [|a items IH]; intros e; cbn.
  - split; [discriminate|]. intros (pre & post & H & _). destruct pre; discriminate.
  - destruct (last_with k items) as [e'|] eqn:El.
    + split.
      * intros H; inversion H; subst.
        destruct (proj1 (IH e) eq_refl) as (pre & post & Heq & Hk & Hp).
        exists (a :: pre), post. rewrite Heq. auto.
      * intros (pre & post & Heq & Hk & Hp).
        destruct (proj1 (IH e') eq_refl) as (pre' & post' & Heq' & Hk' & Hp').
        destruct pre as [|p pre]; cbn in Heq; inversion Heq; subst.
        -- exfalso. rewrite Forall_forall in Hp. apply (Hp e'); [|exact Hk'].
           apply in_or_app; right; left; reflexivity.
        -- apply (proj2 (IH e)). exists pre, post. auto.
    + destruct (eqb k (key a)) eqn:Ek.
      * apply eqb_eq in Ek. split.
        -- intros H; inversion H; subst. exists [], items. repeat split; auto.
           rewrite Forall_forall. intros e' He' Hk'.
           apply in_split in He'. destruct He' as (p1 & p2 & ->).
           clear IH. induction p1 as [|b p1 IHp]; cbn in El.
           ++ destruct (last_with (key e) p2); [discriminate|].
              rewrite Hk', eqb_refl in El. discriminate.
           ++ destruct (last_with (key e) (p1 ++ e' :: p2)); [discriminate|].
              apply IHp; reflexivity.
        -- intros (pre & post & Heq & Hk & Hp).
           destruct pre as [|p pre]; cbn in Heq; inversion Heq; subst; [reflexivity|].
           exfalso. assert (@None E = Some e) as Hc; [|discriminate].
           apply IH. exists pre, post. auto.
      * split; [discriminate|]. intros (pre & post & Heq & Hk & Hp).
        destruct pre as [|p pre]; cbn in Heq; inversion Heq; subst.
        -- rewrite eqb_refl in Ek. discriminate.
        -- exfalso. assert (@None E = Some e) as Hc; [|discriminate].
           apply IH. exists pre, post. auto.
Qed.

Theorem kt_getitem_spec k items e :
  kt_getitem eqb key k items = Ok e <->
  exists pre post, items = pre ++ e :: post /\ key e = k /\
                   Forall (fun e' => key e' <> k) post.
Proof.
  rewrite kt_getitem_last, <- last_with_spec.
  destruct (last_with k items); split; intros H; inversion H; reflexivity.
Qed.

Theorem kt_contains_spec k items :
  kt_contains eqb key k items = true <-> In k (map key items).
Proof.
  unfold kt_contains, kt_index. pose proof (kt_index_from_last 0 k items) as H.
  destruct (AddRemove.kt_index_from eqb key 0 k items) as [j|].
  - destruct H as (_ & _ & Hne). split; [intros _|reflexivity].
    destruct (last_with k items) as [e|] eqn:El; [|contradiction].
    apply last_with_spec in El. destruct El as (pre & post & -> & Hk & _).
    rewrite map_app. apply in_or_app; right; left; exact Hk.
  - split; [discriminate|]. intros Hin. exfalso.
    apply in_map_iff in Hin. destruct Hin as (e & Hk & He).
    apply in_split in He. destruct He as (p1 & p2 & ->).
    clear -H Hk eqb_eq. induction p1 as [|b p1 IHp]; cbn in H.
    + destruct (last_with k p2); [discriminate|].
      rewrite Hk, eqb_refl in H. discriminate.
    + destruct (last_with k (p1 ++ e :: p2)); [discriminate|]. apply IHp; reflexivity.
Qed.

Theorem kt_getitem_total k items :
  In k (map key items) -> exists e, kt_getitem eqb key k items = Ok e.
Proof.
  intros Hin. apply kt_contains_spec in Hin. unfold kt_contains in Hin.
  unfold kt_getitem. pose proof (kt_index_from_last 0 k items) as H. unfold kt_index in *.
  destruct (AddRemove.kt_index_from eqb key 0 k items) as [j|]; [|discriminate].
  destruct H as (_ & Hn & Hne). rewrite Nat.sub_0_r in Hn. rewrite Hn.
  destruct (last_with k items) as [e|]; [eauto|contradiction].
Qed.

End Proofs.
