(* Lemmas for C05: termination of the text parsers (corollary of C01), the
   try/except skeleton, the sort of the Android skips. *)
From Coq Require Import ZArith NArith List Bool Arith Lia.
From CL Require Import Base.Sx Base.Res Base.Str Regex.Rx Model.Entry Model.Parse
  Generated.RxParser Generated.C05Facts Model.ParseFormats Proofs.WalkSpec Proofs.C01Final
  Model.Robust.
Import ListNotations.

(* ---- termination: the walk returns Ok, never OutOfFuel ------------------------- *)
Lemma walk_ok_of_lossless : forall {St} gn (c0 : St) s, lossless gn c0 s ->
  exists es, walk gn c0 s = Ok es /\ length es <= length s /\
             walk_localizable gn c0 s = Ok (filter is_localizable es).
Proof.
  intros St gn c0 s [es [H1 [H2 [_ [_ [_ H6]]]]]]. exists es. auto.
Qed.

Lemma walk_ok_dtd : forall s,
  exists es, walk (stateless gn_dtd) tt s = Ok es /\ length es <= length s /\
             walk_localizable (stateless gn_dtd) tt s = Ok (filter is_localizable es).
Proof.
  intros s. destruct (C01Final.lossless_dtd s) as [es [H1 [H2 [_ [_ [_ H6]]]]]]. exists es. auto.
Qed.

(* ---- skeleton ----------------------------------------------------------------------- *)
Lemma compare_skeleton_guarded : forall hp rr rl pl,
  compare_skeleton hp rr true rl pl <> Escapes.
Proof. intros [|] [|] [|] [|]; vm_compute; discriminate. Qed.

Lemma compare_skeleton_l10n_reported : forall rr rl pl,
  rr = true -> rl && pl = false -> compare_skeleton true rr true rl pl = ErrorReport.
Proof. intros rr [|] [|] -> H; try discriminate; vm_compute; reflexivity. Qed.

Lemma add_skeleton_guarded : forall hp r p, add_skeleton hp r p <> Escapes.
Proof. intros [|] [|] [|]; vm_compute; discriminate. Qed.

Lemma lint_skeleton_all_ok : forall hr rr pr r p,
  lint_skeleton hr rr pr r p <> Escapes -> (hr = true -> rr = true /\ pr = true) /\ r = true /\ p = true.
Proof. intros [|] [|] [|] [|] [|]; vm_compute; intros H; try (exfalso; apply H; reflexivity);
       repeat split; intros; try reflexivity; try discriminate. Qed.

(* ---- skips.sort ----------------------------------------------------------------------- *)
Lemma forallb_repeat_some : forall j (k : nat),
  forallb (fun k => match k with Some _ => true | None => false end) (repeat (Some k) j) = true.
Proof. induction j as [|j IH]; intros k; cbn; [reflexivity|apply IH]. Qed.

Lemma sort_skips_android : forall n j,
  sort_skips (android_skip_keys n j) =
  if (2 <=? n + j) && (1 <=? n) then Raise TypeError else Ok tt.
Proof.
  intros [|[|n]] j; unfold android_skip_keys.
  - cbn [repeat app]. destruct j as [|[|j]]; try reflexivity.
    unfold c05_android_junk_key. cbn [repeat sort_skips].
    change (Some 0 :: Some 0 :: repeat (Some 0) j) with (repeat (Some 0) (S (S j))).
    rewrite forallb_repeat_some. rewrite andb_false_r. reflexivity.
  - destruct j; reflexivity.
  - reflexivity.
Qed.
