(* Proofs about Model/Tree.v, part 2: over prefix-free path sets the
   path-compressed tree refines the association path -> appended values. *)
From Coq Require Import ZArith NArith List Bool Arith Lia Permutation.
From CL Require Import Base.Sx Base.Res Model.Tree Proofs.TreeProofs.
Import ListNotations.

Local Open Scope nat_scope.

Section Refine.
Context {V : Type}.
Notation tree := (tree V).

Definition pre (k : key) (pv : key * list V) : key * list V := (k ++ fst pv, snd pv).

Definition fl_bs (bs : list (key * tree)) : list (key * list V) :=
  flat_map (fun kc => map (pre (fst kc)) (flatten (snd kc))) bs.

Definition valpart (val : option (list V)) : list (key * list V) :=
  match val with Some v => [([], v)] | None => [] end.

Lemma flatten_node : forall val bs, flatten (Node val bs) = valpart val ++ fl_bs bs.
Proof.
  intros val bs. simpl. f_equal.
  induction bs as [|[k c] r IH]; simpl; [reflexivity|]. rewrite IH. reflexivity.
Qed.

Lemma fl_bs_app : forall a b, fl_bs (a ++ b) = fl_bs a ++ fl_bs b.
Proof. intros. unfold fl_bs. apply flat_map_app. Qed.

Lemma fl_bs_cons : forall k c r, fl_bs ((k, c) :: r) = map (pre k) (flatten c) ++ fl_bs r.
Proof. reflexivity. Qed.

Lemma in_pre : forall c (L : list (key * list V)) q v,
  In (q, v) (map (pre c) L) <-> exists r, q = c ++ r /\ In (r, v) L.
Proof.
  intros c L q v. rewrite in_map_iff. split.
  - intros ([r w] & E & Hin). unfold pre in E. simpl in E. inversion E; subst. eauto.
  - intros (r & -> & Hin). exists (r, v). split; [reflexivity | exact Hin].
Qed.

Lemma in_fl_bs : forall bs e, In e (fl_bs bs) <->
  exists k c, In (k, c) bs /\ In e (map (pre k) (flatten c)).
Proof.
  intros bs e. unfold fl_bs. rewrite in_flat_map. split.
  - intros ([k c] & Hin & He). eauto.
  - intros (k & c & Hin & He). exists (k, c). auto.
Qed.

(* ---- prefix-freeness ------------------------------------------------------ *)
Definition proper_prefix (p q : key) : Prop := exists r, r <> [] /\ q = p ++ r.

Definition pfree (p : key) (l : list (key * list V)) : Prop :=
  forall q, In q (map fst l) -> ~ proper_prefix q p /\ ~ proper_prefix p q.

Lemma pp_cancel : forall c a b, proper_prefix (c ++ a) (c ++ b) <-> proper_prefix a b.
Proof.
  intros c a b. split; intros (r & Hr & E).
  - exists r. split; [exact Hr|]. rewrite <- app_assoc in E. apply app_inv_head in E. exact E.
  - exists r. split; [exact Hr|]. rewrite E. rewrite app_assoc. reflexivity.
Qed.

Lemma pp_head : forall a b, a <> [] -> proper_prefix a b -> hd 0%N a = hd 0%N b.
Proof. intros [|x a] b Ha (r & _ & ->); [congruence | reflexivity]. Qed.

(* ---- the invariant -------------------------------------------------------- *)
Definition heads (bs : list (key * tree)) : list N := map (fun kc => hd 0%N (fst kc)) bs.

Fixpoint inv (t : tree) : Prop :=
  match t with
  | Node val bs =>
      (fix all (bs : list (key * tree)) : Prop :=
         match bs with
         | [] => True
         | (k, c) :: r => (k <> [] /\ inv c /\ flatten c <> []) /\ all r
         end) bs
      /\ NoDup (heads bs)
      /\ (val <> None -> bs = [])
  end.

Definition child_ok (kc : key * tree) : Prop :=
  fst kc <> [] /\ inv (snd kc) /\ flatten (snd kc) <> [].

Lemma inv_node : forall val bs,
  inv (Node val bs) <-> Forall child_ok bs /\ NoDup (heads bs) /\ (val <> None -> bs = []).
Proof.
  intros val bs. simpl.
  assert (A : (fix all (bs : list (key * tree)) : Prop :=
                 match bs with
                 | [] => True
                 | (k, c) :: r => (k <> [] /\ inv c /\ flatten c <> []) /\ all r
                 end) bs <-> Forall child_ok bs).
  { induction bs as [|[k c] r IH]; split; intro H.
    - constructor.
    - exact I.
    - destruct H as [H1 H2]. constructor; [exact H1 | apply IH; exact H2].
    - inversion H; subst. split; [assumption | apply IH; assumption]. }
  rewrite A. reflexivity.
Qed.

Lemma inv_empty : inv (@empty_tree V).
Proof. apply inv_node. split; [constructor | split; [constructor | reflexivity]]. Qed.

Lemma inv_keys_ok : forall t, inv t -> keys_ok t.
Proof.
  fix IH 1. intros [val bs] H. apply inv_node in H as (H & _ & _).
  apply keys_ok_node. induction bs as [|[k c] r IHr]; constructor.
  - inversion H; subst. destruct H2 as (A & B & _). split; [exact A | apply IH; exact B].
  - inversion H; subst. apply IHr. assumption.
Qed.

Lemma inv_leaf : forall l : list V, inv (Node (Some l) []).
Proof. intro l. apply inv_node. split; [constructor | split; [constructor | reflexivity]]. Qed.

Lemma child_ok_leaf : forall k (l : list V), k <> [] -> child_ok (k, Node (Some l) []).
Proof. intros k l Hk. split; [exact Hk | split; [apply inv_leaf | simpl; discriminate]]. Qed.

Lemma heads_app : forall a b, heads (a ++ b) = heads a ++ heads b.
Proof. intros. unfold heads. apply map_app. Qed.

(* ---- what one insertion does to the association --------------------------- *)
Definition upd_spec (l l' : list (key * list V)) (p : key) (xs : list V) : Prop :=
  (forall q v, q <> p -> (In (q, v) l' <-> In (q, v) l)) /\
  (forall v, In (p, v) l' <->
             (exists old, In (p, old) l /\ v = old ++ xs) \/ (~ In p (map fst l) /\ v = xs)).

Lemma upd_spec_nonempty : forall l l' p xs, upd_spec l l' p xs -> l' <> [].
Proof.
  intros l l' p xs [_ H2] E. subst l'.
  destruct (in_dec key_eq_dec p (map fst l)) as [Hin | Hn].
  - apply in_map_iff in Hin as ([q old] & Eq & Hin). simpl in Eq. subst q.
    apply (proj2 (H2 (old ++ xs))). left. eauto.
  - apply (proj2 (H2 xs)). right. auto.
Qed.

Lemma upd_spec_lift : forall (F F' R L L' : list (key * list V)) c new p xs,
  p = c ++ new ->
  (forall e, In e F <-> In e R \/ In e (map (pre c) L)) ->
  (forall e, In e F' <-> In e R \/ In e (map (pre c) L')) ->
  upd_spec L L' new xs ->
  (forall e, In e R -> fst e <> p) ->
  upd_spec F F' p xs.
Proof.
  intros F F' R L L' c new p xs -> HF HF' [U1 U2] HR. split.
  - intros q v Hq. rewrite HF, HF'. rewrite !in_pre. split; intros [H | (r & -> & Hin)]; auto; right;
      exists r; (split; [reflexivity|]); assert (r <> new) by congruence.
    + apply U1; assumption.
    + apply U1; assumption.
  - intro v. rewrite HF'. rewrite in_pre. split.
    + intros [H | (r & E & Hin)].
      * exfalso. apply (HR _ H). reflexivity.
      * apply app_inv_head in E. subst r. apply U2 in Hin as [(old & Ho & ->) | (Hn & ->)].
        -- left. exists old. split; [|reflexivity]. apply HF. right. apply in_pre. eauto.
        -- right. split; [|reflexivity]. intro Hin. apply in_map_iff in Hin as ([q w] & Eq & Hin).
           simpl in Eq. subst q. apply HF in Hin as [Hin | Hin].
           ++ apply (HR _ Hin). reflexivity.
           ++ apply in_pre in Hin as (r & E & Hin). apply app_inv_head in E. subst r.
              apply Hn. apply in_map_iff. exists (new, w). auto.
    + intros [(old & Ho & ->) | (Hn & ->)]; right; exists new; (split; [reflexivity|]); apply U2.
      * left. exists old. split; [|reflexivity]. apply HF in Ho as [Ho | Ho].
        -- exfalso. apply (HR _ Ho). reflexivity.
        -- apply in_pre in Ho as (r & E & Ho). apply app_inv_head in E. subst r. exact Ho.
      * right. split; [|reflexivity]. intro Hin. apply Hn.
        apply in_map_iff in Hin as ([q w] & Eq & Hin). simpl in Eq. subst q.
        apply in_map_iff. exists (c ++ new, w). split; [reflexivity|]. apply HF. right.
        apply in_pre. eauto.
Qed.

(* membership in the flattening of a node whose branch list is given split *)
Lemma in_flatten_split : forall val l1 k c l2 e,
  In e (flatten (Node val (l1 ++ (k, c) :: l2))) <->
  In e (valpart val ++ fl_bs l1 ++ fl_bs l2) \/ In e (map (pre k) (flatten c)).
Proof.
  intros. rewrite flatten_node, fl_bs_app, fl_bs_cons. rewrite !in_app_iff. tauto.
Qed.

Lemma in_flatten_moved : forall val l1 k c l2 e,
  In e (flatten (Node val (l1 ++ l2 ++ [(k, c)]))) <->
  In e (valpart val ++ fl_bs l1 ++ fl_bs l2) \/ In e (map (pre k) (flatten c)).
Proof.
  intros. rewrite flatten_node, !fl_bs_app, fl_bs_cons. rewrite !in_app_iff.
  change (In e (fl_bs [])) with False. tauto.
Qed.

(* an entry of the rest has a key starting with a different segment *)
Lemma rest_not_parts : forall val (l : list (key * tree)) parts e,
  parts <> [] ->
  Forall child_ok l ->
  (forall kc, In kc l -> hd 0%N (fst kc) <> hd 0%N parts) ->
  In e (valpart val ++ fl_bs l) -> fst e <> parts.
Proof.
  intros val l parts e Hp Hok Hh Hin. apply in_app_iff in Hin as [Hin | Hin].
  - destruct val; simpl in Hin; [|contradiction]. destruct Hin as [<- | []]. simpl. intro E. apply Hp. symmetry. exact E.
  - apply in_fl_bs in Hin as (k & c & Hkc & Hin). destruct e as [q w].
    apply in_pre in Hin as (r & -> & _). simpl. intro E.
    rewrite Forall_forall in Hok. destruct (Hok _ Hkc) as (Hk & _). simpl in Hk.
    apply (Hh _ Hkc). simpl. rewrite <- E. destruct k; [congruence | reflexivity].
Qed.

Lemma firstn_skipn_eq : forall (k : key) i, skipn i k = [] -> firstn i k = k.
Proof. intros k i E. rewrite <- (firstn_skipn i k) at 2. rewrite E, app_nil_r. reflexivity. Qed.

Lemma flatten_with_value_leaf : forall (l xs : list V), flatten (with_value (Node (Some l) []) xs) = [([], l ++ xs)].
Proof. reflexivity. Qed.

(* ---- the insertion lemma -------------------------------------------------- *)
Theorem get_app_refines : forall fuel (t : tree) parts xs,
  parts <> [] -> length parts < fuel -> inv t -> pfree parts (flatten t) ->
  exists t', get_app fuel t parts xs = Ok t' /\ inv t' /\
             upd_spec (flatten t) (flatten t') parts xs.
Proof.
  induction fuel as [|fuel IH]; intros [val bs] parts xs Hp Hf Hinv Hpf; [lia|].
  pose proof (inv_keys_ok _ Hinv) as Hk.
  simpl (get_app _ _ _ _). rewrite (find_branch_spec bs parts None Hp (keys_nonempty _ _ Hk)). cbn [bind].
  pose proof Hinv as Hinv'. apply inv_node in Hinv' as (Hok & Hnd & Hval).
  (* a valued node is a leaf and [] would be a proper prefix of parts *)
  assert (Hvn : val = None).
  { destruct val as [l|]; [|reflexivity]. exfalso.
    destruct (Hpf []) as [A _].
    - rewrite flatten_node. simpl. left. reflexivity.
    - apply A. exists parts. split; [exact Hp | reflexivity]. }
  subst val.
  destruct (first_share bs parts) as [[[k v] i]|] eqn:Efs.
  - destruct (first_share_split _ _ _ _ _ Efs) as (l1 & l2 & Hbs & Hi & Hpos & Hl1).
    pose proof (lcp_zero_not_key l1 parts k Hl1 ltac:(lia)) as Hfresh.
    subst bs.
    pose proof Hok as Hok'. apply Forall_app in Hok' as [Hok1 Hok2].
    pose proof (Forall_inv Hok2) as Hkv. pose proof (Forall_inv_tail Hok2) as Hok2'.
    destruct Hkv as (Hkne & Hiv & Hfv). simpl in Hkne, Hiv, Hfv.
    assert (Hokr : Forall child_ok (l1 ++ l2)) by (apply Forall_app; split; assumption).
    assert (Hcommon : firstn i k <> []) by (apply firstn_nonempty; assumption).
    assert (Hile : lcp k parts <= length parts) by apply lcp_le_r.
    assert (Hnewlen : length (skipn i parts) < fuel) by (rewrite skipn_length; lia).
    assert (Hparts : parts = firstn i k ++ skipn i parts).
    { rewrite Hi. rewrite lcp_firstn. symmetry. apply firstn_skipn. }
    assert (Hhk : hd 0%N k = hd 0%N parts).
    { assert (P : 0 < lcp k parts) by lia. apply lcp_pos_head in P as (x & a' & b' & -> & ->). reflexivity. }
    assert (Hhc : hd 0%N (firstn i k) = hd 0%N parts).
    { rewrite Hparts. destruct (firstn i k); [congruence | reflexivity]. }
    (* the other branches start with another segment *)
    rewrite heads_app in Hnd. simpl in Hnd.
    assert (Hhr : forall kc, In kc (l1 ++ l2) -> hd 0%N (fst kc) <> hd 0%N parts).
    { intros kc Hin E. apply NoDup_remove_2 in Hnd. apply Hnd. rewrite <- heads_app.
      unfold heads. apply in_map_iff. exists kc. split; [|exact Hin].
      cbv beta.
      transitivity (hd 0%N parts); [exact E | symmetry; exact Hhk]. }
    assert (HR : forall e, In e (valpart None ++ fl_bs l1 ++ fl_bs l2) -> fst e <> parts).
    { intros e He. rewrite <- fl_bs_app in He. eapply rest_not_parts; eauto. }
    assert (Hndr : NoDup (heads (l1 ++ l2))).
    { rewrite heads_app. eapply NoDup_remove_1. exact Hnd. }
    rewrite (truthy_true _ Hcommon).
    destruct (truthy (skipn i k)) eqn:Eold.
    + (* ---- split the branch ---- *)
      assert (Hold : skipn i k <> []) by (intro E; rewrite E in Eold; discriminate).
      rewrite (dpop_split l1 l2 k v Hfresh).
      assert (Hk_split : k = firstn i k ++ skipn i k) by (symmetry; apply firstn_skipn).
      destruct (truthy (skipn i parts)) eqn:Enew.
      * assert (Hnew : skipn i parts <> []) by (intro E; rewrite E in Enew; discriminate).
        set (t1 := Node None [(skipn i k, v)]).
        assert (Hinv1 : inv t1).
        { apply inv_node. repeat split.
          - constructor; [|constructor]. repeat split; assumption.
          - simpl. constructor; [intros []|constructor].
          - congruence. }
        assert (Hfl1 : flatten t1 = map (pre (skipn i k)) (flatten v)).
        { unfold t1. rewrite flatten_node. simpl. rewrite app_nil_r. reflexivity. }
        assert (Hpf1 : pfree (skipn i parts) (flatten t1)).
        { intros q Hq. rewrite Hfl1 in Hq. apply in_map_iff in Hq as ([q' w] & Eq & Hq). simpl in Eq. subst q.
          apply in_pre in Hq as (r & -> & _).
          destruct (skipn i k) as [|x o'] eqn:Eo; [congruence|].
          destruct (skipn i parts) as [|y n'] eqn:En; [congruence|].
          assert (x <> y). { rewrite Hi in Eo, En. eapply lcp_diverge; eassumption. }
          split; intro PP; apply pp_head in PP; simpl in *; try congruence. }
        destruct (IH t1 (skipn i parts) xs Hnew Hnewlen Hinv1 Hpf1) as (t1' & Ht1 & Hinv1' & Hupd1).
        rewrite Ht1. cbn [bind].
        assert (Hfc : forall kc, In kc (l1 ++ l2) -> fst kc <> firstn i k).
        { intros kc Hin E. apply (Hhr _ Hin). rewrite E. exact Hhc. }
        rewrite (dset_fresh (l1 ++ l2) _ t1' Hfc). rewrite <- app_assoc.
        eexists. split; [reflexivity|]. split.
        -- apply inv_node. repeat split.
           ++ apply Forall_app. split; [exact Hok1|]. apply Forall_app. split; [exact Hok2'|].
              constructor; [|constructor]. repeat split; simpl; try assumption.
              eapply upd_spec_nonempty; exact Hupd1.
           ++ rewrite app_assoc, heads_app. simpl.
              apply (Permutation_NoDup (l := hd 0%N (firstn i k) :: heads (l1 ++ l2))).
              ** apply Permutation_cons_append.
              ** constructor; [|exact Hndr]. intro Hin. unfold heads in Hin.
                 apply in_map_iff in Hin as (kc & E & Hin). apply (Hhr _ Hin).
                 transitivity (hd 0%N (firstn i k)); [exact E | exact Hhc].
           ++ congruence.
        -- eapply (upd_spec_lift _ _ (valpart None ++ fl_bs l1 ++ fl_bs l2) (flatten t1) (flatten t1')
                                  _ _ _ _ Hparts).
           ++ intro e. rewrite in_flatten_split. rewrite Hfl1, map_map.
              assert (E : map (fun x => pre (firstn i k) (pre (skipn i k) x)) (flatten v)
                          = map (pre k) (flatten v)).
              { apply map_ext. intros [r w]. unfold pre. simpl. rewrite app_assoc, firstn_skipn. reflexivity. }
              rewrite E. reflexivity.
           ++ intro e. apply in_flatten_moved.
           ++ exact Hupd1.
           ++ exact HR.
      * (* parts is a proper prefix of the key: excluded by prefix-freeness *)
        exfalso. apply truthy_false in Enew.
        destruct (flatten v) as [|[r w] fl] eqn:Efl; [congruence|].
        destruct (Hpf (k ++ r)) as [_ B].
        -- rewrite flatten_node, fl_bs_app, fl_bs_cons, Efl. simpl.
           rewrite !map_app. apply in_or_app. right. simpl. left. reflexivity.
        -- apply B. exists (skipn i k ++ r). split.
           ++ destruct (skipn i k); [congruence | discriminate].
           ++ rewrite Hparts at 1. rewrite Enew, app_nil_r. rewrite app_assoc, firstn_skipn. reflexivity.
    + (* ---- the whole key is a prefix of parts ---- *)
      apply truthy_false in Eold.
      pose proof (firstn_skipn_eq k i Eold) as Hck. rewrite Hck in *.
      rewrite (dget_split l1 l2 k v Hfresh).
      destruct (truthy (skipn i parts)) eqn:Enew.
      * (* descend *)
        assert (Hnew : skipn i parts <> []) by (intro E; rewrite E in Enew; discriminate).
        assert (Hpfv : pfree (skipn i parts) (flatten v)).
        { intros r Hr. apply in_map_iff in Hr as ([r' w] & Er & Hr). simpl in Er. subst r'.
          destruct (Hpf (k ++ r)) as [A B].
          - apply in_map_iff. exists (k ++ r, w). split; [reflexivity|].
            apply in_flatten_split. right. apply in_pre. eauto.
          - rewrite Hparts in A, B. rewrite pp_cancel in A, B. split; assumption. }
        destruct (IH v (skipn i parts) xs Hnew Hnewlen Hiv Hpfv) as (v' & Hv' & Hinv' & Hupd).
        rewrite Hv'. cbn [bind]. rewrite (dset_split l1 l2 k v v' Hfresh).
        eexists. split; [reflexivity|]. split.
        -- apply inv_node. repeat split.
           ++ apply Forall_app. split; [exact Hok1|]. constructor; [|exact Hok2'].
              repeat split; simpl; try assumption. eapply upd_spec_nonempty; exact Hupd.
           ++ rewrite heads_app. simpl. exact Hnd.
           ++ congruence.
        -- eapply (upd_spec_lift _ _ (valpart None ++ fl_bs l1 ++ fl_bs l2) (flatten v) (flatten v')
                                  _ _ _ _ Hparts).
           ++ intro e. apply in_flatten_split.
           ++ intro e. apply in_flatten_split.
           ++ exact Hupd.
           ++ exact HR.
      * (* exact hit: parts = k *)
        apply truthy_false in Enew.
        assert (Hpk : parts = k) by (rewrite Hparts, Enew, app_nil_r; reflexivity).
        rewrite (dset_split l1 l2 k v _ Hfresh).
        destruct v as [[l|] bsv].
        -- (* a leaf: append *)
           pose proof Hiv as Hiv'. apply inv_node in Hiv' as (_ & _ & Hleaf).
           rewrite (Hleaf ltac:(congruence)) in *.
           eexists. split; [reflexivity|]. split.
           ++ apply inv_node. repeat split.
              ** apply Forall_app. split; [exact Hok1|]. constructor; [|exact Hok2'].
                 apply child_ok_leaf. exact Hkne.
              ** rewrite heads_app. simpl. exact Hnd.
              ** congruence.
           ++ assert (Hpk' : parts = k ++ []) by (rewrite app_nil_r; exact Hpk).
              eapply (upd_spec_lift _ _ (valpart None ++ fl_bs l1 ++ fl_bs l2) [([], l)] [([], l ++ xs)]
                                    _ _ _ _ Hpk').
              ** intro e. apply in_flatten_split.
              ** intro e. apply in_flatten_split.
              ** split.
                 --- intros q w Hq. simpl. split; intros [E | []]; inversion E; congruence.
                 --- intro w. simpl. split.
                     +++ intros [E | []]. inversion E. left. exists l. auto.
                     +++ intros [(old & [E | []] & ->) | (Hn & _)].
                         *** inversion E. auto.
                         *** exfalso. apply Hn. auto.
              ** exact HR.
        -- (* an inner node: its paths extend parts, excluded *)
           exfalso. rewrite flatten_node in Hfv. simpl in Hfv.
           destruct (fl_bs bsv) as [|[r w] fl] eqn:Efl; [congruence|].
           assert (Hr : r <> []).
           { assert (Hin : In (r, w) (fl_bs bsv)) by (rewrite Efl; left; reflexivity).
             apply in_fl_bs in Hin as (k' & c' & Hkc & Hin). apply in_pre in Hin as (r' & -> & _).
             apply inv_node in Hiv as (Hokv & _). rewrite Forall_forall in Hokv.
             destruct (Hokv _ Hkc) as (Hk' & _). simpl in Hk'. destruct k'; [congruence | discriminate]. }
           destruct (Hpf (k ++ r)) as [_ B].
           ++ apply in_map_iff. exists (k ++ r, w). split; [reflexivity|].
              apply in_flatten_split. right. apply in_pre. exists r. split; [reflexivity|].
              rewrite flatten_node. simpl. rewrite Efl. left. reflexivity.
           ++ apply B. exists r. split; [exact Hr | rewrite Hpk; reflexivity].
  - (* ---- no branch shares a prefix: a new branch ---- *)
    pose proof (first_share_none _ _ Efs) as Hnone.
    rewrite (truthy_true _ Hp).
    assert (Hh : forall kc, In kc bs -> hd 0%N (fst kc) <> hd 0%N parts).
    { intros kc Hin. rewrite Forall_forall in Hnone, Hok. destruct (Hok _ Hin) as (Hkne & _).
      apply lcp_zero_head; auto. }
    assert (Hfresh : forall kc, In kc bs -> fst kc <> parts).
    { intros kc Hin E. apply (Hh _ Hin). congruence. }
    rewrite (dset_fresh bs parts _ Hfresh).
    eexists. split; [reflexivity|]. split.
    + apply inv_node. repeat split.
      * apply Forall_app. split; [exact Hok|]. constructor; [|constructor].
        apply child_ok_leaf. exact Hp.
      * rewrite heads_app. simpl.
        apply (Permutation_NoDup (l := hd 0%N parts :: heads bs)).
        -- apply Permutation_cons_append.
        -- constructor; [|exact Hnd]. intro Hin. unfold heads in Hin.
           apply in_map_iff in Hin as (kc & E & Hin). apply (Hh _ Hin). exact E.
      * congruence.
    + assert (HR : forall e, In e (flatten (Node None bs)) -> fst e <> parts).
      { intros e He. rewrite flatten_node in He. eapply rest_not_parts; eauto. }
      assert (HF' : forall e, In e (flatten (Node None (bs ++ [(parts, with_value empty_tree xs)])))
                              <-> In e (flatten (Node None bs)) \/ e = (parts, xs)).
      { intro e. rewrite !flatten_node, fl_bs_app, fl_bs_cons. simpl.
        rewrite !in_app_iff. unfold pre. simpl. rewrite app_nil_r. simpl. intuition. }
      split.
      * intros q w Hq. rewrite HF'. split; [intros [H | E]; [exact H | inversion E; congruence] | auto].
      * intro w. rewrite HF'. split.
        -- intros [H | E].
           ++ exfalso. apply (HR _ H). reflexivity.
           ++ inversion E. right. split; [|reflexivity]. intro Hin.
              apply in_map_iff in Hin as ([q u] & Eq & Hin). apply (HR _ Hin). exact Eq.
        -- intros [(old & Ho & _) | (_ & ->)].
           ++ exfalso. apply (HR _ Ho). reflexivity.
           ++ right. reflexivity.
Qed.


(* ---- the association is a function: paths in the flattening are distinct -- *)
Lemma NoDup_app_intro : forall {A} (a b : list A),
  NoDup a -> NoDup b -> (forall x, In x a -> ~ In x b) -> NoDup (a ++ b).
Proof.
  induction a as [|x a IH]; intros b Ha Hb Hd; simpl; [exact Hb|].
  inversion Ha; subst. constructor.
  - intro Hin. apply in_app_iff in Hin as [Hin | Hin]; [contradiction|].
    apply (Hd x); [left; reflexivity | exact Hin].
  - apply IH; auto. intros y Hy. apply Hd. right. exact Hy.
Qed.

Lemma NoDup_map_app : forall (k : key) (l : list key), NoDup l -> NoDup (map (app k) l).
Proof.
  intros k l H. induction H as [|x l Hx Hl IH]; simpl; constructor; [|exact IH].
  intro Hin. apply in_map_iff in Hin as (y & E & Hy). apply app_inv_head in E. subst y. contradiction.
Qed.

Lemma map_fst_pre : forall k (l : list (key * list V)), map fst (map (pre k) l) = map (app k) (map fst l).
Proof. intros. rewrite !map_map. reflexivity. Qed.

Lemma inv_nodup : forall t, inv t -> NoDup (map fst (flatten t)).
Proof.
  fix IH 1. intros [val bs] H. apply inv_node in H as (Hok & Hnd & Hval).
  rewrite flatten_node. destruct val as [l|].
  - rewrite (Hval ltac:(discriminate)). simpl. constructor; [intros [] | constructor].
  - simpl. clear Hval. induction bs as [|[k c] r IHr]; [constructor|].
    pose proof (Forall_inv Hok) as (Hk & Hc & _). pose proof (Forall_inv_tail Hok) as Hok'.
    simpl in Hk, Hc. simpl in Hnd. inversion Hnd as [|? ? Hnin Hnd']; subst.
    rewrite fl_bs_cons, map_app, map_fst_pre. apply NoDup_app_intro.
    + apply NoDup_map_app. apply IH. exact Hc.
    + apply IHr; assumption.
    + intros x Hx Hx'. apply in_map_iff in Hx as (r1 & <- & _).
      apply in_map_iff in Hx' as ([q w] & Eq & Hin). simpl in Eq.
      apply in_fl_bs in Hin as (k' & c' & Hkc & Hin). apply in_pre in Hin as (r2 & -> & _).
      rewrite Forall_forall in Hok'. destruct (Hok' _ Hkc) as (Hk' & _). simpl in Hk'.
      apply Hnin. unfold heads. apply in_map_iff. exists (k', c'). split; [|exact Hkc]. simpl.
      destruct k as [|a k]; [congruence|]. destruct k' as [|a' k']; [congruence|].
      simpl in Eq. inversion Eq. reflexivity.
Qed.

(* toJSON loses nothing when valued nodes are leaves *)
Lemma toJSON_flatten : forall t, inv t -> flatten_json (toJSON t) = flatten t.
Proof.
  fix IH 1. intros [val bs] H. apply inv_node in H as (Hok & _ & Hval).
  destruct val as [l|].
  - rewrite (Hval ltac:(discriminate)). reflexivity.
  - simpl. clear Hval. induction bs as [|[k c] r IHr]; [reflexivity|].
    pose proof (Forall_inv Hok) as (_ & Hc & _). pose proof (Forall_inv_tail Hok) as Hok'.
    simpl in Hc. rewrite (IH c Hc). f_equal. apply IHr. exact Hok'.
Qed.

(* ---- histories ------------------------------------------------------------ *)
Definition hval (h : list (key * list V)) (q : key) : option (list V) :=
  if existsb (fun e => key_eqb (fst e) q) h
  then Some (concat (map snd (filter (fun e => key_eqb (fst e) q) h)))
  else None.

Definition prefix_free (ps : list key) : Prop :=
  forall p q, In p ps -> In q ps -> ~ proper_prefix p q.

Lemma hval_snoc : forall h p xs q,
  hval (h ++ [(p, xs)]) q =
  if key_eqb p q then Some (match hval h q with Some l => l | None => [] end ++ xs) else hval h q.
Proof.
  intros h p xs q. unfold hval. rewrite existsb_app, filter_app, map_app, concat_app. simpl.
  destruct (key_eqb p q); simpl.
  - rewrite orb_true_r, app_nil_r. destruct (existsb _ h) eqn:E; [reflexivity|].
    f_equal. f_equal.
    assert (F : filter (fun e : key * list V => key_eqb (fst e) q) h = []).
    { induction h as [|e h IHh]; [reflexivity|]. simpl in *. apply orb_false_iff in E as [E1 E2].
      rewrite E1. apply IHh. exact E2. }
    rewrite F. reflexivity.
  - rewrite orb_false_r, !app_nil_r. reflexivity.
Qed.

Lemma hval_in : forall h q v, hval h q = Some v -> In q (map fst h).
Proof.
  intros h q v H. unfold hval in H. destruct (existsb _ h) eqn:E; [|discriminate].
  apply existsb_exists in E as (e & Hin & Ee). apply key_eqb_eq in Ee. subst q.
  apply in_map. exact Hin.
Qed.

Definition represents (t : tree) (h : list (key * list V)) : Prop :=
  forall q v, In (q, v) (flatten t) <-> hval h q = Some v.

Lemma run_tree_refines : forall h (t0 : tree) h0,
  inv t0 -> represents t0 h0 ->
  Forall (fun e => fst e <> []) h -> prefix_free (map fst (h0 ++ h)) ->
  exists t, run_tree t0 h = Ok t /\ inv t /\ represents t (h0 ++ h).
Proof.
  induction h as [|[p xs] h IH]; intros t0 h0 Hinv Hrep Hne Hpf.
  - exists t0. rewrite app_nil_r. auto.
  - pose proof (Forall_inv Hne) as Hp. pose proof (Forall_inv_tail Hne) as Hne'. simpl in Hp.
    assert (Hpfree : pfree p (flatten t0)).
    { intros q Hq. apply in_map_iff in Hq as ([q' v] & Eq & Hin). simpl in Eq. subst q'.
      apply Hrep in Hin. apply hval_in in Hin.
      assert (Hq : In q (map fst (h0 ++ (p, xs) :: h))) by (rewrite map_app; apply in_or_app; auto).
      assert (Hp' : In p (map fst (h0 ++ (p, xs) :: h))).
      { rewrite map_app. apply in_or_app. right. left. reflexivity. }
      split; apply Hpf; assumption. }
    destruct (get_app_refines (S (length p)) t0 p xs Hp ltac:(lia) Hinv Hpfree)
      as (t1 & Ht1 & Hinv1 & [U1 U2]).
    simpl. unfold tree_getitem. rewrite Ht1. cbn [bind].
    replace (h0 ++ (p, xs) :: h) with ((h0 ++ [(p, xs)]) ++ h) in * by (rewrite <- app_assoc; reflexivity).
    apply IH; auto.
    intros q v. rewrite hval_snoc. destruct (key_eqb p q) eqn:E.
    + apply key_eqb_eq in E. subst q. rewrite U2. split.
      * intros [(old & Ho & ->) | (Hn & ->)].
        -- apply Hrep in Ho. rewrite Ho. reflexivity.
        -- destruct (hval h0 p) as [old|] eqn:Eh; [|reflexivity].
           exfalso. apply Hn. apply in_map_iff. exists (p, old). split; [reflexivity|]. apply Hrep. exact Eh.
      * intro H. destruct (hval h0 p) as [old|] eqn:Eh.
        -- left. exists old. split; [apply Hrep; exact Eh | congruence].
        -- right. split; [|simpl in H; congruence].
           intro Hin. apply in_map_iff in Hin as ([q w] & Eq & Hin). simpl in Eq. subst q.
           apply Hrep in Hin. congruence.
    + apply key_eqb_neq in E. rewrite U1 by congruence. apply Hrep.
Qed.

Theorem tree_refines : forall h : list (key * list V),
  Forall (fun e => fst e <> []) h -> prefix_free (map fst h) ->
  exists t, run_tree empty_tree h = Ok t /\ inv t /\
            (forall q v, In (q, v) (flatten t) <-> hval h q = Some v) /\
            NoDup (map fst (flatten t)) /\
            flatten_json (toJSON t) = flatten t.
Proof.
  intros h Hne Hpf.
  destruct (run_tree_refines h empty_tree [] inv_empty) as (t & Ht & Hinv & Hrep); auto.
  - intros q v. simpl. split; [intros [] | discriminate].
  - exists t. repeat split; auto; try apply Hrep.
    + apply inv_nodup. exact Hinv.
    + apply toJSON_flatten. exact Hinv.
Qed.

End Refine.
