(* A greedy repetition of a character class whose continuation never fails consumes
   the maximal run of class characters (up to its upper bound) and hands the
   continuation the state after it. *)
From Coq Require Import NArith List Bool Arith Lia.
From CL Require Import Base.Str Regex.Rx Regex.RxLemmas.
Import ListNotations.

Local Arguments Nat.ltb : simpl never.
Local Arguments Nat.leb : simpl never.
Local Arguments Nat.eqb : simpl never.
Local Arguments chr_ok : simpl never.

(* number of leading characters of l in the class, at most budget (None: unbounded) *)
Fixpoint run (neg : bool) (cls : cset) (budget : option nat) (l : str) : nat :=
  match l with
  | c :: t =>
      match budget with
      | Some 0 => 0
      | Some (S b) => if chr_ok neg cls c then S (run neg cls (Some b) t) else 0
      | None => if chr_ok neg cls c then S (run neg cls None t) else 0
      end
  | [] => 0
  end.

Definition budget_of (hi : option nat) (count : nat) : option nat :=
  match hi with Some h => Some (h - count) | None => None end.

Lemma run_le : forall neg cls b l, run neg cls b l <= length l.
Proof.
  intros neg cls b l. revert b. induction l as [|c t IH]; intros b; simpl; [lia|].
  destruct b as [[|b]|]; try lia; destruct (chr_ok neg cls c); try lia.
  - specialize (IH (Some b)). lia.
  - specialize (IH None). lia.
Qed.

Lemma run_budget : forall neg cls b l, run neg cls (Some b) l <= b.
Proof.
  intros neg cls b l. revert b. induction l as [|c t IH]; intros b; simpl; [lia|].
  destruct b as [|b]; [lia|]. destruct (chr_ok neg cls c); [|lia]. specialize (IH b). lia.
Qed.

Section Loop.
Variables (neg : bool) (cls : cset).
Let body := m (Chr neg cls).

Lemma body_eq : forall s k,
  body s k = match suf s with
             | c :: t => if chr_ok neg cls c then k (advance s c t) else Fail
             | [] => Fail
             end.
Proof. reflexivity. Qed.

Lemma rep_class : forall lo hi fuel count s k,
  (forall s', k s' <> Fail) ->
  (match hi with Some h => lo <= h | None => True end) ->
  length (suf s) < fuel ->
  rep_loop body true lo hi fuel count s k =
  if lo <=? count + run neg cls (budget_of hi count) (suf s)
  then k (fwd (run neg cls (budget_of hi count) (suf s)) s)
  else Fail.
Proof.
  intros lo hi fuel. induction fuel as [|f IH]; intros count s k Hk Hhi Hf; [lia|].
  rewrite rep_loop_S, !body_eq.
  destruct (count <? lo) eqn:Ecl.
  - (* mandatory iterations *)
    apply Nat.ltb_lt in Ecl.
    destruct (suf s) as [|c t] eqn:Es.
    + simpl. rewrite Nat.add_0_r. destruct (lo <=? count) eqn:E; [apply Nat.leb_le in E; lia|reflexivity].
    + assert (Hb : exists b, budget_of hi count = match hi with Some _ => Some (S b) | None => None end
                             /\ budget_of hi (S count) = match hi with Some _ => Some b | None => None end).
      { destruct hi as [h|]; simpl; [|exists 0; auto]. exists (h - S count). split; f_equal; lia. }
      destruct Hb as [b [Hb1 Hb2]].
      destruct (chr_ok neg cls c) eqn:Ec.
      * rewrite IH; auto; [|unfold advance; simpl; simpl in Hf; lia].
        unfold advance at 1 2. cbn [suf].
        assert (Hr : run neg cls (budget_of hi count) (c :: t) =
                     S (run neg cls (budget_of hi (S count)) t)).
        { rewrite Hb1, Hb2. destruct hi; simpl; rewrite Ec; reflexivity. }
        rewrite Hr. replace (count + S (run neg cls (budget_of hi (S count)) t))
          with (S count + run neg cls (budget_of hi (S count)) t) by lia.
        simpl fwd. rewrite Es. reflexivity.
      * assert (Hr : run neg cls (budget_of hi count) (c :: t) = 0).
        { rewrite Hb1. destruct hi; simpl; rewrite Ec; reflexivity. }
        rewrite Hr, Nat.add_0_r.
        destruct (lo <=? count) eqn:E; [apply Nat.leb_le in E; lia|reflexivity].
  - (* optional iterations, greedy *)
    apply Nat.ltb_ge in Ecl. cbv zeta.
    assert (Hlo : forall j, (lo <=? count + j) = true) by (intros; apply Nat.leb_le; lia).
    rewrite Hlo.
    destruct (match hi with Some h => count <? h | None => true end) eqn:Eh.
    + destruct (suf s) as [|c t] eqn:Es.
      * simpl. reflexivity.
      * assert (Hb : exists b, budget_of hi count = match hi with Some _ => Some (S b) | None => None end
                               /\ budget_of hi (S count) = match hi with Some _ => Some b | None => None end).
        { destruct hi as [h|]; simpl; [|exists 0; auto]. apply Nat.ltb_lt in Eh.
          exists (h - S count). split; f_equal; lia. }
        destruct Hb as [b [Hb1 Hb2]].
        destruct (chr_ok neg cls c) eqn:Ec.
        -- assert (Hp : Nat.eqb (pos (advance s c t)) (pos s) = false)
             by (apply Nat.eqb_neq; simpl; lia).
           rewrite Hp. rewrite IH; auto; [|unfold advance; simpl; simpl in Hf; lia].
           assert (Hlo' : forall j, (lo <=? S count + j) = true) by (intros; apply Nat.leb_le; lia).
           rewrite Hlo'.
           assert (Hr : run neg cls (budget_of hi count) (c :: t) =
                        S (run neg cls (budget_of hi (S count)) t)).
           { rewrite Hb1, Hb2. destruct hi; simpl; rewrite Ec; reflexivity. }
           rewrite Hr. unfold advance at 1. cbn [suf]. simpl fwd. rewrite Es.
           destruct (k (fwd (run neg cls (budget_of hi (S count)) t) (advance s c t))) eqn:Ek;
             try reflexivity. exfalso. eapply Hk. exact Ek.
        -- assert (Hr : run neg cls (budget_of hi count) (c :: t) = 0).
           { rewrite Hb1. destruct hi; simpl; rewrite Ec; reflexivity. }
           rewrite Hr. reflexivity.
    + (* the upper bound is reached *)
      destruct hi as [h|]; [|discriminate]. apply Nat.ltb_ge in Eh.
      assert (Hr : run neg cls (budget_of (Some h) count) (suf s) = 0).
      { simpl. replace (h - count) with 0 by lia. destruct (suf s); reflexivity. }
      rewrite Hr. reflexivity.
Qed.

(* as it is called by m *)
Lemma m_rep_class : forall lo hi s k,
  (forall s', k s' <> Fail) ->
  (match hi with Some h => lo <= h | None => True end) ->
  m (Rep true lo hi (Chr neg cls)) s k =
  if lo <=? run neg cls hi (suf s)
  then k (fwd (run neg cls hi (suf s)) s)
  else Fail.
Proof.
  intros lo hi s k Hk Hhi. simpl m. fold body.
  rewrite rep_class; auto; [|lia].
  assert (Hb : budget_of hi 0 = hi) by (destruct hi; simpl; f_equal; lia).
  rewrite Hb. reflexivity.
Qed.
End Loop.
