(* C02, DTD: junk regions.  The blocks of Proofs/C02BlocksDtd.v plus garbage regions: any
   nonempty text that does not start with whitespace or a byte order mark and in which "<" is
   never directly followed by "!" (so neither <!ENTITY nor <!-- starts inside it; stray tags,
   text, references, brackets, also whitespace after the first character are all allowed).
   Parser.getNext finds no comment, whitespace or declaration at its start, DTDParser.getNext
   no parameter entity; Parser.getJunk searches the key and the comment expression from the
   next position on, and both fail at every position inside the region.  So the junk ends
   exactly at the next comment or entity declaration, or at the end of the text: ONE Junk entry
   per region, covering exactly that region.
   Not covered: broken declarations that start with <!ENTITY or <!-- themselves. *)
From Coq Require Import NArith List Bool Arith Lia.
From CL Require Import Base.Sx Base.Res Base.Str Regex.Rx Regex.RxLemmas Model.Entry Model.Parse
  Model.ParseFormats Generated.RxParser Proofs.UnescapeProofs
  Proofs.ClassLoop Proofs.ClassLoop2 Proofs.C02Props Proofs.WalkProofs Proofs.C02Roundtrip
  Proofs.C02BlocksRx Proofs.C02BlocksDtdRx Proofs.C02BlocksDtdPeRx Proofs.C02BlocksDtd.
From CL Require Proofs.C02Blocks Proofs.C02BlocksIniJunk.
Import ListNotations.

Local Arguments Nat.ltb : simpl never.
Local Arguments Nat.leb : simpl never.
Local Arguments Nat.eqb : simpl never.
Local Arguments N.eqb : simpl never.
Local Arguments N.leb : simpl never.
Local Arguments chr_ok : simpl never.
Local Arguments run : simpl never.
Local Arguments fwd : simpl never.

Ltac norm_app := repeat (progress (rewrite <- ?app_assoc; cbn [app])).

(* ---- garbage ------------------------------------------------------------------------------------------- *)
Definition is_bang (d : N) : bool := N.eqb d 33.
Definition lt_bang (X : str) : bool :=
  match X with [] => false | c :: t => N.eqb c 60 && head_is is_bang t end.
Fixpoint no_lt_bang (g : str) : bool :=
  match g with
  | [] => true
  | c :: t => negb (N.eqb c 60 && head_is is_bang t) && no_lt_bang t
  end.
Definition legal_garbage (g : str) : bool :=
  match g with
  | [] => false
  | c :: _ => negb (mem c WS) && negb (N.eqb bom c) && no_lt_bang g
  end.

Lemma lt_bang_starts : forall X, lt_bang X = false ->
  starts_with ENT X = false /\ starts_with COPEN X = false.
Proof.
  intros [|c [|d X]] H; [split; reflexivity| |].
  - unfold ENT, COPEN. cbn [starts_with]. destruct (N.eqb 60 c); split; reflexivity.
  - unfold ENT, COPEN. cbn [starts_with]. cbn [lt_bang head_is] in H. unfold is_bang in H.
    rewrite (N.eqb_sym 60 c), (N.eqb_sym 33 d).
    destruct (N.eqb c 60); [|split; reflexivity]. cbn [andb] in *. rewrite H. split; reflexivity.
Qed.

Lemma lt_bang_suffix : forall g after, no_lt_bang g = true -> head_is is_bang after = false ->
  forall i, i < length g -> lt_bang (skipn i g ++ after) = false.
Proof.
  induction g as [|c g IH]; intros after Hg Ha i Hi; [simpl in Hi; lia|].
  cbn [no_lt_bang] in Hg. apply andb_true_iff in Hg. destruct Hg as [H1 H2]. apply negb_true_iff in H1.
  destruct i as [|i].
  - cbn [skipn app lt_bang]. destruct g as [|d g']; [cbn [app]; rewrite Ha; apply andb_false_r|].
    cbn [app head_is] in *. exact H1.
  - cbn [skipn]. apply IH; auto. simpl in Hi. lia.
Qed.

(* a search from inside any region at whose positions the expression fails continues at its end *)
Lemma search_from_region : forall R (a G after : str),
  (forall i, i < length G ->
     run_at R (mkst (rev (firstn i G) ++ rev a) (skipn i G ++ after) (length a + i) []) (fun _ => true) = MNone) ->
  1 <= length G ->
  rsearch R (a ++ G ++ after) (S (length a)) =
  search_from R (S (length after)) (mkst (rev G ++ rev a) after (length a + length G) []) None.
Proof.
  intros R a G after Hfail Hpos.
  destruct G as [|g0 G']; [simpl in Hpos; lia|].
  assert (Es : a ++ (g0 :: G') ++ after = (a ++ [g0]) ++ G' ++ after) by (norm_app; reflexivity).
  replace (S (length a)) with (length (a ++ [g0])) by (rewrite app_length; simpl; lia).
  rewrite Es, rsearch_split, C02BlocksIniJunk.search_skip_exact.
  - rewrite app_length. replace (S (length G' + length after) - length G') with (S (length after)) by lia.
    rewrite rev_app_distr. simpl rev. rewrite app_length. simpl length.
    replace (length a + 1 + length G') with (length a + S (length G')) by lia.
    rewrite <- app_assoc. reflexivity.
  - rewrite app_length. lia.
  - intros i Hi. pose proof (Hfail (S i)) as H. simpl in H. rewrite rev_app_distr. simpl rev.
    rewrite app_length. simpl length. rewrite <- app_assoc in H.
    replace (length a + 1 + i) with (length a + S i) by lia. apply H. lia.
Qed.

Lemma key_attempt : forall X pr p, lt_bang X = false ->
  run_at rx_dtd_key (mkst pr X p []) (fun _ => true) = MNone.
Proof.
  intros X pr p H. rewrite run_at_k0, key_fails by (apply lt_bang_starts; exact H). reflexivity.
Qed.

Lemma comment_attempt : forall X pr p, lt_bang X = false ->
  run_at rx_dtd_comment (mkst pr X p []) (fun _ => true) = MNone.
Proof.
  intros X pr p H. rewrite run_at_k0, comment_shape, m_lits_fail by (apply lt_bang_starts; exact H).
  reflexivity.
Qed.

Lemma omatch_pe_none : forall (a X : str), starts_with ENT X = false ->
  omatch rx_dtd_pe (a ++ X) (length a) = None.
Proof.
  intros a X H. rewrite omatch_split, run_at_k0, pe_shape, m_lits_fail by exact H. reflexivity.
Qed.

(* ---- step: a garbage region ---------------------------------------------------------------------------- *)
Inductive junk_after : str -> Prop :=
| ja_eof : junk_after []
| ja_comment : forall body X, legal_cbody body = true -> junk_after (comment_text body ++ X)
| ja_decl : forall ws1 name ws2 q v ws3 T, legal_decl ws1 name ws2 q v ws3 = true ->
            junk_after (decl_text ws1 name ws2 q v ws3 ++ T).

Lemma junk_after_head : forall after, junk_after after -> head_is is_bang after = false.
Proof.
  intros after [|body X _|ws1 name ws2 q v ws3 T _]; [reflexivity| |].
  - destruct (comment_head body X) as [y Ey]. rewrite Ey. reflexivity.
  - destruct (decl_head ws1 name ws2 q v ws3 T) as [y Ey]. rewrite Ey. reflexivity.
Qed.

Lemma gn_dtd_garbage : forall (a g after : str),
  legal_garbage g = true -> junk_after after ->
  gn_dtd (a ++ g ++ after) (length a) = mk_junk (length a, length a + length g).
Proof.
  intros a g after Hg Hafter. pose proof (junk_after_head after Hafter) as Hah.
  destruct g as [|c g'] eqn:Eg; [discriminate|]. rewrite <- Eg in *.
  assert (Hpos : 1 <= length g) by (rewrite Eg; simpl; lia).
  unfold legal_garbage in Hg. rewrite Eg in Hg. rewrite <- Eg in Hg.
  apply andb_true_iff in Hg. destruct Hg as [Hg Hnb]. apply andb_true_iff in Hg. destruct Hg as [Hws Hbom].
  apply negb_true_iff in Hws. apply negb_true_iff in Hbom.
  pose proof (lt_bang_suffix g after Hnb Hah) as Hsuf.
  set (s := a ++ g ++ after).
  assert (H0 : lt_bang (g ++ after) = false) by (apply (Hsuf 0); lia).
  destruct (lt_bang_starts _ H0) as [S1 S2].
  assert (Hhw : head_is (fun c => mem c WS) (g ++ after) = false) by (rewrite Eg; exact Hws).
  assert (Hhb : head_is (N.eqb bom) (g ++ after) = false) by (rewrite Eg; exact Hbom).
  assert (Ec : omatch rx_dtd_comment s (length a) = None) by (apply omatch_comment_none; exact S2).
  assert (Ew : omatch rx_dtd_ws s (length a) = None) by (apply omatch_dtd_ws_none; exact Hhw).
  assert (Ek : omatch rx_dtd_key s (length a) = None) by (apply omatch_key_none; exact S1).
  assert (Ep : omatch rx_dtd_pe s (length a) = None) by (apply omatch_pe_none; exact S1).
  assert (Gk : e_kind (gnb s (length a)) = KJunk) by (apply gnb_junk_kind; assumption).
  unfold s. rewrite gn_dtd_junk; [|intros _; exact Hhb|exact Gk]. fold s. rewrite Ep.
  unfold gnb, get_next_base, the_fmt, fmt_dtd.
  cbn [f_comment f_ws f_key f_cstyle f_license_below f_create f_junk]. rewrite Ec, Ew, Ek.
  (* the two searches of getJunk *)
  set (p := length a + length g).
  assert (Ak : forall i, i < length g ->
            run_at rx_dtd_key (mkst (rev (firstn i g) ++ rev a) (skipn i g ++ after) (length a + i) [])
                   (fun _ => true) = MNone) by (intros i Hi; apply key_attempt; apply Hsuf; exact Hi).
  assert (Ac : forall i, i < length g ->
            run_at rx_dtd_comment (mkst (rev (firstn i g) ++ rev a) (skipn i g ++ after) (length a + i) [])
                   (fun _ => true) = MNone) by (intros i Hi; apply comment_attempt; apply Hsuf; exact Hi).
  assert (Sk := search_from_region rx_dtd_key a g after Ak Hpos).
  assert (Sc := search_from_region rx_dtd_comment a g after Ac Hpos).
  fold p in Sk, Sc. set (z := mkst (rev g ++ rev a) after p []) in *.
  assert (Ok : osearch rx_dtd_key s (S (length a)) =
               match search_from rx_dtd_key (S (length after)) z None with MSome x => Some x | _ => None end)
    by (unfold osearch; unfold s; rewrite Sk; reflexivity).
  assert (Oc : osearch rx_dtd_comment s (S (length a)) =
               match search_from rx_dtd_comment (S (length after)) z None with MSome x => Some x | _ => None end)
    by (unfold osearch; unfold s; rewrite Sc; reflexivity).
  assert (Bnd : forall R, osearch R s (S (length a)) =
                  match search_from R (S (length after)) z None with MSome x => Some x | _ => None end ->
                  C02BlocksIniJunk.jbounded s (length a) p R).
  { intros R HO. unfold C02BlocksIniJunk.jbounded. rewrite HO.
    pose proof (C02BlocksIniJunk.search_bound R (S (length after)) (rev g ++ rev a) after p) as B. fold z in B.
    destruct (search_from R (S (length after)) z None) as [|x|]; [left|right|left]; auto.
    exists x. split; [reflexivity|exact B]. }
  assert (HB : Forall (C02BlocksIniJunk.jbounded s (length a) p) [rx_dtd_key; rx_dtd_comment])
    by (constructor; [apply Bnd; exact Ok|constructor; [apply Bnd; exact Oc|constructor]]).
  assert (Hit : forall R x, run_at R z (fun _ => true) = MSome x -> m_start x = p ->
                  osearch R s (S (length a)) =
                  match search_from R (S (length after)) z None with MSome x => Some x | _ => None end ->
                  C02BlocksIniJunk.jhits s (length a) p R).
  { intros R x Hr Hs HO. exists x. rewrite HO, search_from_S. cbv beta iota.
    change (fun s' : st => true) with (fun _ : st => true). rewrite Hr. split; [reflexivity|exact Hs]. }
  destruct Hafter as [|body X Hb|ws1 name ws2 q v ws3 T Hd].
  - (* the end of the file: nothing is found *)
    rewrite C02BlocksIniJunk.get_junk_none.
    + unfold s. rewrite !app_length. simpl. rewrite Nat.add_0_r. reflexivity.
    + repeat constructor.
      * rewrite Ok, search_from_S. cbv beta iota. change (fun s' : st => true) with (fun _ : st => true).
        unfold z. rewrite key_attempt by reflexivity. reflexivity.
      * rewrite Oc, search_from_S. cbv beta iota. change (fun s' : st => true) with (fun _ : st => true).
        unfold z. rewrite comment_attempt by reflexivity. reflexivity.
  - (* a comment *)
    destruct (comment_match body X (rev g ++ rev a) p Hb) as [cs' E].
    apply C02BlocksIniJunk.get_junk_hit; [unfold p; lia|exact HB|]. apply Exists_cons_tl. apply Exists_cons_hd.
    eapply Hit; [unfold z; rewrite run_at_k0, E; reflexivity|reflexivity|exact Oc].
  - (* an entity declaration *)
    destruct (legal_decl_facts _ _ _ _ _ _ Hd) as [N1 [W1 [Hn [N2 [W2 [Hq W3]]]]]].
    destruct (key_steps ws1 name ws2 q v ws3 T (rev g ++ rev a) p N1 W1 Hn N2 W2 Hq W3)
      as [s' [H1 [H2 [H3 H4]]]].
    apply C02BlocksIniJunk.get_junk_hit; [unfold p; lia|exact HB|]. apply Exists_cons_hd.
    eapply Hit; [unfold z; rewrite run_at_k0, decl_text_app, H1 by (rewrite k0_done; discriminate);
                 rewrite k0_done; reflexivity|reflexivity|exact Ok].
Qed.

(* ---- blocks with garbage regions -------------------------------------------------------------------------- *)
Inductive jblock :=
| JB (b : block)
| JG (g : str).

Definition jtext (jb : jblock) : str := match jb with JB b => text b | JG g => g end.
Definition jfile_text (bs : list jblock) : str := concat (map jtext bs).
Definition legal_jblockb (jb : jblock) : bool :=
  match jb with JB b => legal_blockb b | JG g => legal_garbage g end.
Definition legal_jblock (jb : jblock) : Prop := legal_jblockb jb = true.

Fixpoint jlead_ws (bs : list jblock) : str :=
  match bs with
  | JB (BBlank w) :: rest => w ++ jlead_ws rest
  | _ => []
  end.
Fixpoint jdrop_ws (bs : list jblock) : list jblock :=
  match bs with
  | JB (BBlank _) :: rest => jdrop_ws rest
  | _ => bs
  end.
Definition jbare_entity_head (bs : list jblock) : bool :=
  match bs with
  | JB (BEntity None _ _ _ _ _ _) :: _ => true
  | _ => false
  end.
Definition jcomment_next_ok (rest : list jblock) : bool :=
  (2 <=? count_char 10%N (jlead_ws rest)) || negb (jbare_entity_head (jdrop_ws rest)).

(* as C02BlocksDtd.separatedb; a garbage region is followed by the end of the file, a comment or
   an entity declaration (whitespace would belong to the junk, a parameter entity would be
   swallowed by it) *)
Fixpoint jseparatedb (bs : list jblock) : bool :=
  match bs with
  | [] => true
  | JB (BComment _) :: rest => jcomment_next_ok rest && jseparatedb rest
  | JB (BPE d) :: rest => pe_next_ok d (jfile_text rest) && jseparatedb rest
  | JG _ :: rest =>
      match rest with
      | [] | JB (BComment _) :: _ | JB (BEntity _ _ _ _ _ _ _) :: _ => true
      | _ => false
      end && jseparatedb rest
  | _ :: rest => jseparatedb rest
  end.

Fixpoint jlicense_okb (off : nat) (bs : list jblock) : bool :=
  match bs with
  | JB (BBlank w) :: rest => jlicense_okb (off + length w) rest
  | JG g :: rest => jlicense_okb (off + length g) rest
  | JB (BEntity (Some (body, _)) _ _ _ _ _ _) :: _ => negb ((off <? 2) && contains s_License body)
  | _ => true
  end.

Definition jadjacent_okb (bs : list jblock) : bool := jseparatedb bs && jlicense_okb 0 bs.
Definition jadjacent_ok (bs : list jblock) : Prop := jadjacent_okb bs = true.

Fixpoint jents (off w : nat) (bs : list jblock) : list entry :=
  match bs with
  | [] => flush off w
  | JB (BBlank x) :: rest => jents off (w + length x) rest
  | JB (BComment body) :: rest =>
      let a := off + w in
      let e := a + length (comment_text body) in
      flush off w ++ mk_comment (a, e) :: jents e 0 rest
  | JB (BEntity pre ws1 name ws2 q v ws3) :: rest =>
      let a := off + w in
      let e := key_end ws1 name ws2 v ws3 (a + length (pre_text pre)) in
      flush off w ++ entity_entry a pre ws1 name ws2 v ws3 :: jents e 0 rest
  | JB (BPE d) :: rest =>
      let a := off + w in
      flush off w ++ pe_entry a d :: jents (a + length (pe_text d)) 0 rest
  | JG g :: rest =>
      let a := off + w in
      flush off w ++ mk_junk (a, a + length g) :: jents (a + length g) 0 rest
  end.
Definition jentries_of (bs : list jblock) : list entry := jents 0 0 bs.

(* sanity, by evaluation:
   <!ENTITY a "b"> / "x<y> &amp; " / <!-- c - d -->..<!ENTITY foo.bar ..> / newline / comment / "]]>" *)
Definition jx_g : jblock := JG (A [120; 60; 121; 62; 32; 38; 97; 109; 112; 59; 32]).
Example jx_junk :
  let bs := [JB ex_e1; jx_g; JB ex_e2; JB ex_b; JB ex_c; JG (A [93; 93; 62]); JB ex_e1; JG (A [60; 10])] in
  Forall legal_jblock bs /\ jadjacent_ok bs /\ walk_dtd (jfile_text bs) = Ok (jentries_of bs) /\
  filter (C02Blocks.is_kind KJunk) (jentries_of bs) = [mk_junk (15, 26); mk_junk (87, 90); mk_junk (105, 107)].
Proof. split; [repeat constructor|]. split; [vm_compute; reflexivity|]. split; vm_compute; reflexivity. Qed.

(* ---- the walk with garbage regions ------------------------------------------------------------------------ *)
Definition jstmt (bs : list jblock) (a w : str) : Prop :=
  jlicense_okb (length a + length w) bs = true ->
  forall fuel, length (a ++ w ++ jfile_text bs) - length a < fuel ->
  walk_loop (stateless gn_dtd) fuel tt (a ++ w ++ jfile_text bs) (length a) =
  Ok (jents (length a) (length w) bs).

Definition jnonblank_head (bs : list jblock) : Prop :=
  match bs with JB (BBlank _) :: _ => False | _ => True end.

Lemma jents_flush : forall bs off w, jnonblank_head bs ->
  jents off w bs = flush off w ++ jents (off + w) 0 bs.
Proof.
  intros [|[[x|body|pre ws1 name ws2 q v ws3|d]|g] rest] off w H; try contradiction; simpl;
    rewrite ?Nat.add_0_r, ?app_nil_r; reflexivity.
Qed.

Lemma jfile_text_cons : forall b bs, jfile_text (b :: bs) = jtext b ++ jfile_text bs.
Proof. reflexivity. Qed.

Lemma jlift_flush : forall bs, jnonblank_head bs ->
  head_is (fun c => mem c WS) (jfile_text bs) = false ->
  (forall a, jstmt bs a []) ->
  forall a w, is_ws w = true -> jstmt bs a w.
Proof.
  intros bs Hnb Hhead H0 a w Hw Hlic fuel Hf.
  destruct w as [|c w'] eqn:Ew; [apply (H0 a); auto|]. rewrite <- Ew in *.
  assert (Hne : w <> []) by (rewrite Ew; discriminate).
  destruct fuel as [|f]; [lia|].
  rewrite jents_flush by exact Hnb.
  assert (Efl : flush (length a) (length w) = [mk_white (length a, length a + length w)])
    by (rewrite Ew; reflexivity).
  rewrite Efl. simpl app.
  pose proof (gn_white a w (jfile_text bs) Hne Hw Hhead) as G.
  rewrite <- G. apply walk_step.
  - rewrite !app_length. rewrite Ew. simpl. lia.
  - rewrite G. cbn [mk_white e_span snd].
    assert (Hs : a ++ w ++ jfile_text bs = (a ++ w) ++ [] ++ jfile_text bs)
      by (rewrite <- app_assoc; reflexivity).
    rewrite Hs, <- app_length. apply (H0 (a ++ w)).
    + cbn [length]. rewrite Nat.add_0_r, app_length. exact Hlic.
    + rewrite <- Hs. rewrite !app_length in *. rewrite Ew in *. simpl in *. lia.
Qed.

Lemma jlicense_ok_far : forall bs off, 2 <= off -> jlicense_okb off bs = true.
Proof.
  induction bs as [|[[x|body|[[body iw]|] ws1 name ws2 q v ws3|d]|g] rest IH]; intros off H; try reflexivity.
  - cbn [jlicense_okb]. apply IH. lia.
  - cbn [jlicense_okb]. replace (off <? 2) with false by (symmetry; apply Nat.ltb_ge; exact H). reflexivity.
  - cbn [jlicense_okb]. apply IH. lia.
Qed.

Lemma jfile_text_lead : forall bs, jfile_text bs = jlead_ws bs ++ jfile_text (jdrop_ws bs).
Proof.
  induction bs as [|[[x|body|pre ws1 name ws2 q v ws3|d]|g] rest IH]; try reflexivity.
  rewrite jfile_text_cons. cbn [jtext text jlead_ws jdrop_ws]. rewrite IH, app_assoc. reflexivity.
Qed.

Lemma jlead_ws_is_ws : forall bs, Forall legal_jblock bs -> is_ws (jlead_ws bs) = true.
Proof.
  induction bs as [|[[x|body|pre ws1 name ws2 q v ws3|d]|g] rest IH]; intros H; try reflexivity.
  inversion H as [|b' r' Hb Hr]; subst. cbn [jlead_ws]. unfold is_ws. rewrite forallb_app.
  unfold legal_jblock in Hb. cbn [legal_jblockb legal_blockb] in Hb. apply andb_true_iff in Hb.
  destruct Hb as [_ Hb]. unfold is_ws in Hb. rewrite Hb. apply IH. exact Hr.
Qed.

Lemma jdrop_ws_legal : forall bs, Forall legal_jblock bs -> Forall legal_jblock (jdrop_ws bs).
Proof.
  induction bs as [|[[x|body|pre ws1 name ws2 q v ws3|d]|g] rest IH]; intros H; try exact H.
  inversion H; subst. cbn [jdrop_ws]. apply IH. assumption.
Qed.

Lemma jdrop_ws_nonblank : forall bs, jnonblank_head (jdrop_ws bs).
Proof. induction bs as [|[[x|body|pre ws1 name ws2 q v ws3|d]|g] rest IH]; simpl; auto. Qed.

Lemma garbage_head_ws : forall g Y, legal_garbage g = true -> head_is (fun c => mem c WS) (g ++ Y) = false.
Proof.
  intros [|c g] Y H; [discriminate|]. unfold legal_garbage in H. apply andb_true_iff in H.
  destruct H as [H _]. apply andb_true_iff in H. destruct H as [H _]. apply negb_true_iff in H. exact H.
Qed.

Lemma garbage_not_ent : forall g Y, legal_garbage g = true -> head_is is_bang Y = false ->
  starts_with ENT (g ++ Y) = false.
Proof.
  intros g Y H HY. destruct g as [|c g'] eqn:Eg; [discriminate|]. rewrite <- Eg in *.
  assert (Hnb : no_lt_bang g = true).
  { unfold legal_garbage in H. rewrite Eg in H. rewrite <- Eg in H. apply andb_true_iff in H. apply H. }
  apply lt_bang_starts. apply (lt_bang_suffix g Y Hnb HY 0). rewrite Eg. simpl. lia.
Qed.

Lemma jnonblank_head_ws : forall bs, Forall legal_jblock bs -> jnonblank_head bs ->
  head_is (fun c => mem c WS) (jfile_text bs) = false.
Proof.
  intros [|[[x|body|pre ws1 name ws2 q v ws3|d]|g] rest] Hleg Hnb; [reflexivity|contradiction| | | |];
    rewrite jfile_text_cons; cbn [jtext text].
  - destruct (comment_head body (jfile_text rest)) as [y Ey]. rewrite Ey. reflexivity.
  - destruct pre as [[body iw]|].
    + cbn [pre_text]. rewrite <- !app_assoc.
      destruct (comment_head body (iw ++ decl_text ws1 name ws2 q v ws3 ++ jfile_text rest)) as [y Ey].
      rewrite Ey. reflexivity.
    + cbn [pre_text app]. destruct (decl_head ws1 name ws2 q v ws3 (jfile_text rest)) as [y Ey].
      rewrite Ey. reflexivity.
  - destruct (pe_head d (jfile_text rest)) as [y Ey]. rewrite Ey. reflexivity.
  - inversion Hleg as [|b' r' Hb _]; subst. apply garbage_head_ws. exact Hb.
Qed.

(* what follows a garbage region, read off the next block *)
Lemma junk_after_rest : forall rest, Forall legal_jblock rest ->
  match rest with
  | [] | JB (BComment _) :: _ | JB (BEntity _ _ _ _ _ _ _) :: _ => true
  | _ => false
  end = true ->
  junk_after (jfile_text rest).
Proof.
  intros [|[[x|body|pre ws1 name ws2 q v ws3|d]|g] rest'] Hleg Hk; try discriminate.
  - constructor.
  - inversion Hleg as [|b' r' Hb _]; subst. rewrite jfile_text_cons. cbn [jtext text]. constructor. exact Hb.
  - inversion Hleg as [|b' r' Hb _]; subst. unfold legal_jblock in Hb. cbn [legal_jblockb legal_blockb] in Hb.
    apply andb_true_iff in Hb. destruct Hb as [Hpre Hdecl].
    rewrite jfile_text_cons. cbn [jtext text]. destruct pre as [[body iw]|].
    + cbn [pre_text]. rewrite <- !app_assoc. constructor.
      cbn [legal_pre] in Hpre. apply andb_true_iff in Hpre. destruct Hpre as [Hpre _].
      apply andb_true_iff in Hpre. apply Hpre.
    + cbn [pre_text app]. constructor. exact Hdecl.
Qed.

(* what follows a standalone comment and its whitespace is not a declaration *)
Lemma jnot_bare_no_key : forall bs, Forall legal_jblock bs -> jnonblank_head bs ->
  jseparatedb bs = true -> jbare_entity_head bs = false ->
  forall P : str, omatch rx_dtd_key (P ++ jfile_text bs) (length P) = None.
Proof.
  intros [|[[x|body|pre ws1 name ws2 q v ws3|d]|g] rest] Hleg Hnb Hsep Hbare P; [|contradiction| | | |].
  - apply omatch_key_none. reflexivity.
  - apply omatch_key_none. rewrite jfile_text_cons. cbn [jtext text].
    destruct (comment_head body (jfile_text rest)) as [y Ey]. rewrite Ey. reflexivity.
  - destruct pre as [[body iw]|]; [|discriminate]. apply omatch_key_none.
    rewrite jfile_text_cons. cbn [jtext text pre_text]. rewrite <- !app_assoc.
    destruct (comment_head body (iw ++ decl_text ws1 name ws2 q v ws3 ++ jfile_text rest)) as [y Ey].
    rewrite Ey. reflexivity.
  - rewrite jfile_text_cons. cbn [jtext text]. apply omatch_key_none_pe.
    inversion Hleg as [|b' r' Hb _]; subst. exact Hb.
  - inversion Hleg as [|b' r' Hb Hrest]; subst. rewrite jfile_text_cons. cbn [jtext].
    apply omatch_key_none. apply garbage_not_ent; [exact Hb|].
    apply junk_after_head. apply junk_after_rest; [exact Hrest|].
    cbn [jseparatedb] in Hsep. apply andb_true_iff in Hsep. apply Hsep.
Qed.

Lemma jseparated_drop : forall bs, jseparatedb bs = true -> jseparatedb (jdrop_ws bs) = true.
Proof.
  induction bs as [|[[x|body|pre ws1 name ws2 q v ws3|d]|g] rest IH]; intros H; try exact H.
  cbn [jdrop_ws]. apply IH. exact H.
Qed.

Lemma walk_jents : forall bs, Forall legal_jblock bs -> jseparatedb bs = true ->
  forall a w, is_ws w = true -> jstmt bs a w.
Proof.
  induction bs as [|b rest IH]; intros Hleg Hsep.
  - apply jlift_flush; [exact I|reflexivity|].
    intros a _ fuel Hf. simpl. apply walk_loop_done. rewrite !app_length. simpl. lia.
  - inversion Hleg as [|b' rest' Hb Hrest]; subst b' rest'.
    destruct b as [[x|body|pre ws1 name ws2 q v ws3|d]|g].
    + (* whitespace: joins what is pending *)
      intros a w Hw Hlic fuel Hf. simpl in Hsep.
      unfold legal_jblock in Hb. cbn [legal_jblockb legal_blockb] in Hb. apply andb_true_iff in Hb.
      destruct Hb as [Hx1 Hx2].
      assert (Hs : a ++ w ++ jfile_text (JB (BBlank x) :: rest) = a ++ (w ++ x) ++ jfile_text rest).
      { rewrite jfile_text_cons. cbn [jtext text]. rewrite <- app_assoc. reflexivity. }
      simpl jents. rewrite Hs in *. rewrite <- app_length. apply (IH Hrest Hsep); auto.
      * unfold is_ws in *. rewrite forallb_app, Hw, Hx2. reflexivity.
      * cbn [jlicense_okb] in Hlic. rewrite app_length, Nat.add_assoc. exact Hlic.
    + (* a standalone comment *)
      unfold legal_jblock in Hb. cbn [legal_jblockb legal_blockb] in Hb.
      simpl in Hsep. apply andb_true_iff in Hsep. destruct Hsep as [Hnext Hsep].
      assert (Hhd : head_is (fun c => mem c WS) (jfile_text (JB (BComment body) :: rest)) = false).
      { apply jnonblank_head_ws; [exact Hleg|exact I]. }
      apply jlift_flush; [exact I|exact Hhd|].
      intros a _ fuel Hf. destruct fuel as [|f]; [lia|].
      rewrite jfile_text_cons in *. cbn [jtext text] in *. cbn [app] in *.
      set (W := jlead_ws rest). set (Y := jfile_text (jdrop_ws rest)).
      assert (Er : jfile_text rest = W ++ Y) by apply jfile_text_lead.
      assert (HW : is_ws W = true) by (apply jlead_ws_is_ws; exact Hrest).
      assert (HY : head_is (fun c => mem c WS) Y = false).
      { apply jnonblank_head_ws; [apply jdrop_ws_legal; exact Hrest|apply jdrop_ws_nonblank]. }
      assert (Hn : 2 <= count_char 10%N W \/
                   forall P : str, omatch rx_dtd_key (P ++ Y) (length P) = None).
      { unfold jcomment_next_ok in Hnext. apply orb_true_iff in Hnext. destruct Hnext as [H|H].
        - left. apply Nat.leb_le. exact H.
        - right. apply jnot_bare_no_key; [apply jdrop_ws_legal; exact Hrest|apply jdrop_ws_nonblank| |].
          + apply jseparated_drop. exact Hsep.
          + apply negb_true_iff. exact H. }
      pose proof (gn_comment a body W Y Hb HW HY Hn) as G. rewrite <- Er in G.
      cbn [length jents flush app]. rewrite !Nat.add_0_r. rewrite <- G. apply walk_step.
      * rewrite !app_length, comment_text_length. lia.
      * rewrite G. cbn [mk_comment e_span snd].
        assert (Hs : a ++ comment_text body ++ jfile_text rest =
                     (a ++ comment_text body) ++ [] ++ jfile_text rest)
          by (rewrite <- app_assoc; reflexivity).
        rewrite Hs, <- app_length. change 0 with (length (@nil N)).
        apply (IH Hrest Hsep); [reflexivity| |].
        -- apply jlicense_ok_far. rewrite app_length, comment_text_length. lia.
        -- rewrite <- Hs. rewrite !app_length, comment_text_length in *. lia.
    + (* an entity declaration *)
      unfold legal_jblock in Hb. cbn [legal_jblockb legal_blockb] in Hb. apply andb_true_iff in Hb.
      destruct Hb as [Hpre Hdecl]. simpl in Hsep.
      assert (Hhd : head_is (fun c => mem c WS)
                      (jfile_text (JB (BEntity pre ws1 name ws2 q v ws3) :: rest)) = false).
      { apply jnonblank_head_ws; [exact Hleg|exact I]. }
      apply jlift_flush; [exact I|exact Hhd|].
      intros a Hlic fuel Hf. destruct fuel as [|f]; [lia|].
      rewrite jfile_text_cons in *. cbn [jtext text] in *. cbn [app] in *.
      assert (Hs0 : a ++ (pre_text pre ++ decl_text ws1 name ws2 q v ws3) ++ jfile_text rest =
                    a ++ pre_text pre ++ decl_text ws1 name ws2 q v ws3 ++ jfile_text rest)
        by (rewrite <- app_assoc; reflexivity).
      rewrite Hs0 in *.
      assert (Hl : forall body iw, pre = Some (body, iw) ->
                   (length a <? 2) && contains s_License body = false).
      { intros body iw E. subst pre. cbn [jlicense_okb length] in Hlic. rewrite Nat.add_0_r in Hlic.
        apply negb_true_iff in Hlic. exact Hlic. }
      pose proof (gn_entity a pre ws1 name ws2 q v ws3 (jfile_text rest) Hpre Hdecl Hl) as G.
      cbn [length jents flush app]. rewrite !Nat.add_0_r. rewrite <- G. apply walk_step.
      * rewrite !app_length. pose proof (decl_text_length ws1 name ws2 q v ws3 0) as HL.
        unfold key_end in HL. lia.
      * rewrite G. unfold entity_entry. cbn [e_span snd].
        set (A0 := a ++ pre_text pre ++ decl_text ws1 name ws2 q v ws3).
        assert (Hs2 : a ++ pre_text pre ++ decl_text ws1 name ws2 q v ws3 ++ jfile_text rest
                      = A0 ++ [] ++ jfile_text rest) by (unfold A0; norm_app; reflexivity).
        assert (El : key_end ws1 name ws2 v ws3 (length a + length (pre_text pre)) = length A0).
        { unfold A0. rewrite <- (decl_text_length ws1 name ws2 q v ws3), !app_length. lia. }
        rewrite Hs2, El. change 0 with (length (@nil N)).
        apply (IH Hrest Hsep); [reflexivity| |].
        -- apply jlicense_ok_far. rewrite <- El. unfold key_end. cbn [length]. lia.
        -- assert (Hlt : length a < length A0) by (rewrite <- El; unfold key_end; lia).
           rewrite Hs2 in Hf. clear - Hf Hlt. rewrite !app_length in *. simpl in *. lia.
    + (* a parameter entity *)
      unfold legal_jblock in Hb. cbn [legal_jblockb legal_blockb] in Hb.
      simpl in Hsep. apply andb_true_iff in Hsep. destruct Hsep as [Hnext Hsep].
      assert (Hhd : head_is (fun c => mem c WS) (jfile_text (JB (BPE d) :: rest)) = false).
      { apply jnonblank_head_ws; [exact Hleg|exact I]. }
      apply jlift_flush; [exact I|exact Hhd|].
      intros a _ fuel Hf. destruct fuel as [|f]; [lia|].
      rewrite jfile_text_cons in *. cbn [jtext text] in *. cbn [app] in *.
      pose proof (gn_pe a d (jfile_text rest) Hb Hnext) as G.
      pose proof (pe_text_length d) as HL.
      cbn [length jents flush app]. rewrite !Nat.add_0_r. rewrite <- G. apply walk_step.
      * rewrite !app_length. lia.
      * rewrite G. cbn [pe_entry e_span snd].
        assert (Hs : a ++ pe_text d ++ jfile_text rest = (a ++ pe_text d) ++ [] ++ jfile_text rest)
          by (rewrite <- app_assoc; reflexivity).
        rewrite Hs, <- app_length. change 0 with (length (@nil N)).
        apply (IH Hrest Hsep); [reflexivity| |].
        -- apply jlicense_ok_far. rewrite app_length. lia.
        -- rewrite <- Hs. rewrite !app_length in *. lia.
    + (* a garbage region: one junk entry, exactly the region *)
      unfold legal_jblock in Hb. cbn [legal_jblockb] in Hb.
      cbn [jseparatedb] in Hsep. apply andb_true_iff in Hsep. destruct Hsep as [Hnext Hsep].
      assert (Hpos : 1 <= length g) by (destruct g; [discriminate|simpl; lia]).
      apply jlift_flush; [exact I| |].
      { rewrite jfile_text_cons. cbn [jtext]. apply garbage_head_ws. exact Hb. }
      intros a Hlic fuel Hf. destruct fuel as [|f]; [lia|].
      rewrite jfile_text_cons in *. cbn [jtext] in *. cbn [app] in *.
      pose proof (gn_dtd_garbage a g (jfile_text rest) Hb (junk_after_rest rest Hrest Hnext)) as G.
      cbn [length jents flush app]. rewrite !Nat.add_0_r. rewrite <- G. apply walk_step.
      * rewrite !app_length. lia.
      * rewrite G. cbn [mk_junk e_span snd].
        assert (Hs : a ++ g ++ jfile_text rest = (a ++ g) ++ [] ++ jfile_text rest)
          by (rewrite <- app_assoc; reflexivity).
        rewrite Hs, <- app_length. change 0 with (length (@nil N)).
        apply (IH Hrest Hsep); [reflexivity| |].
        -- cbn [jlicense_okb length] in Hlic. rewrite Nat.add_0_r in *. rewrite app_length. exact Hlic.
        -- rewrite <- Hs. rewrite !app_length in *. lia.
Qed.

(* ---- the block theorem with garbage regions ---------------------------------------------------------------- *)
Theorem blocks_dtd_junk : forall bs : list jblock,
  Forall legal_jblock bs -> jadjacent_ok bs ->
  walk_dtd (jfile_text bs) = Ok (jentries_of bs).
Proof.
  intros bs Hleg Hadj. unfold jadjacent_ok, jadjacent_okb in Hadj. apply andb_true_iff in Hadj.
  destruct Hadj as [Hsep Hlic]. unfold walk_dtd, walk, jentries_of.
  apply (walk_jents bs Hleg Hsep [] [] eq_refl Hlic). simpl. lia.
Qed.
Print Assumptions blocks_dtd_junk.

(* ---- what the entries contain ----------------------------------------------------------------------------- *)
Fixpoint jrecords_of (bs : list jblock) : list C02Blocks.record :=
  match bs with
  | [] => []
  | JB (BEntity pre _ name _ _ v _) :: rest =>
      (name, v, match pre with Some (body, _) => Some (comment_text body) | None => None end)
      :: jrecords_of rest
  | JB (BPE d) :: rest => (pe_name d, pe_q d :: pe_v d ++ [pe_q d], None) :: jrecords_of rest
  | _ :: rest => jrecords_of rest
  end.
Fixpoint jcomments_of (bs : list jblock) : list str :=
  match bs with
  | [] => []
  | JB (BComment body) :: rest => comment_text body :: jcomments_of rest
  | _ :: rest => jcomments_of rest
  end.
Fixpoint jgarbage_of (bs : list jblock) : list str :=
  match bs with
  | [] => []
  | JG g :: rest => g :: jgarbage_of rest
  | _ :: rest => jgarbage_of rest
  end.

Lemma jents_views : forall bs (a w : str),
  let s := a ++ w ++ jfile_text bs in
  map (C02Blocks.entity_record s)
      (filter (C02Blocks.is_kind KEntity) (jents (length a) (length w) bs)) = jrecords_of bs /\
  map (fun e => C02Blocks.span_text s (e_span e))
      (filter (C02Blocks.is_kind KComment) (jents (length a) (length w) bs)) = jcomments_of bs /\
  map (fun e => C02Blocks.span_text s (e_span e))
      (filter (C02Blocks.is_kind KJunk) (jents (length a) (length w) bs)) = jgarbage_of bs.
Proof.
  induction bs as [|b rest IH]; intros a w s.
  - simpl jents. rewrite !flush_no by discriminate. repeat split.
  - destruct b as [[x|body|pre ws1 name ws2 q v ws3|d]|g].
    + assert (Hs : s = a ++ (w ++ x) ++ jfile_text rest).
      { unfold s. rewrite jfile_text_cons. cbn [jtext text]. rewrite <- app_assoc. reflexivity. }
      simpl jents. rewrite <- app_length, Hs. apply IH.
    + set (A0 := a ++ w ++ comment_text body).
      assert (Hs : s = A0 ++ [] ++ jfile_text rest).
      { unfold s, A0. rewrite jfile_text_cons. cbn [jtext text]. norm_app. reflexivity. }
      assert (El : length a + length w + length (comment_text body) = length A0)
        by (unfold A0; rewrite !app_length; lia).
      destruct (IH A0 []) as [I1 [I2 I3]]. rewrite <- Hs in I1, I2, I3.
      change (length (@nil N)) with 0 in I1, I2, I3.
      cbn [jents]. rewrite !filter_app, !flush_no by discriminate. rewrite El.
      cbn [app filter C02Blocks.is_kind mk_comment e_kind map e_span]. rewrite I1, I2, I3.
      split; [reflexivity|split; [|reflexivity]]. cbn [jcomments_of]. f_equal.
      unfold C02Blocks.span_text. cbn [fst snd]. unfold s. rewrite jfile_text_cons. cbn [jtext text].
      replace (a ++ w ++ comment_text body ++ jfile_text rest)
        with ((a ++ w) ++ comment_text body ++ jfile_text rest) by (norm_app; reflexivity).
      apply slice_at; [rewrite app_length; reflexivity|rewrite <- El, app_length; lia].
    + set (D := decl_text ws1 name ws2 q v ws3).
      set (A0 := a ++ w ++ pre_text pre ++ D).
      assert (Hs : s = A0 ++ [] ++ jfile_text rest).
      { unfold s, A0, D. rewrite jfile_text_cons. cbn [jtext text]. norm_app. reflexivity. }
      assert (Ek : length a + length w + length (pre_text pre) = length (a ++ w ++ pre_text pre))
        by (rewrite !app_length; lia).
      assert (El : key_end ws1 name ws2 v ws3 (length a + length w + length (pre_text pre)) = length A0).
      { unfold A0, D. rewrite <- (decl_text_length ws1 name ws2 q v ws3), !app_length. lia. }
      destruct (IH A0 []) as [I1 [I2 I3]]. rewrite <- Hs in I1, I2, I3.
      change (length (@nil N)) with 0 in I1, I2, I3.
      cbn [jents]. rewrite !filter_app, !flush_no by discriminate. rewrite El.
      unfold entity_entry at 1 2 3.
      cbn [app filter C02Blocks.is_kind e_kind map]. rewrite I1, I2, I3.
      split; [|split; reflexivity]. cbn [jrecords_of]. f_equal.
      unfold C02Blocks.entity_record. cbn [e_key e_val e_pre C02Blocks.opt_text].
      unfold C02Blocks.span_text. cbn [fst snd].
      set (K0 := a ++ w ++ pre_text pre) in *.
      assert (S1 : slice s (length a + length w + length (pre_text pre) + 8 + length ws1)
                     (length a + length w + length (pre_text pre) + 8 + length ws1 + length name) = name).
      { unfold s. rewrite jfile_text_cons. cbn [jtext text]. fold D. unfold D. rewrite <- app_assoc, decl_text_app.
        replace (a ++ w ++ pre_text pre ++ ENT ++ ws1 ++ name ++ ws2 ++ q :: v ++ q :: ws3 ++ 62%N :: jfile_text rest)
          with ((K0 ++ ENT ++ ws1) ++ name ++ (ws2 ++ q :: v ++ q :: ws3 ++ 62%N :: jfile_text rest))
          by (unfold K0; norm_app; reflexivity).
        apply slice_at; rewrite !app_length, <- Ek; unfold ENT; simpl length; lia. }
      assert (S2 : slice s (length a + length w + length (pre_text pre) + 8 + length ws1 + length name + length ws2 + 1)
                     (length a + length w + length (pre_text pre) + 8 + length ws1 + length name + length ws2 + 1 + length v) = v).
      { unfold s. rewrite jfile_text_cons. cbn [jtext text]. fold D. unfold D. rewrite <- app_assoc, decl_text_app.
        replace (a ++ w ++ pre_text pre ++ ENT ++ ws1 ++ name ++ ws2 ++ q :: v ++ q :: ws3 ++ 62%N :: jfile_text rest)
          with ((K0 ++ ENT ++ ws1 ++ name ++ ws2 ++ [q]) ++ v ++ (q :: ws3 ++ 62%N :: jfile_text rest))
          by (unfold K0; norm_app; reflexivity).
        apply slice_at; repeat (rewrite ?app_length; cbn [length]); rewrite <- Ek; unfold ENT;
          cbn [length]; lia. }
      rewrite S1, S2. f_equal.
      destruct pre as [[body iw]|]; [|reflexivity].
      cbn [option_map]. f_equal. cbn [fst snd].
      unfold s. rewrite jfile_text_cons. cbn [jtext text pre_text].
      fold D.
      replace (a ++ w ++ ((comment_text body ++ iw) ++ D) ++ jfile_text rest)
        with ((a ++ w) ++ comment_text body ++ (iw ++ D ++ jfile_text rest)) by (norm_app; reflexivity).
      apply slice_at; rewrite app_length; lia.
    + set (A0 := a ++ w ++ pe_text d).
      assert (Hs : s = A0 ++ [] ++ jfile_text rest).
      { unfold s, A0. rewrite jfile_text_cons. cbn [jtext text]. norm_app. reflexivity. }
      assert (El : length a + length w + length (pe_text d) = length A0)
        by (unfold A0; rewrite !app_length; lia).
      destruct (IH A0 []) as [I1 [I2 I3]]. rewrite <- Hs in I1, I2, I3.
      change (length (@nil N)) with 0 in I1, I2, I3.
      cbn [jents]. rewrite !filter_app, !flush_no by discriminate. rewrite El.
      unfold pe_entry at 1 2 3.
      cbn [app filter C02Blocks.is_kind e_kind map]. rewrite I1, I2, I3.
      split; [|split; reflexivity]. cbn [jrecords_of]. f_equal.
      unfold C02Blocks.entity_record. cbn [e_key e_val e_pre C02Blocks.opt_text option_map].
      unfold C02Blocks.span_text, pe_val_span, pe_key_span. cbn [fst snd].
      set (K0 := a ++ w) in *.
      assert (Ek : length a + length w = length K0) by (unfold K0; rewrite app_length; reflexivity).
      assert (Es : s = K0 ++ pe_text d ++ jfile_text rest).
      { unfold s, K0. rewrite jfile_text_cons. cbn [jtext text]. norm_app. reflexivity. }
      rewrite Es, pe_text_app.
      apply triple_eq.
      * replace (K0 ++ ENT ++ pe_ws1 d ++ 37%N :: pe_ws2 d ++ pe_name d ++ pe_ws3 d ++ SYSTEM ++ pe_ws4 d ++
                 pe_q d :: pe_v d ++ pe_q d :: pe_ws5 d ++ 62%N :: pe_ws6 d ++ 37%N :: pe_ref d ++ 59%N ::
                 (pe_tail_text d ++ jfile_text rest))
          with ((K0 ++ ENT ++ pe_ws1 d ++ 37%N :: pe_ws2 d) ++ pe_name d ++ (pe_ws3 d ++ SYSTEM ++ pe_ws4 d ++
                 pe_q d :: pe_v d ++ pe_q d :: pe_ws5 d ++ 62%N :: pe_ws6 d ++ 37%N :: pe_ref d ++ 59%N ::
                 (pe_tail_text d ++ jfile_text rest)))
          by (norm_app; reflexivity).
        apply slice_at; repeat (rewrite ?app_length; cbn [length]); rewrite <- Ek; unfold ENT;
          cbn [length]; lia.
      * replace (K0 ++ ENT ++ pe_ws1 d ++ 37%N :: pe_ws2 d ++ pe_name d ++ pe_ws3 d ++ SYSTEM ++ pe_ws4 d ++
                 pe_q d :: pe_v d ++ pe_q d :: pe_ws5 d ++ 62%N :: pe_ws6 d ++ 37%N :: pe_ref d ++ 59%N ::
                 (pe_tail_text d ++ jfile_text rest))
          with ((K0 ++ ENT ++ pe_ws1 d ++ 37%N :: pe_ws2 d ++ pe_name d ++ pe_ws3 d ++ SYSTEM ++ pe_ws4 d) ++
                 (pe_q d :: pe_v d ++ [pe_q d]) ++ (pe_ws5 d ++ 62%N :: pe_ws6 d ++ 37%N :: pe_ref d ++ 59%N ::
                 (pe_tail_text d ++ jfile_text rest)))
          by (norm_app; reflexivity).
        apply slice_at; repeat (rewrite ?app_length; cbn [length]); rewrite <- Ek; unfold ENT, SYSTEM;
          cbn [length]; lia.
    + set (A0 := a ++ w ++ g).
      assert (Hs : s = A0 ++ [] ++ jfile_text rest).
      { unfold s, A0. rewrite jfile_text_cons. cbn [jtext]. norm_app. reflexivity. }
      assert (El : length a + length w + length g = length A0)
        by (unfold A0; rewrite !app_length; lia).
      destruct (IH A0 []) as [I1 [I2 I3]]. rewrite <- Hs in I1, I2, I3.
      change (length (@nil N)) with 0 in I1, I2, I3.
      cbn [jents]. rewrite !filter_app, !flush_no by discriminate. rewrite El.
      cbn [app filter C02Blocks.is_kind mk_junk e_kind map e_span]. rewrite I1, I2, I3.
      split; [reflexivity|split; [reflexivity|]]. cbn [jgarbage_of]. f_equal.
      unfold C02Blocks.span_text. cbn [fst snd]. unfold s. rewrite jfile_text_cons. cbn [jtext].
      replace (a ++ w ++ g ++ jfile_text rest)
        with ((a ++ w) ++ g ++ jfile_text rest) by (norm_app; reflexivity).
      apply slice_at; [rewrite app_length; reflexivity|rewrite <- El, app_length; lia].
Qed.

(* with garbage regions: the entities are exactly the records, the standalone comments the
   comment blocks, and the Junk entries are, one for one and in order, exactly the garbage
   regions *)
Theorem roundtrip_dtd_junk : forall bs : list jblock,
  Forall legal_jblock bs -> jadjacent_ok bs ->
  exists es, walk_dtd (jfile_text bs) = Ok es /\
    map (C02Blocks.entity_record (jfile_text bs)) (filter (C02Blocks.is_kind KEntity) es) = jrecords_of bs /\
    map (fun e => C02Blocks.span_text (jfile_text bs) (e_span e)) (filter (C02Blocks.is_kind KComment) es) =
      jcomments_of bs /\
    map (fun e => C02Blocks.span_text (jfile_text bs) (e_span e)) (filter (C02Blocks.is_kind KJunk) es) =
      jgarbage_of bs.
Proof.
  intros bs Hleg Hadj. exists (jentries_of bs). split; [apply blocks_dtd_junk; auto|].
  exact (jents_views bs [] []).
Qed.
Print Assumptions roundtrip_dtd_junk.

(* ---- behind a byte order mark --------------------------------------------------------------------------- *)
Definition jfile_text_bom (mark : bool) (bs : list jblock) : str :=
  (if mark then [bom] else []) ++ jfile_text bs.
Definition jentries_of_bom (mark : bool) (bs : list jblock) : list entry :=
  if mark then match bs with [] => [mk_junk (1, 1)] | _ => jents 1 0 bs end else jents 0 0 bs.
Definition jadjacent_ok_bom (mark : bool) (bs : list jblock) : Prop :=
  jseparatedb bs && jlicense_okb (if mark then 1 else 0) bs = true.

Lemma jfile_text_nonempty : forall b rest, legal_jblock b -> 1 <= length (jfile_text (b :: rest)).
Proof.
  intros [b|g] rest H; rewrite jfile_text_cons, app_length; cbn [jtext].
  - pose proof (text_nonempty b H). lia.
  - destruct g; [discriminate|simpl; lia].
Qed.

Theorem blocks_dtd_junk_bom : forall (mark : bool) (bs : list jblock),
  Forall legal_jblock bs -> jadjacent_ok_bom mark bs ->
  walk_dtd (jfile_text_bom mark bs) = Ok (jentries_of_bom mark bs).
Proof.
  intros mark bs Hleg Hadj. unfold jadjacent_ok_bom in Hadj. apply andb_true_iff in Hadj.
  destruct Hadj as [Hsep Hlic]. destruct mark.
  - destruct bs as [|b rest]; [vm_compute; reflexivity|].
    unfold jentries_of_bom, jfile_text_bom, walk_dtd, walk.
    inversion Hleg as [|b' r' Hb Hrest]; subst b' r'.
    pose proof (jfile_text_nonempty b rest Hb) as Hlen.
    rewrite walk_mark; [|reflexivity|rewrite app_length; simpl length; lia].
    apply (walk_jents (b :: rest) Hleg Hsep [bom] [] eq_refl Hlic).
    rewrite !app_length. simpl length. lia.
  - unfold jentries_of_bom, jfile_text_bom, walk_dtd, walk. cbn [app].
    apply (walk_jents bs Hleg Hsep [] [] eq_refl Hlic). simpl. lia.
Qed.
Print Assumptions blocks_dtd_junk_bom.

(* ---- ONE garbage region between two block lists ---------------------------------------------------------- *)
Definition with_garbage (bs1 : list block) (g : str) (bs2 : list block) : list jblock :=
  map JB bs1 ++ JG g :: map JB bs2.

Lemma jfile_text_app : forall x y, jfile_text (x ++ y) = jfile_text x ++ jfile_text y.
Proof. intros. unfold jfile_text. rewrite map_app, concat_app. reflexivity. Qed.

Lemma jfile_text_JB : forall bs, jfile_text (map JB bs) = file_text bs.
Proof. induction bs as [|b bs IH]; [reflexivity|]. rewrite map_cons, jfile_text_cons, IH. reflexivity. Qed.

Lemma j_of_JB : forall bs, jrecords_of (map JB bs) = records_of bs /\
  jcomments_of (map JB bs) = comments_of bs.
Proof.
  induction bs as [|[x|body|pre ws1 name ws2 q v ws3|d] bs [I1 I2]]; [repeat split| | | |];
    cbn [map jrecords_of jcomments_of records_of comments_of]; rewrite ?I1, ?I2; repeat split.
Qed.

Lemma jrecords_app : forall x y, jrecords_of (x ++ y) = jrecords_of x ++ jrecords_of y.
Proof.
  induction x as [|[[x0|body|pre ws1 name ws2 q v ws3|d]|g] x IH]; intros y; simpl; rewrite ?IH; reflexivity.
Qed.
Lemma jcomments_app : forall x y, jcomments_of (x ++ y) = jcomments_of x ++ jcomments_of y.
Proof.
  induction x as [|[[x0|body|pre ws1 name ws2 q v ws3|d]|g] x IH]; intros y; simpl; rewrite ?IH; reflexivity.
Qed.

(* the spans of the Junk entries *)
Fixpoint jspans (off w : nat) (bs : list jblock) : list span :=
  match bs with
  | [] => []
  | JB (BBlank x) :: rest => jspans off (w + length x) rest
  | JB (BComment body) :: rest => jspans (off + w + length (comment_text body)) 0 rest
  | JB (BEntity pre ws1 name ws2 q v ws3) :: rest =>
      jspans (key_end ws1 name ws2 v ws3 (off + w + length (pre_text pre))) 0 rest
  | JB (BPE d) :: rest => jspans (off + w + length (pe_text d)) 0 rest
  | JG g :: rest => (off + w, off + w + length g) :: jspans (off + w + length g) 0 rest
  end.

Lemma jents_junk : forall bs off w,
  filter (C02Blocks.is_kind KJunk) (jents off w bs) = map mk_junk (jspans off w bs).
Proof.
  induction bs as [|[[x|body|pre ws1 name ws2 q v ws3|d]|g] rest IH]; intros off w;
    cbn [jents jspans]; rewrite ?filter_app, ?flush_no by discriminate;
    cbn [app filter C02Blocks.is_kind mk_comment mk_junk entity_entry pe_entry e_kind map];
    rewrite ?IH; reflexivity.
Qed.

Lemma jspans_JB : forall bs off w, jspans off w (map JB bs) = [].
Proof.
  induction bs as [|[x|body|pre ws1 name ws2 q v ws3|d] bs IH]; intros off w; cbn [map jspans]; auto.
Qed.

Lemma jspans_prefix : forall bs off w R,
  exists off' w', off' + w' = off + w + length (file_text bs) /\
                  jspans off w (map JB bs ++ R) = jspans off' w' R.
Proof.
  induction bs as [|b bs IH]; intros off w R.
  - exists off, w. split; [simpl; lia|reflexivity].
  - rewrite file_text_cons, app_length.
    destruct b as [x|body|pre ws1 name ws2 q v ws3|d]; cbn [map app jspans text].
    + destruct (IH off (w + length x) R) as [o [w' [E1 E2]]]. exists o, w'. split; [lia|exact E2].
    + destruct (IH (off + w + length (comment_text body)) 0 R) as [o [w' [E1 E2]]]. exists o, w'.
      split; [lia|exact E2].
    + destruct (IH (key_end ws1 name ws2 v ws3 (off + w + length (pre_text pre))) 0 R) as [o [w' [E1 E2]]].
      exists o, w'. split; [|exact E2].
      rewrite <- (decl_text_length ws1 name ws2 q v ws3) in E1. rewrite app_length. lia.
    + destruct (IH (off + w + length (pe_text d)) 0 R) as [o [w' [E1 E2]]]. exists o, w'.
      split; [lia|exact E2].
Qed.

(* a file printed from two block lists with ONE garbage region between them: every record and
   every comment is recovered unchanged, and there is exactly one Junk entry, whose span is
   exactly the region *)
Theorem dtd_junk_one_region : forall (bs1 : list block) (g : str) (bs2 : list block),
  Forall legal_block bs1 -> legal_garbage g = true -> Forall legal_block bs2 ->
  jadjacent_ok (with_garbage bs1 g bs2) ->
  let s := file_text bs1 ++ g ++ file_text bs2 in
  let p := length (file_text bs1) in
  exists es, walk_dtd s = Ok es /\
    map (C02Blocks.entity_record s) (filter (C02Blocks.is_kind KEntity) es) = records_of bs1 ++ records_of bs2 /\
    map (fun e => C02Blocks.span_text s (e_span e)) (filter (C02Blocks.is_kind KComment) es) =
      comments_of bs1 ++ comments_of bs2 /\
    filter (C02Blocks.is_kind KJunk) es = [mk_junk (p, p + length g)] /\
    slice s p (p + length g) = g.
Proof.
  intros bs1 g bs2 H1 Hg H2 Hadj s p.
  assert (Hleg : Forall legal_jblock (with_garbage bs1 g bs2)).
  { unfold with_garbage. apply Forall_app. split; [|constructor; [exact Hg|]];
      rewrite Forall_map; assumption. }
  assert (Es : jfile_text (with_garbage bs1 g bs2) = s).
  { unfold with_garbage, s. rewrite jfile_text_app, jfile_text_cons, !jfile_text_JB. reflexivity. }
  exists (jentries_of (with_garbage bs1 g bs2)).
  pose proof (blocks_dtd_junk _ Hleg Hadj) as Hw. rewrite Es in Hw.
  destruct (jents_views (with_garbage bs1 g bs2) [] []) as [V1 [V2 _]]. cbn [app length] in V1, V2.
  rewrite Es in V1, V2. fold (jentries_of (with_garbage bs1 g bs2)) in V1, V2.
  destruct (j_of_JB bs1) as [A1 A2]. destruct (j_of_JB bs2) as [B1 B2].
  split; [exact Hw|]. split; [|split; [|split]].
  - rewrite V1. unfold with_garbage. rewrite jrecords_app. cbn [jrecords_of]. rewrite A1, B1. reflexivity.
  - rewrite V2. unfold with_garbage. rewrite jcomments_app. cbn [jcomments_of]. rewrite A2, B2. reflexivity.
  - unfold jentries_of. rewrite jents_junk. unfold with_garbage.
    destruct (jspans_prefix bs1 0 0 (JG g :: map JB bs2)) as [o [w' [E1 E2]]].
    rewrite E2. cbn [jspans]. rewrite jspans_JB. cbn [map]. simpl in E1. rewrite E1. reflexivity.
  - unfold s, p. apply slice_mid.
Qed.
Print Assumptions dtd_junk_one_region.

(*  <!ENTITY a "b"> / x<y> &amp;  / <!-- c - d -->..<!ENTITY foo.bar ..> <!ENTITY a "b">  *)
Example jx_one_region :
  let bs1 := [ex_e1] in let g := A [120; 60; 121; 62; 32; 38; 97; 109; 112; 59; 32] in let bs2 := [ex_e2; ex_e1] in
  Forall legal_block bs1 /\ legal_garbage g = true /\ Forall legal_block bs2 /\
  jadjacent_ok (with_garbage bs1 g bs2) /\
  length (file_text bs1) = 15 /\ length g = 11.
Proof.
  split; [repeat constructor|]. split; [reflexivity|]. split; [repeat constructor|].
  split; [vm_compute; reflexivity|]. split; reflexivity.
Qed.
