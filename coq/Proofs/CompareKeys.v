(* The Python keys (str, and (msgid, msgctxt) tuples for PO) as an instance of
   the key type of Model/Compare.v, and what the key-binding test
   `isinstance(k, str) and keyRE.search(k)` decides: through the regex engine
   on the GENERATED keyRE, it holds exactly of the strings that contain
   "key" or "Key".  (This last proof is about the shape [kK]ey of the
   generated expression; an edit of keyRE breaks it, as it should.) *)
From Coq Require Import ZArith NArith List Bool Arith Lia.
From CL Require Import Base.Sx Base.Res Base.Str Regex.Rx Regex.RxLemmas Model.Parse
  Model.AddRemove Model.Compare Generated.RxC03.
Import ListNotations.
Local Open Scope nat_scope.

Lemma str_eqb_eq (a b : str) : str_eqb a b = true <-> a = b.
Proof.
  unfold str_eqb. revert b; induction a as [|x a IH]; intros [|y b]; cbn;
    try (split; [discriminate|discriminate]); [tauto|].
  rewrite andb_true_iff, N.eqb_eq, IH. split.
  - intros [-> ->]. reflexivity.
  - intros H; inversion H; auto.
Qed.

Lemma pykey_eqb_eq (a b : pykey) : pykey_eqb a b = true <-> a = b.
Proof.
  destruct a as [s|i c], b as [t|j d]; cbn.
  - rewrite str_eqb_eq. split; [intros ->; reflexivity|intros H; inversion H; reflexivity].
  - split; discriminate.
  - split; discriminate.
  - rewrite andb_true_iff, str_eqb_eq. destruct c as [x|], d as [y|].
    + rewrite str_eqb_eq. split; [intros [-> ->]; reflexivity|intros H; inversion H; auto].
    + split; [intros [_ H]; discriminate|discriminate].
    + split; [intros [_ H]; discriminate|discriminate].
    + split; [intros [-> _]; reflexivity|intros H; inversion H; auto].
Qed.

(* ---- keyRE --------------------------------------------------------------------- *)
Definition is_k (c : N) : bool := (c =? 107)%N || (c =? 75)%N.      (* k K *)

Definition starts_key (l : list N) : bool :=
  match l with
  | c :: e :: y :: _ => is_k c && (e =? 101)%N && (y =? 121)%N      (* e y *)
  | _ => false
  end.

(* the string contains "key" or "Key" *)
Definition has_key (l : list N) : Prop :=
  exists a c b, l = a ++ c :: 101%N :: 121%N :: b /\ (c = 107%N \/ c = 75%N).

Lemma range1 (c a : N) : (N.leb a c && N.leb c a) = (c =? a)%N.
Proof.
  destruct (N.eqb_spec c a) as [->|Hne].
  - rewrite N.leb_refl. reflexivity.
  - destruct (N.leb_spec a c), (N.leb_spec c a); cbn; try reflexivity. lia.
Qed.

Lemma chr_k c : chr_ok false [(107, 107); (75, 75)]%N c = is_k c.
Proof.
  unfold chr_ok. rewrite xorb_false_l. unfold in_ranges, is_k. cbn [existsb fst snd].
  rewrite !range1, orb_false_r. reflexivity.
Qed.

Lemma chr_1 c a : chr_ok false [(a, a)]%N c = (c =? a)%N.
Proof.
  unfold chr_ok. rewrite xorb_false_l. unfold in_ranges. cbn [existsb fst snd].
  rewrite range1, orb_false_r. reflexivity.
Qed.

Lemma run_at_keyRE p0 l n0 cs :
  if starts_key l
  then exists x, run_at rx_keyRE (mkst p0 l n0 cs) (fun _ => true) = MSome x
  else run_at rx_keyRE (mkst p0 l n0 cs) (fun _ => true) = MNone.
Proof.
  unfold run_at, rx_keyRE. cbn [m suf].
  destruct l as [|c [|e [|y t]]]; cbn [starts_key]; try reflexivity.
  - rewrite chr_k. destruct (is_k c); reflexivity.
  - rewrite chr_k. destruct (is_k c); cbn [andb advance suf]; [|reflexivity].
    rewrite chr_1. destruct (e =? 101)%N; reflexivity.
  - rewrite chr_k. destruct (is_k c); cbn [andb advance suf]; [|reflexivity].
    rewrite chr_1. destruct (e =? 101)%N; cbn [andb advance suf]; [|reflexivity].
    rewrite chr_1. destruct (y =? 121)%N; [eauto|reflexivity].
Qed.

Lemma starts_key_spec l :
  starts_key l = true <-> exists c b, l = c :: 101%N :: 121%N :: b /\ (c = 107%N \/ c = 75%N).
Proof.
  destruct l as [|c [|e [|y t]]]; cbn [starts_key];
    try (split; [discriminate|intros (c' & b & H & _); discriminate]).
  unfold is_k. rewrite !andb_true_iff, orb_true_iff, !N.eqb_eq. split.
  - intros [[Hc ->] ->]. exists c, t. auto.
  - intros (c' & b & H & Hc). inversion H; subst. auto.
Qed.

Lemma has_key_cons c l : has_key (c :: l) <-> starts_key (c :: l) = true \/ has_key l.
Proof.
  split.
  - intros ([|a0 a] & c' & b & H & Hc); cbn in H; inversion H; subst.
    + left. apply starts_key_spec. exists c', b. auto.
    + right. exists a, c', b. auto.
  - intros [H|(a & c' & b & -> & Hc)].
    + apply starts_key_spec in H. destruct H as (c' & b & H & Hc).
      exists [], c', b. auto.
    + exists (c :: a), c', b. auto.
Qed.

Lemma search_keyRE : forall l p0 n0 cs fuel, length l < fuel ->
  match search_from rx_keyRE fuel (mkst p0 l n0 cs) None with
  | MSome _ => has_key l
  | MNone => ~ has_key l
  | MFuel => False
  end.
Proof.
  induction l as [|c l IH]; intros p0 n0 cs fuel Hf;
    (destruct fuel as [|f]; [lia|]); rewrite search_from_S; cbn [suf].
  - pose proof (run_at_keyRE p0 [] n0 cs) as H. cbn [starts_key] in H. rewrite H.
    intros (a & c & b & E & _). destruct a; discriminate.
  - pose proof (run_at_keyRE p0 (c :: l) n0 cs) as H.
    destruct (starts_key (c :: l)) eqn:Es.
    + destruct H as [x ->]. apply has_key_cons. left. exact Es.
    + rewrite H. unfold advance. cbn [pre pos caps].
      specialize (IH (c :: p0) (S n0) cs f ltac:(cbn in Hf; lia)).
      destruct (search_from rx_keyRE f _ None).
      * intros Hk. apply has_key_cons in Hk. destruct Hk; [congruence|contradiction].
      * apply has_key_cons. right. exact IH.
      * exact IH.
Qed.

(* isinstance(k, str) and keyRE.search(k): the key is a string containing key / Key *)
Theorem py_keyname_spec (k : pykey) :
  py_keyname k = true <-> exists s, k = KS s /\ has_key s.
Proof.
  destruct k as [s|i c]; cbn [py_keyname].
  - unfold osearch, rsearch. cbn [Nat.ltb Nat.leb]. unfold st_at. cbn [firstn skipn rev].
    pose proof (search_keyRE s [] 0 [] (S (length s - 0)) ltac:(lia)) as H.
    destruct (search_from rx_keyRE _ _ None).
    + split; [discriminate|]. intros (s' & E & Hk). inversion E; subst. contradiction.
    + split; [intros _; exists s; auto|reflexivity].
    + contradiction.
  - split; [discriminate|]. intros (s & E & _). discriminate.
Qed.
