(* The re-parse clause of C04 for .ini, from the block theorem of C02
   (Proofs/C02BlocksIni.v blocks_ini / roundtrip_ini_multi) and the shared part
   (Proofs/MergeReparseShared.v).  Same shape as Proofs/MergeReparseProps.v:
   the skips are the selected entities of the localization's own parse, with the
   spans of that parse (key=value of one entity block, without its attached
   comment and without its final newline); section headers are never skipped, the
   appended reference entities land behind the last block, that is in the last
   section.  The License rule of the ini parser looks at offsets 0 AND 1; removing
   a first entity can move a commented entity there, so [ilic 0] of the result is
   a premise (free when the file starts with a section header, as .ini files do). *)
From Coq Require Import NArith List Bool Arith Lia Permutation Sorted.
From CL Require Import Base.Sx Base.Res Base.Str Model.Merge Generated.C04Facts
  Model.Entry Model.Parse Model.ParseFormats Proofs.MergeProofs Proofs.MergeReparseShared
  Proofs.MergeRefuted Proofs.C02Roundtrip Proofs.C02BlocksRx Proofs.C02BlocksIniRx Proofs.C02BlocksIni.
Import ListNotations.
Local Open Scope nat_scope.

Local Arguments Nat.ltb : simpl never.
Local Arguments Nat.leb : simpl never.
Local Arguments N.eqb : simpl never.
Local Arguments ctext : simpl never.

Local Notation skip := (@Merge.skip str).

(* ---- an entity block: attached comment | key=value | final newline --------------- *)
Definition i_dec (b : iblock) : option (str * str * str * str) :=
  match b with
  | IEntity cs key val nl => Some (ctext cs, key, key ++ 61%N :: val, eol nl)
  | _ => None
  end.

Lemma i_dec_text : forall b p k c q, i_dec b = Some (p, k, c, q) -> itext b = p ++ c ++ q.
Proof.
  intros b p k c q H. destruct b; try discriminate. inversion H; subst. cbn [itext]. norm_app. reflexivity.
Qed.

Lemma i_dec_core : forall b p k c q, i_dec b = Some (p, k, c, q) -> c <> [].
Proof.
  intros b p k c q H. destruct b; try discriminate. inversion H; subst.
  intro E. apply (f_equal (@length N)) in E. rewrite !app_length in E. simpl in E. lia.
Qed.

Definition irkey (r : irecord) : str := fst (fst r).

Notation iblock_entities := (g_entities itext i_dec).

Lemma ikeys_of_records : forall bs, keys_of i_dec bs = map irkey (irecords_of bs).
Proof.
  induction bs as [|b rest IH]; [reflexivity|]. cbn [keys_of flat_map].
  fold (keys_of i_dec rest). rewrite IH. destruct b; reflexivity.
Qed.

Lemma ients_spans : forall bs, Forall legal_iblock bs -> forall off w,
  map e_span (filter (is_kind KEntity) (ients off w bs)) = map snd (iblock_entities (off + w) bs).
Proof.
  induction bs as [|b rest IH]; intros Hleg off w.
  - simpl ients. now rewrite flush_no by discriminate.
  - inversion Hleg as [|b' rest' Hb Hrest]; subst b' rest'. specialize (IH Hrest).
    destruct b as [x|cs|name nl|cs key val nl].
    + simpl ients. rewrite IH. cbn [g_entities g_entity i_dec itext app].
      now replace (off + (w + length x)) with (off + w + length x) by lia.
    + unfold legal_iblock in Hb. cbn [legal_iblockb] in Hb. apply andb_true_iff in Hb.
      destruct Hb as [Hc1 _].
      assert (Hne : cs <> []) by (destruct cs; [discriminate|discriminate]).
      simpl ients. rewrite filter_app, flush_no by discriminate.
      cbn [app filter is_kind mk_comment e_kind]. rewrite IH.
      cbn [g_entities g_entity i_dec itext app].
      replace (off + w + length (cbody cs) + 1) with (off + w + length (ctext cs));
        [reflexivity|]. rewrite (ctext_body cs Hne), app_length. simpl. lia.
    + simpl ients. rewrite filter_app, flush_no by discriminate.
      cbn [app filter is_kind e_kind]. rewrite IH.
      cbn [g_entities g_entity i_dec app].
      match goal with |- map snd (iblock_entities ?o1 rest) = map snd (iblock_entities ?o2 rest) =>
        replace o1 with o2; [reflexivity|] end.
      cbn [itext length]. rewrite app_length. cbn [length]. lia.
    + simpl ients. rewrite filter_app, flush_no by discriminate.
      cbn [app filter is_kind e_kind map e_span]. rewrite IH.
      cbn [g_entities]. unfold g_entity at 1. cbn [i_dec app map snd].
      match goal with |- ?p :: map snd (iblock_entities ?o1 rest) = ?q :: map snd (iblock_entities ?o2 rest) =>
        replace o1 with o2; [replace p with q; [reflexivity|]|] end.
      * rewrite !app_length. cbn [length]. f_equal; lia.
      * cbn [itext]. rewrite !app_length. cbn [length]. rewrite !app_length. lia.
Qed.

Lemma iparse_entities_blocks : forall bs, Forall legal_iblock bs ->
  parse_entities (ifile_text bs) (ientries_of bs) = iblock_entities 0 bs.
Proof.
  intros bs Hleg. apply map_pair_eq.
  - rewrite (g_entities_keys itext i_dec), ikeys_of_records. unfold parse_entities. rewrite map_map. cbn [fst].
    destruct (ients_views bs Hleg [] []) as [H _]. cbn [app length] in H.
    unfold ientries_of. rewrite <- H. rewrite map_map. reflexivity.
  - unfold parse_entities. rewrite map_map. cbn [snd]. unfold ientries_of.
    exact (ients_spans bs Hleg 0 0).
Qed.

(* ---- the splice on blocks ---------------------------------------------------- *)
Definition ikept_of (sel : str -> bool) (b : iblock) : list iblock :=
  match b with
  | IEntity cs key _ nl =>
      if sel key
      then (match cs with [] => [] | _ => [IComment cs] end) ++
           (if nl then [IBlank [10%N]] else [])
      else [b]
  | _ => [b]
  end.
Definition ikept (sel : str -> bool) (bs : list iblock) : list iblock := flat_map (ikept_of sel) bs.

Lemma ifile_text_app : forall l1 l2, ifile_text (l1 ++ l2) = ifile_text l1 ++ ifile_text l2.
Proof. intros. unfold ifile_text. now rewrite map_app, concat_app. Qed.

Lemma ikept_ftext_blocks : forall sel bs, kept_ftext itext i_dec sel bs = ifile_text (ikept sel bs).
Proof.
  intros sel bs. induction bs as [|b rest IH]; [reflexivity|].
  unfold kept_ftext, ikept in *. cbn [map concat flat_map]. rewrite ifile_text_app, IH. f_equal.
  unfold kept_text. destruct b as [x|cs|name nl|cs key val nl]; cbn [i_dec ikept_of];
    try (unfold ifile_text; cbn [map concat]; now rewrite app_nil_r).
  destruct (sel key); [|unfold ifile_text; cbn [map concat]; now rewrite app_nil_r].
  rewrite ifile_text_app. destruct cs as [|c cs], nl; cbn; rewrite ?app_nil_r; reflexivity.
Qed.

(* ---- the staged text as a block list ------------------------------------------ *)
Fixpoint icloseb (bs : list iblock) : list iblock :=
  match bs with
  | [] => [IBlank [10%N]]
  | b :: rest =>
      match rest with
      | [] => match b with
              | IEntity cs key val false => [IEntity cs key val true]
              | ISection name false => [ISection name true]
              | _ => [b; IBlank [10%N]]
              end
      | _ => b :: icloseb rest
      end
  end.

Definition iwith_nl (b : iblock) : iblock :=
  match b with
  | IEntity cs key val _ => IEntity cs key val true
  | ISection name _ => ISection name true
  | _ => b
  end.

Definition iis_entity (b : iblock) : bool := match b with IEntity _ _ _ _ => true | _ => false end.

Definition ientity_all (b : iblock) : str :=
  match b with
  | IEntity cs key val _ => ctext cs ++ key ++ 61%N :: val
  | _ => []
  end.

(* a reference entity: a legal entity block (its text never ends in a newline: the
   value has none) *)
Definition ilegal_ref (b : iblock) : Prop := iis_entity b = true /\ legal_iblock b.

Definition imerged_blocks (sel : str -> bool) (bs abs : list iblock) : list iblock :=
  ikept sel (icloseb bs) ++ map iwith_nl abs.

Lemma icloseb_cons2 : forall b c rest, icloseb (b :: c :: rest) = b :: icloseb (c :: rest).
Proof. reflexivity. Qed.

Lemma ikept_icloseb_text : forall sel bs,
  ifile_text (ikept sel (icloseb bs)) = ifile_text (ikept sel bs) ++ [10%N].
Proof.
  intros sel. induction bs as [|b rest IH]; [reflexivity|]. destruct rest as [|c rest].
  - destruct b as [x|cs|name [|]|cs key val [|]]; cbn [icloseb ikept flat_map ikept_of app];
      try (unfold ifile_text; cbn [map concat itext eol]; rewrite ?app_nil_r; norm_app; reflexivity).
    + destruct (sel key); [|unfold ifile_text; cbn [app map concat itext eol]; rewrite ?app_nil_r; norm_app; reflexivity].
      destruct cs; unfold ifile_text; cbn [app map concat itext eol]; rewrite ?app_nil_r; norm_app; reflexivity.
    + destruct (sel key); [|unfold ifile_text; cbn [app map concat itext eol]; rewrite ?app_nil_r; norm_app; reflexivity].
      destruct cs; unfold ifile_text; cbn [app map concat itext eol]; rewrite ?app_nil_r; norm_app; reflexivity.
  - rewrite icloseb_cons2. unfold ikept in *.
    change (flat_map (ikept_of sel) (b :: icloseb (c :: rest)))
      with (ikept_of sel b ++ flat_map (ikept_of sel) (icloseb (c :: rest))).
    change (flat_map (ikept_of sel) (b :: c :: rest))
      with (ikept_of sel b ++ flat_map (ikept_of sel) (c :: rest)).
    rewrite !ifile_text_app, IH. now rewrite app_assoc.
Qed.

Lemma ends_with_nl_app_ne : forall (a b : str), b <> [] -> ends_with_nl (a ++ b) = ends_with_nl b.
Proof.
  induction a as [|x a IH]; intros b Hb; [reflexivity|].
  cbn [app]. destruct (a ++ b) as [|y r] eqn:E.
  - apply app_eq_nil in E. destruct E. contradiction.
  - rewrite ends_with_nl_cons2, <- E. now apply IH.
Qed.

Lemma no_nl_ends : forall b : str, forallb (fun x => negb (N.eqb x 10)) b = true -> ends_with_nl b = false.
Proof.
  induction b as [|x b IH]; intro H; [reflexivity|]. cbn [forallb] in H.
  apply andb_true_iff in H. destruct H as [H1 H2]. destruct b as [|y b].
  - cbn. now apply negb_true_iff in H1.
  - rewrite ends_with_nl_cons2. now apply IH.
Qed.

Lemma ientity_all_no_nl : forall b, ilegal_ref b -> ends_with_nl (ientity_all b) = false.
Proof.
  intros b [He Hl]. destruct b as [| | |cs key val nl]; try discriminate.
  cbn [ientity_all]. rewrite app_assoc. rewrite ends_with_nl_app_ne by discriminate.
  apply no_nl_ends. unfold legal_iblock in Hl. cbn [legal_iblockb] in Hl.
  apply andb_true_iff in Hl. destruct Hl as [_ Hv]. cbn [forallb]. exact Hv.
Qed.

Lemma iwith_nl_text : forall b, iis_entity b = true -> itext (iwith_nl b) = ientity_all b ++ [10%N].
Proof.
  intros b H. destruct b; try discriminate. cbn [iwith_nl itext ientity_all eol]. norm_app. reflexivity.
Qed.

Lemma imerged_blocks_text : forall sel bs abs, Forall ilegal_ref abs ->
  ifile_text (imerged_blocks sel bs abs) =
  ifile_text (ikept sel bs) ++ [10%N] ++ concat (map ensure_newline (map ientity_all abs)).
Proof.
  intros sel bs abs Ha. unfold imerged_blocks. rewrite ifile_text_app, ikept_icloseb_text, <- app_assoc.
  do 2 f_equal. induction Ha as [|b abs Hb _ IH]; [reflexivity|].
  cbn [map]. rewrite ifile_text_cons, IH. f_equal. cbn [concat]. f_equal.
  unfold ensure_newline. rewrite (ientity_all_no_nl b Hb). destruct Hb as [He _]. now apply iwith_nl_text.
Qed.

(* -- legality -- *)
Lemma icloseb_legal : forall bs, Forall legal_iblock bs -> Forall legal_iblock (icloseb bs).
Proof.
  induction bs as [|b rest IH]; intro H; [repeat constructor|].
  inversion H as [|? ? Hb Hr]; subst. destruct rest as [|c rest].
  - destruct b as [x|cs|name [|]|cs key val [|]]; cbn [icloseb]; repeat constructor; exact Hb.
  - rewrite icloseb_cons2. constructor; [exact Hb|now apply IH].
Qed.

Lemma ikept_legal : forall sel bs, Forall legal_iblock bs -> Forall legal_iblock (ikept sel bs).
Proof.
  intros sel bs H. induction H as [|b rest Hb _ IH]; [constructor|].
  unfold ikept in *. cbn [flat_map]. apply Forall_app. split; [|exact IH].
  destruct b as [x|cs|name nl|cs key val nl]; cbn [ikept_of]; try (repeat constructor; exact Hb).
  destruct (sel key); [|repeat constructor; exact Hb].
  apply Forall_app. split.
  - destruct cs as [|c cs]; [constructor|]. repeat constructor.
    unfold legal_iblock in *. cbn [legal_iblockb] in *.
    apply andb_true_iff in Hb. destruct Hb as [Hb _].
    apply andb_true_iff in Hb. destruct Hb as [Hb _].
    cbn [is_nil negb andb]. exact Hb.
  - destruct nl; repeat constructor.
Qed.

Lemma iwith_nl_legal : forall abs, Forall ilegal_ref abs -> Forall legal_iblock (map iwith_nl abs).
Proof.
  intros abs H. induction H as [|b abs [He Hl] _ IH]; [constructor|].
  cbn [map]. constructor; [|exact IH]. destruct b; try discriminate. exact Hl.
Qed.

Lemma imerged_blocks_legal : forall sel bs abs, Forall legal_iblock bs -> Forall ilegal_ref abs ->
  Forall legal_iblock (imerged_blocks sel bs abs).
Proof.
  intros. unfold imerged_blocks. apply Forall_app. split.
  - now apply ikept_legal, icloseb_legal.
  - now apply iwith_nl_legal.
Qed.

(* -- separation -- *)
(* after closing: entities and sections have their newline, a standalone comment is
   followed by a blank block with a newline or by a section header *)
Fixpoint isep_s (ls : bool) (bs : list iblock) : bool :=
  match bs with
  | [] => true
  | IBlank w :: rest => isep_s (N.eqb (last w 0%N) 10) rest
  | IComment _ :: rest =>
      ls && match rest with
            | IBlank w :: _ => mem 10%N w
            | ISection _ _ :: _ => true
            | _ => false
            end && isep_s true rest
  | ISection _ nl :: rest => nl && isep_s true rest
  | IEntity cs _ _ nl :: rest => (is_nil cs || ls) && nl && isep_s true rest
  end.

(* whether the text of the blocks ends a line *)
Fixpoint end_ls (ls : bool) (bs : list iblock) : bool :=
  match bs with
  | [] => ls
  | IBlank w :: rest => end_ls (N.eqb (last w 0%N) 10) rest
  | IComment _ :: rest => end_ls true rest
  | ISection _ nl :: rest => end_ls nl rest
  | IEntity _ _ _ nl :: rest => end_ls nl rest
  end.

Lemma icloseb_strict : forall bs ls, isep ls bs = true -> isep_s ls (icloseb bs) = true.
Proof.
  induction bs as [|b rest IH]; intros ls H; [reflexivity|]. destruct rest as [|c rest].
  - destruct b as [x|cs|name [|]|cs key val [|]]; cbn [icloseb isep isep_s is_nil] in *;
      rewrite ?andb_true_r, ?orb_true_r in *; try reflexivity; try exact H.
  - rewrite icloseb_cons2.
    destruct b as [x|cs|name nl|cs key val nl]; cbn [isep isep_s] in *.
    + now apply IH.
    + apply andb_true_iff in H. destruct H as [H H3]. apply andb_true_iff in H. destruct H as [H1 H2].
      rewrite H1, (IH _ H3), andb_true_r. cbn [andb].
      destruct c as [w| |name' nl'|]; try discriminate.
      * destruct rest; exact H2.
      * destruct rest as [|d rest]; [destruct nl'|]; reflexivity.
    + apply andb_true_iff in H. destruct H as [H1 H2]. cbn [is_nil] in H1. rewrite orb_false_r in H1.
      subst nl. now rewrite (IH _ H2).
    + apply andb_true_iff in H. destruct H as [H H3]. apply andb_true_iff in H. destruct H as [H1 H2].
      cbn [is_nil] in H2. rewrite orb_false_r in H2. subst nl. now rewrite H1, (IH _ H3).
Qed.

Lemma icloseb_end : forall bs ls, end_ls ls (icloseb bs) = true.
Proof.
  induction bs as [|b rest IH]; intro ls; [reflexivity|]. destruct rest as [|c rest].
  - destruct b as [x|cs|name [|]|cs key val [|]]; reflexivity.
  - rewrite icloseb_cons2. destruct b; cbn [end_ls]; apply IH.
Qed.

Lemma ientities_separated : forall abs, Forall ilegal_ref abs -> isep true (map iwith_nl abs) = true.
Proof.
  intros abs H. induction H as [|b abs [He _] _ IH]; [reflexivity|].
  destruct b; try discriminate. cbn [map iwith_nl isep]. now rewrite orb_true_r, IH.
Qed.

Lemma strict_ikept_separated : forall sel T C ls, isep_s ls C = true ->
  isep (end_ls ls C) T = true -> isep ls (ikept sel C ++ T) = true.
Proof.
  intros sel T C. induction C as [|b rest IH]; intros ls H HT; [exact HT|].
  unfold ikept in *. cbn [flat_map].
  destruct b as [x|cs|name nl|cs key val nl]; cbn [isep_s ikept_of end_ls] in *.
  - cbn [app isep]. now apply IH.
  - apply andb_true_iff in H. destruct H as [H H3]. apply andb_true_iff in H. destruct H as [H1 H2].
    specialize (IH _ H3 HT). cbn [app isep]. rewrite H1, IH, andb_true_r. cbn [andb].
    destruct rest as [|[w| |name' nl'|] rest']; try discriminate; cbn [flat_map ikept_of app]; [exact H2|reflexivity].
  - apply andb_true_iff in H. destruct H as [H1 H2]. subst nl. specialize (IH _ H2 HT).
    cbn [app isep orb andb]. exact IH.
  - apply andb_true_iff in H. destruct H as [H H3]. apply andb_true_iff in H. destruct H as [H1 H2].
    subst nl. specialize (IH _ H3 HT).
    destruct (sel key).
    + destruct cs as [|c cs]; cbn [app isep].
      * exact IH.
      * cbn [is_nil orb] in H1. rewrite H1. change (mem 10%N [10%N]) with true. cbn [andb isep]. exact IH.
    + cbn [app isep orb andb]. now rewrite H1, IH.
Qed.

Lemma imerged_blocks_separated : forall sel bs abs, isep true bs = true -> Forall ilegal_ref abs ->
  isep true (imerged_blocks sel bs abs) = true.
Proof.
  intros sel bs abs H Ha. unfold imerged_blocks. apply strict_ikept_separated.
  - now apply icloseb_strict.
  - rewrite icloseb_end. now apply ientities_separated.
Qed.

(* -- the License rule: free when the file starts with a section header -- *)
Fixpoint starts_with_section (bs : list iblock) : bool :=
  match bs with
  | IBlank _ :: rest => starts_with_section rest
  | ISection _ _ :: _ => true
  | _ => false
  end.

Lemma icloseb_starts : forall bs, starts_with_section bs = true -> starts_with_section (icloseb bs) = true.
Proof.
  induction bs as [|b rest IH]; intro H; [discriminate|]. destruct rest as [|c rest].
  - destruct b as [x|cs|name [|]|cs key val nl]; try discriminate; reflexivity.
  - rewrite icloseb_cons2. destruct b; try discriminate; [now apply IH|reflexivity].
Qed.

Lemma ilic_sectioned : forall sel C T off, starts_with_section C = true -> ilic off (ikept sel C ++ T) = true.
Proof.
  intros sel C T. induction C as [|b rest IH]; intros off H; [discriminate|].
  unfold ikept in *. cbn [flat_map]. destruct b; try discriminate; cbn [ikept_of app ilic].
  - now apply IH.
  - reflexivity.
Qed.

(* -- records -- *)
Lemma irecords_of_app : forall l1 l2, irecords_of (l1 ++ l2) = irecords_of l1 ++ irecords_of l2.
Proof.
  induction l1 as [|b l1 IH]; intro l2; [reflexivity|]. destruct b; cbn [app irecords_of]; now rewrite IH.
Qed.

Lemma irecords_icloseb : forall bs, irecords_of (icloseb bs) = irecords_of bs.
Proof.
  induction bs as [|b rest IH]; [reflexivity|]. destruct rest as [|c rest].
  - destruct b as [x|cs|name [|]|cs key val [|]]; reflexivity.
  - rewrite icloseb_cons2. destruct b; cbn [irecords_of]; now rewrite IH.
Qed.

Lemma irecords_ikept : forall sel bs,
  irecords_of (ikept sel bs) = filter (fun r => negb (sel (irkey r))) (irecords_of bs).
Proof.
  intros sel. induction bs as [|b rest IH]; [reflexivity|].
  unfold ikept in *. cbn [flat_map]. rewrite irecords_of_app, IH.
  destruct b as [x|cs|name nl|cs key val nl]; cbn [ikept_of irecords_of app]; try reflexivity.
  cbn [filter irkey fst]. destruct (sel key); cbn [negb].
  - destruct cs as [|c cs], nl; reflexivity.
  - reflexivity.
Qed.

Lemma irecords_iwith_nl : forall abs, irecords_of (map iwith_nl abs) = irecords_of abs.
Proof.
  induction abs as [|b abs IH]; [reflexivity|]. destruct b; cbn [map iwith_nl irecords_of]; now rewrite IH.
Qed.

Lemma imerged_blocks_records : forall sel bs abs,
  irecords_of (imerged_blocks sel bs abs) =
  filter (fun r => negb (sel (irkey r))) (irecords_of bs) ++ irecords_of abs.
Proof.
  intros. unfold imerged_blocks.
  now rewrite irecords_of_app, irecords_ikept, irecords_icloseb, irecords_iwith_nl.
Qed.

(* the section headers stay *)
Lemma isections_of_app : forall l1 l2, isections_of (l1 ++ l2) = isections_of l1 ++ isections_of l2.
Proof.
  induction l1 as [|b l1 IH]; intro l2; [reflexivity|]. destruct b; cbn [app isections_of]; now rewrite IH.
Qed.

Lemma imerged_blocks_sections : forall sel bs abs, Forall ilegal_ref abs ->
  isections_of (imerged_blocks sel bs abs) = isections_of bs.
Proof.
  intros sel bs abs Ha. unfold imerged_blocks. rewrite isections_of_app.
  assert (isections_of (map iwith_nl abs) = []) as ->.
  { induction Ha as [|b abs [He _] _ IH]; [reflexivity|]. destruct b; try discriminate. exact IH. }
  rewrite app_nil_r.
  assert (forall C, isections_of (ikept sel C) = isections_of C) as Hk.
  { induction C as [|b rest IH]; [reflexivity|]. unfold ikept in *. cbn [flat_map].
    rewrite isections_of_app, IH. destruct b as [x|cs|name nl|cs key val nl]; cbn [ikept_of]; try reflexivity.
    destruct (sel key); [|reflexivity]. destruct cs, nl; reflexivity. }
  rewrite Hk. induction bs as [|b rest IH]; [reflexivity|]. destruct rest as [|c rest].
  - destruct b as [x|cs|name [|]|cs key val [|]]; reflexivity.
  - rewrite icloseb_cons2. destruct b; cbn [isections_of]; now rewrite IH.
Qed.

(* ---- the theorem ------------------------------------------------------------------ *)
Lemma caps_ini_facts :
  has caps_ini can_copy = false /\ has caps_ini can_skip = true /\ has caps_ini can_merge = true.
Proof. repeat split; reflexivity. Qed.

Theorem reparse_ini :
  forall (bs abs : list iblock) (sel : str -> bool) (missing : list str)
         (refs : list (str * str)) (es : list entry) (skips : list skip),
  Forall legal_iblock bs -> iadjacent_ok bs ->
  walk_ini (ifile_text bs) = Ok es ->
  Permutation skips (parse_skips sel (ifile_text bs) es) ->
  Forall ilegal_ref abs ->
  map_result (ref_all str_eqb refs) (missing ++ filter sel (map irkey (irecords_of bs)))
    = Ok (map ientity_all abs) ->
  ilic 0 (imerged_blocks sel bs abs) = true ->
  exists a t out es',
    merge str_eqb true caps_ini (ifile_text bs) skips missing refs = Ok a /\
    staged_text (ifile_text bs) a = Some t /\
    out = (if nonempty skips || nonempty missing then imerged_blocks sel bs abs else bs) /\
    t = ifile_text out /\ Forall legal_iblock out /\ iadjacent_ok out /\
    walk_ini t = Ok es' /\
    map (entity_record t) (filter (is_kind KEntity) es') =
      filter (fun r => negb (sel (irkey r))) (irecords_of bs) ++ irecords_of abs /\
    map (fun e => opt_text t (e_val e)) (filter (is_kind KSection) es') = isections_of bs /\
    filter (is_kind KJunk) es' = [].
Proof.
  intros bs abs sel missing refs es skips Hleg Hadj Hwalk Hperm Habs Hlk Hlic.
  rewrite (blocks_ini bs Hleg Hadj) in Hwalk. inversion Hwalk; subst es. clear Hwalk.
  unfold parse_skips in Hperm. rewrite (iparse_entities_blocks bs Hleg) in Hperm.
  rewrite <- ikeys_of_records in Hlk.
  destruct caps_ini_facts as (Hc & Hs & Hm).
  destruct (merge_on_blocks itext i_dec i_dec_text i_dec_core caps_ini [] bs sel missing refs
              skips (map ientity_all abs) Hc Hs Hm Hperm Hlk) as (a & Hmerge & Hcase).
  change (ftext itext bs) with (ifile_text bs) in *.
  change ([] ++ ifile_text bs) with (ifile_text bs) in *.
  assert (iadjacent_ok (imerged_blocks sel bs abs)) as Hadj'.
  { unfold iadjacent_ok, iadjacent_okb in *. apply andb_true_iff in Hadj. destruct Hadj as [H1 _].
    apply andb_true_iff. split; [now apply imerged_blocks_separated|exact Hlic]. }
  destruct Hcase as [[Hne Hst]|(Hne & -> & Hnil & Hnone)]; rewrite Hne.
  - assert (staged_text (ifile_text bs) a = Some (ifile_text (imerged_blocks sel bs abs))) as Hst'.
    { rewrite Hst. f_equal. rewrite (imerged_blocks_text sel bs abs Habs), ikept_ftext_blocks.
      reflexivity. }
    destruct (roundtrip_ini_multi (imerged_blocks sel bs abs)
                (imerged_blocks_legal sel bs abs Hleg Habs) Hadj') as (es' & Hw & Hrec & _ & Hsec & Hjunk).
    rewrite imerged_blocks_records in Hrec. rewrite (imerged_blocks_sections sel bs abs Habs) in Hsec.
    exists a, (ifile_text (imerged_blocks sel bs abs)), (imerged_blocks sel bs abs), es'.
    repeat split; auto using imerged_blocks_legal.
  - assert (abs = []) as -> by (destruct abs; [reflexivity|discriminate]).
    destruct (roundtrip_ini_multi bs Hleg Hadj) as (es' & Hw & Hrec & _ & Hsec & Hjunk).
    exists CopyL10n, (ifile_text bs), bs, es'. repeat split; auto.
    rewrite Hrec. cbn [irecords_of]. rewrite app_nil_r. symmetry.
    rewrite ikeys_of_records in Hnone. exact (filter_none_all irkey sel (irecords_of bs) Hnone).
Qed.

(* .ini files start with a section header: then the License premise is free *)
Lemma ilic_imerged_sectioned : forall sel bs abs, starts_with_section bs = true ->
  ilic 0 (imerged_blocks sel bs abs) = true.
Proof.
  intros sel bs abs H. unfold imerged_blocks. apply ilic_sectioned. now apply icloseb_starts.
Qed.

(* ---- why the premises are there ---------------------------------------------------- *)
(* (1) the License premise: the ini parser makes a comment that contains "License" and
   starts at offset 0 or 1 a standalone comment.  b=1 / # License / k=v  with b selected:
   the staged text is  <newline> # License / k=v / <newline> , the comment now starts at
   offset 1 and is no longer the attached comment of k *)
Definition il_b : iblock := IEntity [] [98%N] [49%N] true.
Definition il_k : iblock :=
  IEntity [(35%N, [32; 76; 105; 99; 101; 110; 115; 101]%N)] [107%N] [118%N] true.

Lemma ini_license_witness :
  let bs := [il_b; il_k] in
  let sel := str_eqb [98%N] in
  Forall legal_iblock bs /\ iadjacent_ok bs /\
  ilic 0 (imerged_blocks sel bs []) = false /\
  irecords_of bs = [([98%N], [49%N], None); ([107%N], [118%N], Some [35; 32; 76; 105; 99; 101; 110; 115; 101]%N)] /\
  (do a <- merge str_eqb true caps_ini (ifile_text bs)
             (parse_skips sel (ifile_text bs) (ientries_of bs)) [] [([98%N], [98; 61; 50]%N)];
   match staged_text (ifile_text bs) a with
   | Some t => do es <- walk_ini t;
               Ok (t, map (entity_record t) (filter (is_kind KEntity) es), has_junk es)
   | None => Raise AssertionError
   end)
  = Ok ([10; 35; 32; 76; 105; 99; 101; 110; 115; 101; 10; 107; 61; 118; 10; 10; 98; 61; 50; 10]%N,
        [([107%N], [118%N], None); ([98%N], [50%N], None)], false).
Proof.
  cbv zeta. split; [repeat constructor|]. repeat split; vm_compute; reflexivity.
Qed.

(* (2) junk is outside the block grammar (listed finding
   ini-junk-after-section-joins-comment-line):  [Stri]ngs] / ; x it / menu3=it delta .
   The parse has the junk  ngs]<newline>  at (6, 11); removing that span glues the comment
   line to the section header, and the staged text has junk again *)
Definition ini_junk_l10n : str :=
  [91;83;116;114;105;93;110;103;115;93;10; 59;32;120;32;105;116;10;
   109;101;110;117;51;61;105;116;32;100;101;108;116;97;10]%N.

Lemma ini_junk_witness :
  (do es <- walk_ini ini_junk_l10n;
   Ok (map e_span (filter (is_kind KJunk) es))) = Ok [(6, 11)] /\
  (do a <- merge str_eqb true caps_ini ini_junk_l10n [mkskip (Some 6, Some 11) [106%N] true] [] [];
   match staged_text ini_junk_l10n a with
   | Some t => do es <- walk_ini t; Ok (t, map e_span (filter (is_kind KJunk) es))
   | None => Raise AssertionError
   end)
  = Ok ([91;83;116;114;105;93; 59;32;120;32;105;116;10;
         109;101;110;117;51;61;105;116;32;100;101;108;116;97;10; 10]%N, [(6, 13)]).
Proof. split; vm_compute; reflexivity. Qed.
