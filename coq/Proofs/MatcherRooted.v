(* Rooted matchers.  How the root enters (paths/matcher.py):
     Matcher.__init__   root = mozpath.abspath(root) + "/"     (model: [with_root] appends "/"
                        to a root that is given absolute and normalised; abspath is not modelled)
     Pattern.regex_pattern / Pattern.expand
                        first_seg = self[0].expand(env); unless first_seg is absolute the root
                        is put in front: re.escape(root) in the regular expression (model: one
                        literal character regex per character of the root, whatever the
                        character), the root itself in the expansion.
   For a pattern whose first node has a fixed text (a literal, or a variable bound to a
   wildcard-free value) this makes the rooted matcher EQUAL, for match / sub / prefix / str,
   to the unrooted matcher with one more literal node in front: [unroot].  The theorems of
   the unrooted grammar then carry over. *)
From Coq Require Import NArith List Bool Arith Lia.
From CL Require Import Base.Sx Base.Res Base.Str Regex.Rx Regex.RxLemmas Regex.RxSem
  Model.Pattern Model.Matcher Proofs.MatcherBase Proofs.MatcherSpec Proofs.MatcherCompile
  Proofs.MatcherSound Proofs.MatcherExpand Proofs.MatcherComplete Proofs.PathUnique
  Proofs.MatcherUnique Proofs.MatcherRoundtrip Proofs.MatcherFinal.
Import ListNotations.

Local Arguments expand_node : simpl never.
Local Arguments rx_node : simpl never.

(* the literal text the root contributes, decided by the first segment
   (Pattern._first_segment): "" for an empty pattern and for a leading wildcard,
   else the text of the first node *)
Definition root_part (r t : str) : str := if starts_with [c_slash] t then [] else r.

Definition first_text (e : env) (ns : list node) : option str :=
  match ns with
  | [] => Some []
  | NStar _ :: _ | NStarstar _ _ :: _ => Some []
  | n0 :: _ => fixed_text e n0
  end.

Definition unroot_pat (e : env) (p : pattern) : pattern :=
  match p_root p with
  | Some r =>
      match first_text e (p_nodes p) with
      | Some t => mkpat (NLit (root_part r t) :: p_nodes p) None (S (p_prefix p))
      | None => p
      end
  | None => p
  end.

Definition unroot (M : matcher) : matcher := mkm (unroot_pat (m_env M) (m_pat M)) (m_env M).

(* a matcher whose root test is decided: the first node is a wildcard, or has a fixed text
   (a literal, a variable bound to a wildcard-free value), or the pattern is empty.  The
   prefix length is at least 1 unless that first text is empty, as the parser makes it. *)
Definition rooted_ok (M : matcher) : Prop :=
  NoDup (map fst (m_env M)) /\
  match p_root (m_pat M) with
  | None => True
  | Some _ => exists t, first_text (m_env M) (p_nodes (m_pat M)) = Some t /\
                        (1 <= p_prefix (m_pat M) \/ t = [])
  end.

Lemma fixed_expand : forall e n t f rm, fixed_text e n = Some t ->
  expand_node (S (S f)) e rm n = Ok (IStr t).
Proof.
  intros e n t f rm H. rewrite expand_node_S. destruct n as [s|name rep|rep|k|k suffix];
    simpl in H; try discriminate.
  - inversion H. reflexivity.
  - destruct (lookup name e) as [[s|p]|]; try discriminate; simpl in H.
    + inversion H. reflexivity.
    + destruct (lit_only p) eqn:El; [|discriminate]. inversion H; subst.
      destruct (expand_lit_only f (remove name e) rm rm p El) as [_ Hx]. rewrite Hx. reflexivity.
Qed.

Lemma fixed_sub_env : forall d e n t, NoDup (map fst d) -> NoDup (map fst e) ->
  fixed_text e n = Some t -> fixed_text (sub_env d e) n = Some t.
Proof.
  intros d e n t Hd He H. destruct n as [s|name rep|rep|k|k suffix]; simpl in *; auto.
  rewrite lookup_sub_env by auto. destruct (lookup name e); [auto|discriminate].
Qed.

Lemma first_text_sub_env : forall d e ns t, NoDup (map fst d) -> NoDup (map fst e) ->
  first_text e ns = Some t -> first_text (sub_env d e) ns = Some t.
Proof.
  intros d e ns t Hd He H. destruct ns as [|n0 ns]; [exact H|].
  destruct n0 as [s|name rep|rep|k|k suffix]; try exact H.
  apply (fixed_sub_env d e (NVar name rep) t Hd He H).
Qed.

Lemma first_segment_text : forall e ns t f rm, first_text e ns = Some t ->
  first_segment (expand_node (S (S f)) e rm) ns = Ok t.
Proof.
  intros e ns t f rm H. destruct ns as [|n0 ns]; [inversion H; reflexivity|].
  destruct n0 as [s|name rep|rep|k|k suffix].
  - unfold first_segment. rewrite (fixed_expand e (NLit s) t f rm H). reflexivity.
  - unfold first_segment. rewrite (fixed_expand e (NVar name rep) t f rm H). reflexivity.
  - discriminate.
  - inversion H. reflexivity.
  - inversion H. reflexivity.
Qed.

Lemma expand_fuel_SS : forall e, exists f, expand_fuel e = S (S f).
Proof. intros e. exists (2 * length e + 1). unfold expand_fuel. lia. Qed.

Lemma expand_children_lit_cons : forall f e rm s ns,
  expand_children (expand_node (S f) e true) rm (NLit s :: ns) =
  do x <- expand_children (expand_node (S f) e true) rm ns; Ok (IStr s :: x).
Proof.
  intros. change (expand_children (expand_node (S f) e true) rm (NLit s :: ns)) with
    (match expand_node (S f) e true (NLit s) with
     | Ok i => do r <- expand_children (expand_node (S f) e true) rm ns; Ok (i :: r)
     | Raise MissingEnv => if rm then Raise MissingEnv else Ok []
     | Raise t => Raise t
     end).
  rewrite expand_node_S. reflexivity.
Qed.

Lemma rx_children_lit_cons : forall f e s ns c,
  rx_children (rx_node (S f) e) (NLit s :: ns) c =
  do (b, c2) <- rx_children (rx_node (S f) e) ns c; Ok (map chr_lit s ++ b, c2).
Proof.
  intros. change (rx_children (rx_node (S f) e) (NLit s :: ns) c) with
    (do (a, c1) <- rx_node (S f) e (NLit s) c;
     do (b, c2) <- rx_children (rx_node (S f) e) ns c1; Ok (a ++ b, c2)).
  rewrite rx_node_S. reflexivity.
Qed.

(* expansion: root ++ body = the literal node in front *)
Lemma expand_unroot : forall e' r ns k k' t rm,
  first_text e' ns = Some t ->
  expand_pattern e' rm (mkpat ns (Some r) k) =
  expand_pattern e' rm (mkpat (NLit (root_part r t) :: ns) None k').
Proof.
  intros e' r ns k k' t rm Hf. unfold expand_pattern, expand_with. simpl p_root. simpl p_nodes.
  destruct (expand_fuel_SS e') as [f Hfu]. rewrite Hfu.
  rewrite (first_segment_text e' ns t f false Hf). rewrite expand_children_lit_cons.
  remember (expand_children (expand_node (S (S f)) e' true) rm ns) as EC.
  unfold root_part. cbn [bind]. remember (starts_with [c_slash] t) as ab.
  destruct ab; (destruct EC as [items|tg]; simpl; [|reflexivity]);
    destruct (join_items items); reflexivity.
Qed.

(* the regular expression: escaped root ++ body = the literal node in front *)
Lemma regex_unroot : forall e r ns k k' t,
  first_text e ns = Some t ->
  regex_of_pattern e (mkpat ns (Some r) k) =
  regex_of_pattern e (mkpat (NLit (root_part r t) :: ns) None k').
Proof.
  intros e r ns k k' t Hf. unfold regex_of_pattern, rx_pattern_with. simpl p_root. simpl p_nodes.
  destruct (expand_fuel_SS e) as [f Hfu]. rewrite Hfu.
  rewrite (first_segment_text e ns t f false Hf). unfold rx_fuel. rewrite rx_children_lit_cons.
  remember (rx_children (rx_node (S (length e)) e) ns (mkcst 1 [] false)) as RC.
  unfold root_part. cbn [bind]. remember (starts_with [c_slash] t) as ab.
  destruct ab; destruct RC as [[b c2]|tg]; reflexivity.
Qed.

(* ---- the matcher and its unrooted reading agree on every operation --------------------- *)
Lemma unroot_none : forall M, p_root (m_pat M) = None -> unroot M = M.
Proof. intros [p e] H. unfold unroot, unroot_pat. simpl in *. rewrite H. reflexivity. Qed.

Lemma match_unroot : forall M path, rooted_ok M -> match_ M path = match_ (unroot M) path.
Proof.
  intros [p e] path [Hn Hr]. simpl in *. destruct (p_root p) as [r|] eqn:Er.
  - destruct Hr as [t [Hf Hk]]. unfold match_, unroot, unroot_pat. simpl.
    rewrite Er, Hf. destruct p as [nodes root k]. simpl in *. subst.
    rewrite (regex_unroot e r nodes k (S k) t Hf). reflexivity.
  - unfold unroot, unroot_pat. simpl. rewrite Er. reflexivity.
Qed.

Lemma expand_unroot_env : forall M e' rm, rooted_ok M ->
  (forall t, first_text (m_env M) (p_nodes (m_pat M)) = Some t ->
             first_text e' (p_nodes (m_pat M)) = Some t) ->
  expand_pattern e' rm (m_pat M) = expand_pattern e' rm (m_pat (unroot M)).
Proof.
  intros [p e] e' rm [Hn Hr] He. simpl in *. destruct (p_root p) as [r|] eqn:Er.
  - destruct Hr as [t [Hf Hk]]. unfold unroot, unroot_pat. simpl.
    rewrite Er, Hf. destruct p as [nodes root k]. simpl in *. subst.
    apply expand_unroot. apply He. exact Hf.
  - unfold unroot, unroot_pat. simpl. rewrite Er. reflexivity.
Qed.

Lemma str_unroot : forall M, rooted_ok M -> str_of M = str_of (unroot M).
Proof. intros M H. unfold str_of. apply expand_unroot_env; auto. Qed.

Lemma first_text_firstn : forall e ns t k, first_text e ns = Some t -> (1 <= k \/ t = []) ->
  first_text e (firstn k ns) = Some t.
Proof.
  intros e ns t k H [Hk|Ht].
  - destruct k as [|k]; [lia|]. destruct ns as [|n0 ns]; exact H.
  - subst t. destruct k as [|k]; [reflexivity|]. destruct ns as [|n0 ns]; exact H.
Qed.

Lemma prefix_unroot : forall M, rooted_ok M -> prefix M = prefix (unroot M).
Proof.
  intros [p e] [Hn Hr]. simpl in *. destruct (p_root p) as [r|] eqn:Er.
  - destruct Hr as [t [Hf Hk]]. unfold prefix, unroot, unroot_pat. simpl.
    rewrite Er, Hf. simpl. apply expand_unroot. apply first_text_firstn; auto.
  - unfold unroot, unroot_pat. simpl. rewrite Er. reflexivity.
Qed.

Lemma unroot_env : forall M, m_env (unroot M) = m_env M.
Proof. reflexivity. Qed.

Lemma sub_unroot : forall P Q path, rooted_ok P -> simple (unroot P) -> rooted_ok Q ->
  sub P Q path = sub (unroot P) (unroot Q) path.
Proof.
  intros P Q path HP HS HQ. unfold sub. rewrite (match_unroot P path HP).
  destruct (match_ (unroot P) path) as [[d|]|] eqn:Em; try reflexivity. simpl.
  destruct (match_decompose _ _ _ HS Em) as [_ [_ [_ [Hd _]]]].
  rewrite (expand_unroot_env Q (sub_env d (m_env Q)) false HQ); [reflexivity|].
  intros t Hf. apply first_text_sub_env; auto. destruct HQ; auto.
Qed.

(* ---- the unrooted reading stays in the grammar -------------------------------------------- *)
Lemma unroot_nodes : forall M, rooted_ok M ->
  exists lead, p_nodes (m_pat (unroot M)) = lead ++ p_nodes (m_pat M) /\
               Forall (fun n => exists s, n = NLit s) lead /\ p_root (m_pat (unroot M)) = None.
Proof.
  intros [p e] [Hn Hr]. simpl in *. unfold unroot, unroot_pat. simpl.
  destruct (p_root p) as [r|] eqn:Er.
  - destruct Hr as [t [Hf Hk]]. rewrite Hf. simpl.
    exists [NLit (root_part r t)]. split; [reflexivity|]. split; [|reflexivity].
    constructor; [eexists; reflexivity|constructor].
  - exists []. simpl. rewrite Er. auto.
Qed.

(* the rooted grammar: the unrooted reading is in the grammar of the property *)
Definition in_grammar_rooted (M : matcher) : Prop := rooted_ok M /\ in_grammar (unroot M).
Definition simple_rooted (M : matcher) : Prop := rooted_ok M /\ simple (unroot M).

Lemma same_wildcards_unroot : forall P Q, rooted_ok P -> rooted_ok Q ->
  same_wildcards P Q -> same_wildcards (unroot P) (unroot Q).
Proof.
  intros P Q HP HQ H. unfold same_wildcards in *.
  destruct (unroot_nodes P HP) as [lp [Ep [Fp _]]]. destruct (unroot_nodes Q HQ) as [lq [Eq [Fq _]]].
  rewrite Ep, Eq, !filter_app, H.
  assert (Hl : forall l, Forall (fun n => exists s, n = NLit s) l -> filter is_wild l = []).
  { induction l as [|n l IH]; intros HF; auto. inversion HF as [|? ? [s Hs] HF']; subst.
    simpl. auto. }
  rewrite (Hl _ Fp), (Hl _ Fq). reflexivity.
Qed.

(* ---- the theorems, for rooted matchers ---------------------------------------------------------- *)
Theorem match_sound_rooted : forall M path d, simple_rooted M -> match_ M path = Ok (Some d) ->
  (exists p0, upto_final_newline path p0 /\
              expand_pattern (sub_env d (m_env M)) false (m_pat M) = Ok p0) /\
  kinds_ok (m_pat (unroot M)) d.
Proof.
  intros M path d [HR HS] Hm. rewrite (match_unroot M path HR) in Hm.
  destruct (sub_self_expand _ _ _ HS Hm) as [p0 [H1 H2]].
  destruct (match_decompose _ _ _ HS Hm) as [_ [_ [_ [Hd _]]]].
  split; [|eapply match_kinds_ok; eauto].
  exists p0. split; auto.
  rewrite (expand_unroot_env M (sub_env d (m_env M)) false HR); [exact H2|].
  intros t Hf. apply first_text_sub_env; auto. destruct HR; auto.
Qed.

Theorem sub_self_rooted : forall M path d, simple_rooted M -> match_ M path = Ok (Some d) ->
  exists p0, upto_final_newline path p0 /\ sub M M path = Ok (Some p0).
Proof.
  intros M path d HS Hm. destruct (match_sound_rooted M path d HS Hm) as [[p0 [H1 H2]] _].
  exists p0. split; auto. unfold sub. rewrite Hm. simpl. rewrite H2. reflexivity.
Qed.

(* the root is matched literally: every matched path starts with the text the root
   contributes, character by character, whatever characters it contains *)
Theorem rooted_match_starts_with_root : forall M path d r t, simple_rooted M ->
  p_root (m_pat M) = Some r -> first_text (m_env M) (p_nodes (m_pat M)) = Some t ->
  match_ M path = Ok (Some d) -> starts_with (root_part r t) path = true.
Proof.
  intros [p e] path d r t [HR HS] Hr Hf Hm. simpl in *.
  rewrite (match_unroot _ path HR) in Hm.
  destruct (match_decompose _ _ _ HS Hm) as [pieces [H1 [H2 _]]].
  unfold unroot, unroot_pat in H2. simpl in H2. rewrite Hr, Hf in H2. simpl in H2.
  inversion H2 as [|? piece ? ps Hp HF]; subst. simpl in Hp. subst piece.
  destruct H1 as [H1|H1]; rewrite H1; simpl; rewrite <- ?app_assoc; apply starts_with_app.
Qed.

Theorem roundtrip_rooted : forall P Q path path',
  in_grammar_rooted P -> in_grammar_rooted Q -> same_wildcards P Q ->
  no_final_newline path -> no_final_newline path' ->
  sub P Q path = Ok (Some path') ->
  (exists d', match_ Q path' = Ok (Some d')) /\ sub Q P path' = Ok (Some path).
Proof.
  intros P Q path path' [RP GP] [RQ GQ] Hs Hn Hn' Hsub.
  pose proof GP as [SP _]. pose proof GQ as [SQ _].
  rewrite (sub_unroot P Q path RP SP RQ) in Hsub.
  destruct (roundtrip (unroot P) (unroot Q) path path' GP GQ
              (same_wildcards_unroot P Q RP RQ Hs) Hn Hn' Hsub) as [[d' Hm] Hback].
  split.
  - exists d'. rewrite (match_unroot Q path' RQ). exact Hm.
  - rewrite (sub_unroot Q P path' RQ SQ RP). exact Hback.
Qed.

Theorem prefix_rooted : forall M path d pre, simple_rooted M ->
  match_ M path = Ok (Some d) -> prefix M = Ok pre -> starts_with pre path = true.
Proof.
  intros M path d pre [HR HS] Hm Hp. rewrite (match_unroot M path HR) in Hm.
  rewrite (prefix_unroot M HR) in Hp. eapply match_starts_with_prefix; eauto.
Qed.

Theorem expand_match_rooted : forall M, rooted_ok M -> simple (unroot M) -> compiles (unroot M) ->
  Forall var_not_star (p_nodes (m_pat (unroot M))) -> fully_bound (unroot M) ->
  exists path d, str_of M = Ok path /\ match_ M path = Ok (Some d) /\
    forall name rep, In (NVar name rep) (p_nodes (m_pat M)) ->
      exists v t, lookup name (m_env M) = Some v /\ value_text v = Some t /\
                  lookup name d = Some (Some t).
Proof.
  intros M HR HS HC HV HB.
  destruct (expand_then_match (unroot M) HS HC HV HB) as [path [d [H1 [H2 H3]]]].
  exists path, d. rewrite (str_unroot M HR), (match_unroot M path HR). split; [auto|]. split; [auto|].
  intros name rep Hin. apply (H3 name rep).
  destruct (unroot_nodes M HR) as [lead [E _]]. rewrite E. apply in_or_app. right. exact Hin.
Qed.
