(* C09, quoting: check_apostrophes on every string is the left-to-right scan
   for the three expressions it uses (they are group-free and decide a match
   from the next two characters), and on the rendering of a list of quoting
   tokens it is the token-level model of Proofs/CheckAndroidSpec.v.

   The three [run_*] lemmas are about the generated expressions as they are
   today ('""', '\\.|""', "'"); a change of one of them breaks these lemmas
   (and only these). *)
From Coq Require Import NArith List Bool Arith Lia.
From CL Require Import Base.Sx Base.Res Base.Str Regex.Rx Regex.RxLemmas Generated.RxC09
  Generated.C09Facts Model.CheckAndroid Proofs.CheckAndroidSpec Proofs.CheckAndroidScan.
Import ListNotations.

(* ---- the three step functions -------------------------------------------------------- *)
Definition hd_is (x : N) (l : str) : bool :=
  match l with c :: _ => N.eqb c x | [] => false end.

Definition step_dq (l : str) : option nat :=
  match l with
  | a :: t => if N.eqb a c_quote && hd_is c_quote t then Some 2 else None
  | [] => None
  end.

Definition step_sil (l : str) : option nat :=
  match l with
  | a :: t =>
      if (N.eqb a c_bs && match t with b :: _ => negb (N.eqb b c_nl) | [] => false end)
         || (N.eqb a c_quote && hd_is c_quote t)
      then Some 2 else None
  | [] => None
  end.

Definition step_apos (l : str) : option nat :=
  match l with
  | a :: _ => if N.eqb a c_apos then Some 1 else None
  | [] => None
  end.

Lemma step_dq_bound : forall l n, step_dq l = Some n -> 1 <= n /\ n <= length l.
Proof.
  intros [|a [|b t]] n H; simpl in H; try discriminate.
  - rewrite andb_false_r in H. discriminate.
  - destruct (_ && _); inversion H; subst. simpl. lia.
Qed.

Lemma step_sil_bound : forall l n, step_sil l = Some n -> 1 <= n /\ n <= length l.
Proof.
  intros [|a [|b t]] n H; simpl in H; try discriminate.
  - rewrite !andb_false_r in H. discriminate.
  - destruct (_ || _); inversion H; subst. simpl. lia.
Qed.

Lemma step_apos_bound : forall l n, step_apos l = Some n -> 1 <= n /\ n <= length l.
Proof.
  intros [|a t] n H; simpl in H; try discriminate.
  destruct (N.eqb a c_apos); inversion H; subst. simpl. lia.
Qed.

(* ---- the engine on the three expressions -------------------------------------------------- *)
Lemma in_ranges_single : forall c a, in_ranges c [(a, a)] = N.eqb c a.
Proof.
  intros c a. unfold in_ranges. simpl. rewrite orb_false_r.
  destruct (N.eqb_spec c a) as [E|E].
  - subst. rewrite N.leb_refl. reflexivity.
  - destruct (N.leb_spec a c), (N.leb_spec c a); simpl; auto. exfalso. apply E. lia.
Qed.

Lemma chr_ok_single : forall c a, chr_ok false [(a, a)] c = N.eqb c a.
Proof. intros. unfold chr_ok. rewrite in_ranges_single. destruct (N.eqb c a); reflexivity. Qed.

Lemma chr_ok_not_single : forall c a, chr_ok true [(a, a)] c = negb (N.eqb c a).
Proof. intros. unfold chr_ok. rewrite in_ranges_single. destruct (N.eqb c a); reflexivity. Qed.

Local Arguments chr_ok : simpl never.

Lemma run_dq : forall z, caps z = [] ->
  run_at rx_c09_dq z (fun _ => true) =
  match step_dq (suf z) with
  | Some n => MSome (mkres (pos z) (pos z + n) [])
  | None => MNone
  end.
Proof.
  intros [p s n c] Hc. simpl in Hc. subst c. unfold run_at, rx_c09_dq. simpl.
  destruct s as [|a [|b t]]; simpl; auto; rewrite ?chr_ok_single; unfold c_quote.
  - destruct (N.eqb a 34); reflexivity.
  - destruct (N.eqb a 34); simpl; auto. destruct (N.eqb b 34); simpl; auto.
    repeat f_equal; lia.
Qed.

Lemma run_sil : forall z, caps z = [] ->
  run_at rx_c09_silencer z (fun _ => true) =
  match step_sil (suf z) with
  | Some n => MSome (mkres (pos z) (pos z + n) [])
  | None => MNone
  end.
Proof.
  intros [p s n c] Hc. simpl in Hc. subst c. unfold run_at, rx_c09_silencer. simpl.
  destruct s as [|a [|b t]]; simpl; auto;
    rewrite ?chr_ok_single, ?chr_ok_not_single; unfold c_bs, c_nl, c_quote.
  - destruct (N.eqb a 92); destruct (N.eqb a 34); reflexivity.
  - destruct (N.eqb a 92) eqn:E1; simpl.
    + rewrite ?chr_ok_single, ?chr_ok_not_single. destruct (N.eqb b 10) eqn:E2; simpl.
      * apply N.eqb_eq in E1. subst a. simpl. reflexivity.
      * repeat f_equal; lia.
    + destruct (N.eqb a 34); simpl; auto. rewrite ?chr_ok_single.
      destruct (N.eqb b 34); simpl; auto. repeat f_equal; lia.
Qed.

Lemma run_apos : forall z, caps z = [] ->
  run_at rx_c09_apos z (fun _ => true) =
  match step_apos (suf z) with
  | Some n => MSome (mkres (pos z) (pos z + n) [])
  | None => MNone
  end.
Proof.
  intros [p s n c] Hc. simpl in Hc. subst c. unfold run_at, rx_c09_apos. simpl.
  destruct s as [|a t]; simpl; auto. rewrite chr_ok_single. unfold c_apos.
  destruct (N.eqb a 39); simpl; auto. repeat f_equal; lia.
Qed.

(* ---- check_apostrophes on every string ------------------------------------------------------- *)
Definition silenced (s : str) : str := subst step_sil [32; 32]%N s 0.

Theorem silence_chars : forall s, silence s = Ok (silenced s).
Proof.
  intro s. unfold silence, rsub, finditer.
  rewrite (rfinditer_local _ _ step_sil_bound run_sil). simpl.
  change s_silence with [32; 32]%N.
  rewrite (sub_local _ step_sil_bound). reflexivity.
Qed.

Theorem check_apostrophes_chars : forall s,
  check_apostrophes s =
  Ok (map (fun p => lit_issue y_double_quotes (fst p)) (scan step_dq s 0 0) ++
      (if is_quoted (silenced s) then []
       else map (fun p => lit_issue y_apostrophe (fst p)) (scan step_apos (silenced s) 0 0))).
Proof.
  intro s. unfold check_apostrophes. rewrite silence_chars. unfold finditer.
  rewrite (rfinditer_local _ _ step_dq_bound run_dq). simpl.
  destruct (is_quoted (silenced s)); simpl.
  - rewrite map_map. reflexivity.
  - rewrite (rfinditer_local _ _ step_apos_bound run_apos). simpl. rewrite !map_map. reflexivity.
Qed.

(* ---- one step of the scans ---------------------------------------------------------------------- *)
Lemma scan_none : forall step c l off, step (c :: l) = None ->
  scan step (c :: l) off 0 = scan step l (S off) 0.
Proof. intros step c l off H. simpl. rewrite H. reflexivity. Qed.

Lemma scan_some1 : forall step a l off, step (a :: l) = Some 1 ->
  scan step (a :: l) off 0 = (off, off + 1) :: scan step l (S off) 0.
Proof. intros step a l off H. simpl. rewrite H. reflexivity. Qed.

Lemma scan_some2 : forall step a b l off, step (a :: b :: l) = Some 2 ->
  scan step (a :: b :: l) off 0 = (off, off + 2) :: scan step l (S (S off)) 0.
Proof. intros step a b l off H. simpl scan at 1. rewrite H. reflexivity. Qed.

Lemma subst_none : forall step repl c l, step (c :: l) = None ->
  subst step repl (c :: l) 0 = c :: subst step repl l 0.
Proof. intros step repl c l H. simpl. rewrite H. reflexivity. Qed.

Lemma subst_some2 : forall step repl a b l, step (a :: b :: l) = Some 2 ->
  subst step repl (a :: b :: l) 0 = repl ++ subst step repl l 0.
Proof. intros step repl a b l H. simpl subst at 1. rewrite H. reflexivity. Qed.

(* ---- tokens ------------------------------------------------------------------------------------------ *)
Definition q_hd_quote (ts : list qtok) : bool :=
  match ts with QQuote :: _ => true | _ => false end.

Lemma q_hd_quote_true : forall ts, q_hd_quote ts = true -> exists ts', ts = QQuote :: ts'.
Proof. intros [|[] ts] H; try discriminate. eauto. Qed.

Lemma qrender_cons : forall t ts, qrender (t :: ts) = qrender1 t ++ qrender ts.
Proof. reflexivity. Qed.

Lemma qchar_ok : forall c, qtok_ok (QChar c) = true ->
  N.eqb c c_bs = false /\ N.eqb c c_quote = false /\ N.eqb c c_apos = false.
Proof.
  intros c H. simpl in H. apply andb_true_iff in H. destruct H as [H H3].
  apply andb_true_iff in H. destruct H as [H1 H2].
  apply negb_true_iff in H1, H2, H3. auto.
Qed.

Lemma hd_is_quote : forall ts, qtoks_ok ts -> hd_is c_quote (qrender ts) = q_hd_quote ts.
Proof.
  intros [|t ts] H; [reflexivity|]. inversion H as [|? ? Ht _]; subst.
  rewrite qrender_cons. destruct t; simpl; auto.
  apply qchar_ok in Ht. tauto.
Qed.

Lemma qtoks_ok_tail : forall t ts, qtoks_ok (t :: ts) -> qtoks_ok ts.
Proof. intros t ts H. inversion H; auto. Qed.

Lemma q_doubles_esc_nq : forall c ts off, q_hd_quote ts = false ->
  q_doubles (QEsc c :: ts) off = q_doubles ts (S (S off)).
Proof. intros c [|[] ts] off H; try discriminate; reflexivity. Qed.

Lemma q_doubles_quote_nq : forall ts off, q_hd_quote ts = false ->
  q_doubles (QQuote :: ts) off = q_doubles ts (S off).
Proof. intros [|[] ts] off H; try discriminate; reflexivity. Qed.

Lemma q_silence_quote_nq : forall ts, q_hd_quote ts = false ->
  q_silence (QQuote :: ts) = QQuote :: q_silence ts.
Proof. intros [|[] ts] H; try discriminate; reflexivity. Qed.

(* doubled quotes *)
Lemma dq_tokens : forall n ts off, length ts <= n -> qtoks_ok ts ->
  map fst (scan step_dq (qrender ts) off 0) = q_doubles ts off.
Proof.
  induction n as [|n IH]; intros ts off Hn Hok.
  - destruct ts; [reflexivity|simpl in Hn; lia].
  - destruct ts as [|t ts]; [reflexivity|].
    pose proof (qtoks_ok_tail _ _ Hok) as Hok'. simpl in Hn.
    inversion Hok as [|? ? Ht _]; subst. rewrite qrender_cons.
    destruct t; simpl qrender1; simpl app.
    + (* a plain character *)
      apply qchar_ok in Ht. destruct Ht as [_ [Hq _]].
      rewrite scan_none by (simpl; rewrite Hq; reflexivity).
      simpl q_doubles. apply IH; auto. lia.
    + (* an escape: the backslash never starts a pair, its second character may *)
      rewrite scan_none by reflexivity.
      destruct (N.eqb c c_quote && q_hd_quote ts) eqn:E.
      * apply andb_true_iff in E. destruct E as [E1 E2].
        destruct (q_hd_quote_true _ E2) as [ts' Hts]. subst ts.
        rewrite qrender_cons. simpl qrender1. simpl app.
        rewrite scan_some2.
        2:{ simpl. rewrite E1. reflexivity. }
        simpl q_doubles. rewrite E1. simpl. f_equal.
        apply IH; [simpl in Hn; lia|]. apply (qtoks_ok_tail _ _ Hok').
      * rewrite scan_none.
        2:{ simpl. rewrite hd_is_quote by auto. rewrite E. reflexivity. }
        apply andb_false_iff in E. destruct E as [E|E].
        -- assert (Hd : q_doubles (QEsc c :: ts) off = q_doubles ts (S (S off))).
           { destruct ts as [|[] ts']; try reflexivity. simpl. rewrite E. reflexivity. }
           rewrite Hd. apply IH; auto. lia.
        -- rewrite q_doubles_esc_nq by auto. apply IH; auto. lia.
    + (* an apostrophe *)
      rewrite scan_none by reflexivity. simpl q_doubles. apply IH; auto. lia.
    + (* a bare quote *)
      destruct (q_hd_quote ts) eqn:E.
      * destruct (q_hd_quote_true _ E) as [ts' Hts]. subst ts.
        rewrite qrender_cons. simpl qrender1. simpl app.
        rewrite scan_some2 by reflexivity. simpl q_doubles. simpl. f_equal.
        apply IH; [simpl in Hn; lia|]. apply (qtoks_ok_tail _ _ Hok').
      * rewrite scan_none.
        2:{ simpl. rewrite hd_is_quote by auto. rewrite E. reflexivity. }
        rewrite q_doubles_quote_nq by auto. apply IH; auto. lia.
Qed.

(* the silencer *)
Lemma silence_tokens : forall n ts, length ts <= n -> qtoks_ok ts ->
  silenced (qrender ts) = qrender (q_silence ts).
Proof.
  unfold silenced.
  induction n as [|n IH]; intros ts Hn Hok.
  - destruct ts; [reflexivity|simpl in Hn; lia].
  - destruct ts as [|t ts]; [reflexivity|].
    pose proof (qtoks_ok_tail _ _ Hok) as Hok'. simpl in Hn.
    inversion Hok as [|? ? Ht _]; subst. rewrite qrender_cons.
    destruct t; simpl qrender1; simpl app.
    + apply qchar_ok in Ht. destruct Ht as [Hb [Hq _]].
      rewrite subst_none by (simpl; rewrite Hb, Hq; reflexivity).
      simpl q_silence. rewrite qrender_cons. simpl. f_equal. apply IH; auto. lia.
    + simpl in Ht. rewrite subst_some2 by (simpl; rewrite Ht; reflexivity).
      simpl q_silence. rewrite !qrender_cons. simpl. do 2 f_equal. apply IH; auto. lia.
    + rewrite subst_none by reflexivity.
      simpl q_silence. rewrite qrender_cons. simpl. f_equal. apply IH; auto. lia.
    + destruct (q_hd_quote ts) eqn:E.
      * destruct (q_hd_quote_true _ E) as [ts' Hts]. subst ts.
        rewrite qrender_cons. simpl qrender1. simpl app.
        rewrite subst_some2 by reflexivity.
        simpl q_silence. rewrite !qrender_cons. simpl. do 2 f_equal.
        apply IH; [simpl in Hn; lia|]. apply (qtoks_ok_tail _ _ Hok').
      * rewrite subst_none.
        2:{ simpl. rewrite hd_is_quote by auto. rewrite E. reflexivity. }
        rewrite q_silence_quote_nq by auto. rewrite qrender_cons. simpl. f_equal.
        apply IH; auto. lia.
Qed.

(* what is left after silencing has no escape *)
Definition q_plain (t : qtok) : bool :=
  match t with QEsc _ => false | _ => qtok_ok t end.

Lemma q_silence_plain : forall n ts, length ts <= n -> qtoks_ok ts ->
  Forall (fun t => q_plain t = true) (q_silence ts).
Proof.
  induction n as [|n IH]; intros ts Hn Hok.
  - destruct ts; [constructor|simpl in Hn; lia].
  - destruct ts as [|t ts]; [constructor|].
    pose proof (qtoks_ok_tail _ _ Hok) as Hok'. simpl in Hn.
    inversion Hok as [|? ? Ht _]; subst.
    destruct t.
    + simpl. constructor; [exact Ht|]. apply IH; auto. lia.
    + simpl. constructor; [reflexivity|]. constructor; [reflexivity|]. apply IH; auto. lia.
    + simpl. constructor; [reflexivity|]. apply IH; auto. lia.
    + destruct (q_hd_quote ts) eqn:E.
      * destruct (q_hd_quote_true _ E) as [ts' Hts]. subst ts. simpl.
        constructor; [reflexivity|]. constructor; [reflexivity|].
        apply IH; [simpl in Hn; lia|]. apply (qtoks_ok_tail _ _ Hok').
      * rewrite q_silence_quote_nq by auto. constructor; [reflexivity|]. apply IH; auto. lia.
Qed.

Lemma q_apostrophes_silence : forall n ts off, length ts <= n ->
  q_apostrophes (q_silence ts) off = q_apostrophes ts off.
Proof.
  induction n as [|n IH]; intros ts off Hn.
  - destruct ts; [reflexivity|simpl in Hn; lia].
  - destruct ts as [|t ts]; [reflexivity|]. simpl in Hn.
    destruct t.
    + simpl. apply IH. lia.
    + simpl. apply IH. lia.
    + simpl. f_equal. apply IH. lia.
    + destruct (q_hd_quote ts) eqn:E.
      * destruct (q_hd_quote_true _ E) as [ts' Hts]. subst ts. simpl.
        apply IH. simpl in Hn. lia.
      * rewrite q_silence_quote_nq by auto. simpl. apply IH. lia.
Qed.

Definition qchar (t : qtok) : N :=
  match t with QChar c => c | QEsc c => c | QApos => c_apos | QQuote => c_quote end.

Lemma qrender_plain : forall us, Forall (fun t => q_plain t = true) us ->
  qrender us = map qchar us.
Proof.
  induction us as [|t us IH]; intro H; [reflexivity|].
  inversion H as [|? ? Ht H']; subst. rewrite qrender_cons, IH by auto.
  destruct t; try reflexivity. discriminate.
Qed.

Lemma plain_is_quote : forall t, q_plain t = true -> N.eqb c_quote (qchar t) = is_qquote t.
Proof.
  intros [c|c| |] H; try reflexivity; try discriminate.
  unfold qchar, is_qquote. apply qchar_ok in H. destruct H as [_ [H _]].
  rewrite N.eqb_sym. exact H.
Qed.

Lemma plain_is_apos : forall t, q_plain t = true ->
  N.eqb (qchar t) c_apos = match t with QApos => true | _ => false end.
Proof.
  intros [c|c| |] H; try reflexivity; try discriminate.
  unfold qchar. apply qchar_ok in H. tauto.
Qed.

Lemma apos_tokens : forall us off, Forall (fun t => q_plain t = true) us ->
  map fst (scan step_apos (map qchar us) off 0) = q_apostrophes us off.
Proof.
  induction us as [|t us IH]; intros off H; [reflexivity|].
  inversion H as [|? ? Ht H']; subst. simpl map at 2.
  pose proof (plain_is_apos t Ht) as Ha.
  destruct t; try discriminate.
  - rewrite scan_none by (unfold step_apos; rewrite Ha; reflexivity). simpl. apply IH; auto.
  - rewrite scan_some1 by reflexivity. simpl. f_equal. apply IH; auto.
  - rewrite scan_none by reflexivity. simpl. apply IH; auto.
Qed.

Lemma is_quoted_tokens : forall us, Forall (fun t => q_plain t = true) us ->
  is_quoted (map qchar us) =
  match us, rev us with
  | a :: _, b :: _ => is_qquote a && is_qquote b
  | _, _ => false
  end.
Proof.
  intros us H. unfold is_quoted, ends_with.
  change s_quote_start with [c_quote]. change s_quote_end with [c_quote].
  rewrite <- map_rev. simpl rev at 1.
  assert (Hr : Forall (fun t => q_plain t = true) (rev us)) by (apply Forall_rev; exact H).
  destruct us as [|a us']; [reflexivity|].
  inversion H as [|? ? Ha _]; subst.
  destruct (rev (a :: us')) as [|b r] eqn:E.
  - simpl. rewrite andb_false_r. reflexivity.
  - inversion Hr as [|? ? Hb _]; subst. cbn [starts_with map].
    rewrite !andb_true_r, (plain_is_quote a Ha), (plain_is_quote b Hb). reflexivity.
Qed.

(* ---- check_apostrophes on rendered tokens ------------------------------------------------------ *)
Theorem check_apostrophes_tokens : forall ts, qtoks_ok ts ->
  check_apostrophes (qrender ts) = Ok (quoting_model ts).
Proof.
  intros ts Hok. rewrite check_apostrophes_chars. unfold quoting_model. f_equal. f_equal.
  - rewrite <- (dq_tokens (length ts) ts 0) by auto. rewrite map_map. reflexivity.
  - rewrite (silence_tokens (length ts)) by auto.
    pose proof (q_silence_plain (length ts) ts (le_n _) Hok) as Hp.
    rewrite (qrender_plain _ Hp), (is_quoted_tokens _ Hp).
    unfold q_quoted.
    assert (Hrest : map (fun p => lit_issue y_apostrophe (fst p))
                      (scan step_apos (map qchar (q_silence ts)) 0 0) =
                    map (lit_issue y_apostrophe) (q_apostrophes ts 0)).
    { rewrite <- (q_apostrophes_silence (length ts) ts 0) by auto.
      rewrite <- (apos_tokens _ 0 Hp), map_map. reflexivity. }
    rewrite Hrest. clear Hrest Hp.
    destruct (q_silence ts) as [|a l]; [reflexivity|].
    destruct (rev (a :: l)) as [|b r]; reflexivity.
Qed.
