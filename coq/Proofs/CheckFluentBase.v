(* C08: basic lemmas about strings, dicts, severities of the generated append
   sites, and the decomposition of the message list of check_message. *)
From Coq Require Import ZArith NArith List Bool Arith Lia Permutation Sorted.
From CL Require Import Base.Sx Base.Res Base.Str Regex.Rx Regex.RxLemmas
  Generated.RxC08 Generated.C08Facts Model.Ftl Model.CheckFluent Model.CheckFluentSpec.
Import ListNotations.

Local Arguments Nat.ltb : simpl never.
Local Arguments Nat.leb : simpl never.

(* ---- strings ------------------------------------------------------------------------ *)
Lemma str_eqb_eq : forall a b, str_eqb a b = true <-> a = b.
Proof.
  unfold str_eqb. induction a as [|x a IH]; destruct b as [|y b]; split; intro H;
    try discriminate; try reflexivity.
  - apply andb_prop in H. destruct H as [H1 H2]. apply N.eqb_eq in H1. apply IH in H2. congruence.
  - inversion H; subst. apply andb_true_intro. split; [apply N.eqb_refl | apply IH; reflexivity].
Qed.

Lemma str_eqb_refl : forall a, str_eqb a a = true.
Proof. intro a. apply str_eqb_eq. reflexivity. Qed.

Lemma str_eqb_neq : forall a b, str_eqb a b = false <-> a <> b.
Proof.
  intros a b. split; intro H.
  - intro E. apply str_eqb_eq in E. congruence.
  - destruct (str_eqb a b) eqn:E; [apply str_eqb_eq in E; contradiction | reflexivity].
Qed.

Lemma str_eqb_sym : forall a b, str_eqb a b = str_eqb b a.
Proof.
  intros a b. destruct (str_eqb a b) eqn:E.
  - apply str_eqb_eq in E. subst. symmetry. apply str_eqb_refl.
  - symmetry. apply str_eqb_neq. apply str_eqb_neq in E. congruence.
Qed.

Lemma ostr_eqb_eq : forall a b, ostr_eqb a b = true <-> a = b.
Proof.
  intros [a|] [b|]; simpl; split; intro H; try discriminate; try reflexivity.
  - apply str_eqb_eq in H. congruence.
  - inversion H. apply str_eqb_refl.
Qed.

Lemma vkey_eqb_eq : forall a b, vkey_eqb a b = true <-> a = b.
Proof.
  intros [a|a] [b|b]; simpl; split; intro H; try discriminate;
    try (apply str_eqb_eq in H; congruence); inversion H; apply str_eqb_refl.
Qed.

Lemma mem_str_In : forall s l, mem_str s l = true <-> In s l.
Proof.
  intros s l. unfold mem_str. rewrite existsb_exists. split.
  - intros [x [Hx E]]. apply str_eqb_eq in E. subst. exact Hx.
  - intro H. exists s. split; [exact H | apply str_eqb_refl].
Qed.

Lemma mem_str_false : forall s l, mem_str s l = false <-> ~ In s l.
Proof.
  intros s l. split; intro H.
  - intro I. apply mem_str_In in I. congruence.
  - destruct (mem_str s l) eqn:E; [apply mem_str_In in E; contradiction | reflexivity].
Qed.

Lemma mem_str_ext : forall s a b, (forall n, In n a <-> In n b) -> mem_str s a = mem_str s b.
Proof.
  intros s a b H. destruct (mem_str s a) eqn:E.
  - symmetry. apply mem_str_In, H, mem_str_In, E.
  - symmetry. apply mem_str_false. intro I. apply H in I. apply mem_str_In in I. congruence.
Qed.

Lemma subset_str_spec : forall a b, subset_str a b = true <-> (forall n, In n a -> In n b).
Proof.
  intros a b. unfold subset_str. rewrite forallb_forall. split; intros H n Hn.
  - apply mem_str_In. apply H. exact Hn.
  - apply mem_str_In. apply H. exact Hn.
Qed.

Lemma subset_str_ext : forall a a' b b',
  (forall n, In n a <-> In n a') -> (forall n, In n b <-> In n b') ->
  subset_str a b = subset_str a' b'.
Proof.
  intros a a' b b' Ha Hb.
  destruct (subset_str a b) eqn:E; symmetry.
  - apply subset_str_spec. intros n Hn. apply Hb. rewrite subset_str_spec in E. apply E, Ha, Hn.
  - destruct (subset_str a' b') eqn:E'; [|reflexivity].
    rewrite subset_str_spec in E'.
    assert (subset_str a b = true) by (apply subset_str_spec; intros n Hn; apply Hb, E', Ha, Hn).
    congruence.
Qed.

(* ---- dicts -------------------------------------------------------------------------- *)
Section DictLemmas.
Context {K V : Type} (eqb : K -> K -> bool).
Hypothesis eqb_eq : forall a b, eqb a b = true <-> a = b.

Lemma eqb_refl' : forall a, eqb a a = true.
Proof. intro a. apply eqb_eq. reflexivity. Qed.

Lemma eqb_neq' : forall a b, a <> b -> eqb a b = false.
Proof. intros a b H. destruct (eqb a b) eqn:E; [apply eqb_eq in E; contradiction | reflexivity]. Qed.

Lemma dget_dset_same : forall k (v : V) m, dget eqb k (dset eqb k v m) = Some v.
Proof.
  intros k v m. induction m as [|[k' v'] m IH]; simpl.
  - rewrite eqb_refl'. reflexivity.
  - destruct (eqb k k') eqn:E; simpl; rewrite E; [reflexivity | exact IH].
Qed.

Lemma dget_dset_other : forall k k' (v : V) m, k <> k' -> dget eqb k (dset eqb k' v m) = dget eqb k m.
Proof.
  intros k k' v m H. induction m as [|[k2 v2] m IH]; simpl.
  - rewrite eqb_neq' by exact H. reflexivity.
  - destruct (eqb k' k2) eqn:E; simpl.
    + apply eqb_eq in E. subst k2. rewrite eqb_neq' by exact H. reflexivity.
    + destruct (eqb k k2); [reflexivity | exact IH].
Qed.

Lemma dset_keys_In : forall k k' (v : V) m,
  In k (map fst (dset eqb k' v m)) <-> k = k' \/ In k (map fst m).
Proof.
  intros k k' v m. induction m as [|[k2 v2] m IH]; simpl.
  - split; [intros [H|[]]; left; congruence | intros [H|[]]; left; congruence].
  - destruct (eqb k' k2) eqn:E; simpl.
    + apply eqb_eq in E. subst k2. split; [intros [H|H]; [right; left; exact H | right; right; exact H]
                                         | intros [H|[H|H]]; [left; congruence | left; exact H | right; exact H]].
    + rewrite IH. split; [intros [H|[H|H]]; tauto | intros [H|[H|H]]; tauto].
Qed.

Lemma dget_In : forall k m, (exists v : V, dget eqb k m = Some v) <-> In k (map fst m).
Proof.
  intros k m. induction m as [|[k2 v2] m IH]; simpl.
  - split; [intros [v H]; discriminate | intros []].
  - destruct (eqb k k2) eqn:E.
    + apply eqb_eq in E. subst. split; [intros _; left; reflexivity | intros _; eexists; reflexivity].
    + rewrite IH. split; [intro H; right; exact H | intros [H|H]; [|exact H]].
      subst. rewrite eqb_refl' in E. discriminate.
Qed.

Lemma dhas_In : forall k (m : list (K * V)), dhas eqb k m = true <-> In k (map fst m).
Proof.
  intros k m. rewrite <- dget_In. unfold dhas. destruct (dget eqb k m).
  - split; [intros _; eexists; reflexivity | reflexivity].
  - split; [discriminate | intros [v H]; discriminate].
Qed.

Lemma dset_NoDup : forall k (v : V) m, NoDup (map fst m) -> NoDup (map fst (dset eqb k v m)).
Proof.
  intros k v m. induction m as [|[k2 v2] m IH]; simpl; intro H.
  - constructor; [intros [] | constructor].
  - inversion H as [|? ? Hn Hd]; subst. destruct (eqb k k2) eqn:E; simpl.
    + constructor; assumption.
    + constructor; [|apply IH; exact Hd]. rewrite dset_keys_In. intros [H1|H1]; [|contradiction].
      subst. rewrite eqb_refl' in E. discriminate.
Qed.
End DictLemmas.

Definition str_dget_dset_same {V} := @dget_dset_same str V str_eqb str_eqb_eq.
Definition str_dset_keys_In {V} := @dset_keys_In str V str_eqb str_eqb_eq.
Definition str_dhas_In {V} := @dhas_In str V str_eqb str_eqb_eq.

Lemma dhas_mem_keys : forall {V} n (m : list (str * V)), dhas str_eqb n m = mem_str n (map fst m).
Proof.
  intros V n m. destruct (dhas str_eqb n m) eqn:E.
  - symmetry. apply mem_str_In. apply (str_dhas_In n m). exact E.
  - symmetry. apply mem_str_false. intro H. apply (str_dhas_In n m) in H. congruence.
Qed.

Lemma dict_at_dset_same : forall {V} k (v : list V) m, dict_at k (dset ostr_eqb k v m) = v.
Proof. intros. unfold dict_at. rewrite (dget_dset_same ostr_eqb ostr_eqb_eq). reflexivity. Qed.

Lemma dict_at_dset_other : forall {V} k k' (v : list V) m, k <> k' ->
  dict_at k (dset ostr_eqb k' v m) = dict_at k m.
Proof. intros. unfold dict_at. rewrite (dget_dset_other ostr_eqb ostr_eqb_eq) by assumption. reflexivity. Qed.

(* ---- severities of the generated sites ------------------------------------------------ *)
Lemma has_error_app : forall a b, has_error (a ++ b) = has_error a || has_error b.
Proof. intros. apply existsb_app. Qed.

Lemma has_error_flat_map : forall {T} (f : T -> list msg) l,
  has_error (flat_map f l) = existsb (fun x => has_error (f x)) l.
Proof.
  intros T f l. induction l as [|x l IH]; simpl; [reflexivity|].
  rewrite has_error_app, IH. reflexivity.
Qed.

Lemma has_error_map_false : forall {T} (f : T -> msg) l,
  (forall x, m_err (f x) = false) -> has_error (map f l) = false.
Proof.
  intros T f l H. induction l as [|x l IH]; simpl; [reflexivity|]. rewrite H, IH. reflexivity.
Qed.

Lemma existsb_false : forall {T} (f : T -> bool) l, (forall x, f x = false) -> existsb f l = false.
Proof. intros T f l H. induction l as [|x l IH]; simpl; [reflexivity | rewrite H, IH; reflexivity]. Qed.

Lemma dup_attr_no_error : forall attrs, has_error (dup_attr_msgs attrs) = false.
Proof.
  intro attrs. unfold dup_attr_msgs. apply has_error_map_false.
  intros [[[] pos] name]; reflexivity.
Qed.

Lemma dup_variant_no_error : forall keys, has_error (dup_variant_msgs keys) = false.
Proof.
  intro keys. unfold dup_variant_msgs. apply has_error_map_false.
  intros [[[] pos] k]; reflexivity.
Qed.

Lemma plural_no_error : forall known keys, has_error (plural_msgs known keys) = false.
Proof.
  intros known keys. unfold plural_msgs.
  destruct known as [[|c kp]|]; try reflexivity.
  destruct (existsb _ _); [|reflexivity].
  destruct (sorted_set _); [reflexivity|]. destruct keys as [|[k p0] keys]; reflexivity.
Qed.

Lemma check_variants_no_error : forall known keys, has_error (check_variants known keys) = false.
Proof.
  intros. unfold check_variants. rewrite has_error_app, dup_variant_no_error, plural_no_error. reflexivity.
Qed.

Lemma obsolete_ref_no_error : forall rr p n t, has_error (obsolete_ref rr p n t) = false.
Proof. intros. unfold obsolete_ref. destruct (dhas _ _ _); [reflexivity|]. destruct t; reflexivity. Qed.

Lemma missing_ref_no_error : forall rrefs lrefs, has_error (missing_ref_msgs rrefs lrefs) = false.
Proof.
  intros. unfold missing_ref_msgs. rewrite has_error_flat_map. apply existsb_false. intros [k d].
  rewrite has_error_flat_map. apply existsb_false. intros [n t]. simpl.
  destruct (mem_str _ _); [reflexivity|]. destruct t; reflexivity.
Qed.

(* ---- the handlers of the localized side, as a stream of messages ------------------------- *)
Definition ev_msg (known : option (list str)) (rr : refdict) (e : event) : list msg :=
  match e with
  | EvMsgRef p id attr => obsolete_ref rr p (msg_ref_name id attr) false
  | EvTermRef p id None => obsolete_ref rr p (term_ref_name id) true
  | EvTermRef _ _ (Some _) => []
  | EvSelect keys => check_variants known keys
  end.

Definition ev_name (e : event) : list str :=
  match e with
  | EvMsgRef _ id attr => [msg_ref_name id attr]
  | EvTermRef _ id None => [term_ref_name id]
  | _ => []
  end.

Lemma fold_lvisit_snd : forall known rr evs acc,
  snd (fold_left (lvisit_event known rr) evs acc) = snd acc ++ flat_map (ev_msg known rr) evs.
Proof.
  intros known rr evs. induction evs as [|e evs IH]; intro acc; simpl.
  - rewrite app_nil_r. reflexivity.
  - rewrite IH. destruct e as [p id attr|p id [a|]|keys]; simpl; rewrite <- ?app_assoc; reflexivity.
Qed.

Lemma fold_lvisit_fst : forall known rr evs acc,
  fst (fold_left (lvisit_event known rr) evs acc) =
  fold_left (fun s n => set_add n s) (flat_map ev_name evs) (fst acc).
Proof.
  intros known rr evs. induction evs as [|e evs IH]; intro acc; simpl; [reflexivity|].
  rewrite IH. destruct e as [p id attr|p id [a|]|keys]; simpl; reflexivity.
Qed.

Lemma ev_msg_no_error : forall known rr evs, has_error (flat_map (ev_msg known rr) evs) = false.
Proof.
  intros. rewrite has_error_flat_map. apply existsb_false.
  intros [p id attr|p id [a|]|keys]; simpl;
    auto using obsolete_ref_no_error, check_variants_no_error.
Qed.

(* the messages of the attributes in visiting order; the `style` checks thread the
   reference's css_styles object *)
Fixpoint attr_stream (known : option (list str)) (R : rstate) (attrs : list attribute)
         (rc : css_styles) : list msg :=
  match attrs with
  | [] => []
  | a :: rest =>
      flat_map (ev_msg known (dict_at (Some (a_name a)) (r_refs R))) (walk_pattern false (a_value a))
      ++ fst (lstyle a rc) ++ attr_stream known R rest (snd (lstyle a rc))
  end.

Lemma lvisit_attr_eq : forall known R st a,
  lvisit_attr known R st a =
  let F := fold_left (lvisit_event known (dict_at (Some (a_name a)) (r_refs R)))
                     (walk_pattern false (a_value a)) (dict_at (Some (a_name a)) (l_refs st), l_msgs st) in
  let S := lstyle a (l_ref_css st) in
  mkl (dset ostr_eqb (Some (a_name a)) (fst F) (l_refs st))
      (dset str_eqb (a_name a) (a_pos a) (l_attr_pos st)) (snd F ++ fst S) (snd S).
Proof.
  intros. unfold lvisit_attr. cbv zeta.
  destruct (fold_left _ _ _) as [s ms]. destruct (lstyle _ _) as [out rc]. reflexivity.
Qed.

Lemma fold_lvisit_attr_msgs : forall known R attrs st,
  l_msgs (fold_left (lvisit_attr known R) attrs st) =
  l_msgs st ++ attr_stream known R attrs (l_ref_css st).
Proof.
  intros known R attrs. induction attrs as [|a attrs IH]; intro st; simpl.
  - rewrite app_nil_r. reflexivity.
  - rewrite IH. rewrite lvisit_attr_eq. cbv zeta. simpl.
    rewrite fold_lvisit_snd. simpl. rewrite <- !app_assoc. reflexivity.
Qed.

Lemma fold_lvisit_attr_pos : forall known R attrs st,
  l_attr_pos (fold_left (lvisit_attr known R) attrs st) =
  fold_left (fun m a => dset str_eqb (a_name a) (a_pos a) m) attrs (l_attr_pos st).
Proof.
  intros known R attrs. induction attrs as [|a attrs IH]; intro st; simpl; [reflexivity|].
  rewrite IH. rewrite lvisit_attr_eq. reflexivity.
Qed.

Lemma rvisit_attr_eq : forall st a,
  rvisit_attr st a =
  mkr (dset ostr_eqb (Some (a_name a))
            (fold_left rvisit_event (walk_pattern false (a_value a)) (dict_at (Some (a_name a)) (r_refs st)))
            (r_refs st))
      (r_has_value st) (dset str_eqb (a_name a) (a_pos a) (r_attr_pos st))
      (fst (style_of a (r_css st) (r_css_err st))) (snd (style_of a (r_css st) (r_css_err st))).
Proof. intros. unfold rvisit_attr. destruct (style_of _ _ _). reflexivity. Qed.

Lemma fold_rvisit_attr_pos : forall attrs st,
  r_attr_pos (fold_left rvisit_attr attrs st) =
  fold_left (fun m a => dset str_eqb (a_name a) (a_pos a) m) attrs (r_attr_pos st).
Proof.
  induction attrs as [|a attrs IH]; intro st; simpl; [reflexivity|].
  rewrite IH, rvisit_attr_eq. reflexivity.
Qed.

Lemma fold_rvisit_attr_has_value : forall attrs st,
  r_has_value (fold_left rvisit_attr attrs st) = r_has_value st.
Proof.
  induction attrs as [|a attrs IH]; intro st; simpl; [reflexivity|].
  rewrite IH, rvisit_attr_eq. reflexivity.
Qed.

Lemma fold_dset_keys : forall attrs (m : list (str * nat)) n,
  In n (map fst (fold_left (fun m a => dset str_eqb (a_name a) (a_pos a) m) attrs m)) <->
  In n (map fst m) \/ In n (map a_name attrs).
Proof.
  induction attrs as [|a attrs IH]; intros m n; simpl.
  - tauto.
  - rewrite IH, str_dset_keys_In. split; [intros [[H|H]|H] | intros [H|[H|H]]]; auto.
Qed.

Lemma r_attr_pos_keys : forall r n, In n (map fst (r_attr_pos (rvisit r))) <-> In n (attr_names r).
Proof.
  intros r n. unfold rvisit. rewrite fold_rvisit_attr_pos, fold_dset_keys. simpl. unfold attr_names. tauto.
Qed.

Lemma r_has_value_rvisit : forall r, r_has_value (rvisit r) = ref_has_value r.
Proof. intro r. unfold rvisit. rewrite fold_rvisit_attr_has_value. reflexivity. Qed.

(* ---- the message list of check_message, flattened ------------------------------------------ *)
Definition l10n_attr_pos (l : entry) : list (str * nat) :=
  fold_left (fun m a => dset str_eqb (a_name a) (a_pos a) m) (e_attrs l) [].

Lemma l10n_attr_pos_keys : forall l n, In n (map fst (l10n_attr_pos l)) <-> In n (attr_names l).
Proof. intros l n. unfold l10n_attr_pos. rewrite fold_dset_keys. simpl. unfold attr_names. tauto. Qed.

Lemma lvisit_msgs : forall known R l,
  l_msgs (lvisit known R l) =
  dup_attr_msgs (e_attrs l)
  ++ flat_map (ev_msg known (dict_at None (r_refs R))) (events_of_value false l)
  ++ attr_stream known R (e_attrs l) (r_css R)
  ++ value_msgs R l ++ attr_msgs (r_attr_pos R) (l10n_attr_pos l).
Proof.
  intros known R l. unfold lvisit.
  pose proof (fold_lvisit_snd known (dict_at None (r_refs R)) (events_of_value false l)
                ([], dup_attr_msgs (e_attrs l))) as Hs.
  destruct (fold_left (lvisit_event known (dict_at None (r_refs R))) (events_of_value false l)
              ([], dup_attr_msgs (e_attrs l))) as [s ms]. simpl in Hs. subst ms.
  simpl. rewrite fold_lvisit_attr_msgs, fold_lvisit_attr_pos. simpl.
  unfold l10n_attr_pos. rewrite <- !app_assoc. reflexivity.
Qed.

Lemma check_message_msgs : forall known r l,
  check_message known r l =
  dup_attr_msgs (e_attrs l)
  ++ flat_map (ev_msg known (dict_at None (r_refs (rvisit r)))) (events_of_value false l)
  ++ attr_stream known (rvisit r) (e_attrs l) (r_css (rvisit r))
  ++ value_msgs (rvisit r) l ++ attr_msgs (r_attr_pos (rvisit r)) (l10n_attr_pos l)
  ++ missing_ref_msgs (r_refs (rvisit r)) (l_refs (lvisit known (rvisit r) l)).
Proof.
  intros. unfold check_message. cbv zeta. rewrite lvisit_msgs. rewrite <- !app_assoc. reflexivity.
Qed.
