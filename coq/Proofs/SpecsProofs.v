(* getPrintfSpecs against the positional argument model.
   Part B (this file): the loop of getPrintfSpecs over match objects that
   describe the tokens equals [argmodel]. *)
From Coq Require Import NArith List Bool Arith Lia ZifyBool.
From CL Require Import Base.Sx Base.Res Base.Str Regex.Rx
  Generated.RxC06 Generated.C06Facts Model.CheckProps Model.CheckPropsSpec
  Proofs.CheckPropsProofs.
Import ListNotations.

Local Arguments Nat.ltb : simpl never.
Local Arguments Nat.leb : simpl never.
Local Arguments Nat.eqb : simpl never.
Local Arguments Nat.sub : simpl never.
Local Arguments N.mul : simpl never.
Local Arguments N.add : simpl never.
Local Arguments N.sub : simpl never.

(* ---- int() on a numeral ---------------------------------------------------------- *)
Lemma int_digits_val : forall s acc, forallb is_digit s = true ->
  int_digits s acc = Ok (fold_left (fun a c => (a * 10 + (c - 48))%N) s acc).
Proof.
  induction s as [|c s IH]; intros acc H; cbn; [reflexivity|].
  cbn in H. apply andb_true_iff in H. destruct H as [Hc Hs].
  unfold is_digit in Hc. rewrite Hc. apply IH. exact Hs.
Qed.

Lemma fold_digits_pos : forall s acc, (1 <= acc)%N ->
  (1 <= fold_left (fun a c => (a * 10 + (c - 48))%N) s acc)%N.
Proof. induction s as [|c s IH]; intros acc H; cbn; [exact H|]. apply IH. lia. Qed.

Lemma py_int_number ds : number_ok ds = true ->
  py_int ds = Ok (dec_val ds) /\ (1 <= dec_val ds)%N.
Proof.
  destruct ds as [|d r]; cbn; [discriminate|]. intros H.
  apply andb_true_iff in H. destruct H as [H Hr]. apply andb_true_iff in H. destruct H as [H1 H2].
  apply N.leb_le in H1. apply N.leb_le in H2.
  assert (is_digit d = true) as Hd.
  { unfold is_digit. apply andb_true_iff. split; apply N.leb_le; lia. }
  unfold is_digit in Hd. rewrite Hd. split.
  - unfold dec_val. cbn. apply int_digits_val. exact Hr.
  - unfold dec_val. cbn. apply fold_digits_pos. lia.
Qed.

(* ---- the spec list of ordered slots -------------------------------------------------- *)
Definition ospec (o : option N) : spec := option_map (fun c => [c]) o.

Definition filled (slots : list (nat * N)) : list spec :=
  map (fun n => ospec (slot n slots)) (seq 1 (max_slot slots)).

Lemma max_slot_cons k c slots : max_slot ((k, c) :: slots) = Nat.max k (max_slot slots).
Proof. reflexivity. Qed.

Lemma slot_above n slots : max_slot slots < n -> slot n slots = None.
Proof.
  induction slots as [|[k c] slots IH]; [reflexivity|]. rewrite max_slot_cons. intros H.
  cbn [slot]. destruct (Nat.eqb k n) eqn:E; [apply Nat.eqb_eq in E; lia|]. apply IH. lia.
Qed.

Lemma set_nth_map_seq {A} (f : nat -> A) x : forall m a k, k < m ->
  set_nth k x (map f (seq a m)) = map (fun i => if Nat.eqb i (a + k) then x else f i) (seq a m).
Proof.
  induction m as [|m IH]; intros a k H; [lia|]. cbn [seq map].
  destruct k as [|k]; cbn [set_nth].
  - rewrite Nat.add_0_r, Nat.eqb_refl. f_equal.
    apply map_ext_in. intros i Hi. apply in_seq in Hi.
    destruct (Nat.eqb i a) eqn:E; [apply Nat.eqb_eq in E; lia|reflexivity].
  - assert (Nat.eqb a (a + S k) = false) as -> by (apply Nat.eqb_neq; lia).
    f_equal. rewrite IH by lia. apply map_ext. intros i.
    replace (S a + k) with (a + S k) by lia. reflexivity.
Qed.

Lemma filled_length slots : length (filled slots) = max_slot slots.
Proof. unfold filled. rewrite map_length, seq_length. reflexivity. Qed.

(* a new highest slot: pad with None *)
Lemma filled_push_high n c slots : max_slot slots < n ->
  filled ((n, c) :: slots) =
  filled slots ++ repeat None (n - 1 - max_slot slots) ++ [Some [c]].
Proof.
  intros H. unfold filled. rewrite max_slot_cons.
  replace (Nat.max n (max_slot slots)) with (max_slot slots + ((n - 1 - max_slot slots) + 1)) by lia.
  rewrite seq_app, map_app, seq_app, map_app. f_equal; [|f_equal].
  - apply map_ext_in. intros i Hi. apply in_seq in Hi. cbn [slot].
    destruct (Nat.eqb n i) eqn:E; [apply Nat.eqb_eq in E; lia|reflexivity].
  - assert (forall m a, max_slot slots < a -> a + m <= n ->
              map (fun i => ospec (slot i ((n, c) :: slots))) (seq a m) = repeat None m) as Hm.
    { induction m as [|m IHm]; intros a H1 H2; [reflexivity|]. cbn [seq map repeat]. f_equal.
      - cbn [slot]. destruct (Nat.eqb n a) eqn:E; [apply Nat.eqb_eq in E; lia|].
        rewrite slot_above by lia. reflexivity.
      - apply IHm; lia. }
    apply Hm; lia.
  - cbn [seq map slot].
    replace (1 + max_slot slots + (n - 1 - max_slot slots)) with n by lia.
    rewrite Nat.eqb_refl. reflexivity.
Qed.

(* an existing slot is overwritten *)
Lemma filled_push_low n c slots : 1 <= n -> n <= max_slot slots ->
  filled ((n, c) :: slots) = set_nth (n - 1) (Some [c]) (filled slots).
Proof.
  intros H1 H2. unfold filled. rewrite max_slot_cons.
  replace (Nat.max n (max_slot slots)) with (max_slot slots) by lia.
  rewrite set_nth_map_seq by lia. apply map_ext. intros i. cbn [slot].
  replace (1 + (n - 1)) with n by lia. rewrite (Nat.eqb_sym i n).
  destruct (Nat.eqb n i); reflexivity.
Qed.

(* ---- the loop state against the style ------------------------------------------------ *)
Inductive rel : style -> bool -> list spec -> Prop :=
| RNone : rel SNone false []
| RUn args : args <> [] -> rel (SUnordered args) false (map (fun c => Some [c]) args)
| ROrd slots : 0 < max_slot slots -> rel (SOrdered slots) true (filled slots).

Lemma forallb_map' {A B} (f : A -> B) (p : B -> bool) l :
  forallb p (map f l) = forallb (fun x => p (f x)) l.
Proof. induction l as [|x l IH]; cbn; [reflexivity|]. rewrite IH. reflexivity. Qed.

Lemma forallb_ext' {A} (p q : A -> bool) l : (forall x, p x = q x) -> forallb p l = forallb q l.
Proof. intros H. induction l as [|x l IH]; cbn; [reflexivity|]. rewrite H, IH. reflexivity. Qed.

Lemma escaped_literal : lit_pe_escaped = [pct].
Proof. reflexivity. Qed.

Lemma finish_rel st h specs : rel st h specs ->
  (if h && negb (forallb truthy_spec specs) then Ok (SErr 0 PEMissing) else Ok (SOk specs)) =
  Ok (finish st).
Proof.
  intros [|args Ha|slots Hs]; cbn [andb finish]; try reflexivity.
  unfold filled. rewrite forallb_map'.
  assert (forallb (fun x => truthy_spec (ospec (slot x slots))) (seq 1 (max_slot slots)) =
          forallb (fun o => match o with Some _ => true | None => false end)
                  (map (fun n => slot n slots) (seq 1 (max_slot slots)))) as ->.
  { rewrite forallb_map'. apply forallb_ext'. intros n. destruct (slot n slots); reflexivity. }
  destruct (forallb _ _); cbn [negb]; [|reflexivity].
  rewrite map_map. reflexivity.
Qed.

Theorem specs_loop_argmodel s : forall toks off st h specs ms,
  clean toks = true -> rel st h specs ->
  Forall2 (fun ot x => tok_match s (fst ot) (snd ot) x) (pct_toks toks off) ms ->
  specs_loop s ms h specs = Ok (argmodel_from toks off st).
Proof.
  induction toks as [|t toks IH]; intros off st h specs ms Hc Hr Hm.
  - cbn in Hm. inversion Hm; subst. cbn [specs_loop argmodel_from]. apply finish_rel. exact Hr.
  - cbn [clean] in Hc. apply andb_true_iff in Hc. destruct Hc as [Hc Hlone].
    apply andb_true_iff in Hc. destruct Hc as [Hok Hc].
    destruct t as [txt| | |num w p c]; cbn [pct_toks] in Hm; cbn [argmodel_from].
    + (* text *) apply IH; assumption.
    + (* %% *)
      inversion Hm as [|? x ? ms' [Hst Hg] Hm']; subst. cbn [fst snd] in *.
      cbn [specs_loop]. rewrite Hg, escaped_literal.
      assert (str_eqb [pct] [pct] = true) as -> by reflexivity.
      apply IH; assumption.
    + (* lone *)
      inversion Hm as [|? x ? ms' [Hst Hg] Hm']; subst. cbn [fst snd] in *.
      cbn [specs_loop]. rewrite Hg, Hst. reflexivity.
    + (* conversion *)
      inversion Hm as [|? x ? ms' Htm Hm']; subst. unfold tok_match in Htm. cbn [fst snd] in Htm.
      destruct Htm as [Hst ((g & Hg & Hgn) & Hnum & Hsp)]. cbn [specs_loop]. rewrite Hg, escaped_literal.
      assert (str_eqb g [pct] = false) as ->.
      { destruct (str_eqb g [pct]) eqn:E; [apply str_eqb_eq in E; contradiction|reflexivity]. }
      rewrite Hnum, Hsp.
      cbn [tok_ok] in Hok. apply andb_true_iff in Hok. destruct Hok as [Hok Hcspec].
      apply andb_true_iff in Hok. destruct Hok as [Hok _].
      apply andb_true_iff in Hok. destruct Hok as [Hnumok _].
      destruct num as [ds|].
      * destruct (py_int_number ds Hnumok) as [Hint Hpos]. rewrite Hint.
        destruct Hr as [|args Ha|slots Hs]; cbn [andb negb orb nonempty].
        -- (* first argument, ordered *)
           destruct (dec_val ds) as [|pv] eqn:Ev; [lia|]. rewrite <- Ev.
           cbn [length]. assert (0 <=? N.to_nat (dec_val ds) - 1 = true) as -> by (apply Nat.leb_le; lia).
           cbn [app]. apply IH; [assumption| |assumption].
           pose proof (filled_push_high (N.to_nat (dec_val ds)) c [] ltac:(cbn; lia)) as Ef.
           change (filled []) with (@nil spec) in Ef. change (max_slot []) with 0 in Ef.
           assert (rel (SOrdered [(N.to_nat (dec_val ds), c)]) true
                       (filled [(N.to_nat (dec_val ds), c)])) as Hrel
             by (constructor; rewrite max_slot_cons; lia).
           rewrite Ef in Hrel. exact Hrel.
        -- (* ordered after unordered *)
           destruct args; [contradiction|]. cbn [map nonempty]. rewrite Hst. reflexivity.
        -- (* another ordered argument *)
           destruct (dec_val ds) as [|pv] eqn:Ev; [lia|]. rewrite <- Ev.
           rewrite filled_length.
           destruct (max_slot slots <=? N.to_nat (dec_val ds) - 1) eqn:E.
           ++ apply Nat.leb_le in E. apply IH; [assumption| |assumption].
              rewrite <- filled_push_high by lia. constructor. rewrite max_slot_cons. lia.
           ++ apply Nat.leb_gt in E. apply IH; [assumption| |assumption].
              rewrite <- filled_push_low by lia. constructor. rewrite max_slot_cons. lia.
      * destruct Hr as [|args Ha|slots Hs]; cbn [andb negb orb nonempty].
        -- apply IH; [assumption| |assumption]. apply (RUn [c]). discriminate.
        -- rewrite andb_false_r. cbn [orb]. apply IH; [assumption| |assumption].
           assert (rel (SUnordered (args ++ [c])) false
                       (map (fun c => Some [c]) (args ++ [c]))) as Hrel
             by (constructor; destruct args; discriminate).
           rewrite map_app in Hrel. exact Hrel.
        -- rewrite Hst. reflexivity.
Qed.

(* C06_specs_model: for clean token lists, whenever the match objects describe
   the tokens, the loop of getPrintfSpecs yields the positional argument model *)
Theorem specs_model : forall toks ms, clean toks = true -> matches_describe toks ms ->
  specs_loop (render toks) ms false [] = Ok (argmodel toks).
Proof.
  intros toks ms Hc Hm. apply (specs_loop_argmodel (render toks) toks 0 SNone); auto. constructor.
Qed.
