(* C02, properties: junk regions.  The blocks of Proofs/C02Blocks.v plus garbage regions:
   a garbage region is a sequence of lines, each ended by a newline, that contain none of
   "=" ":" "#" "!" (so no position in them starts a key or a comment), the first of which
   starts with a non-whitespace character; it is followed by the end of the file, a comment
   or an entity (blank lines after garbage belong to the region: they are lines of it).
   Such a file parses to exactly the entries of its blocks, with ONE Junk entry per garbage
   region covering exactly that region ([blocks_properties_junk]); with one region inserted
   between two block lists every record is recovered unchanged and exactly the garbage is
   junk ([junk_one_region]). *)
From Coq Require Import NArith List Bool Arith Lia.
From CL Require Import Base.Sx Base.Res Base.Str Regex.Rx Regex.RxLemmas Model.Entry Model.Parse
  Model.ParseFormats Generated.RxParser Proofs.UnescapeProofs
  Proofs.ClassLoop Proofs.ClassLoop2 Proofs.C02Props Proofs.WalkProofs Proofs.C02Roundtrip
  Proofs.C02BlocksRx Proofs.C02BlocksVal Proofs.C02Blocks Proofs.C02BlocksIniRx
  Proofs.C02BlocksJunkRx.
Import ListNotations.

Local Arguments Nat.ltb : simpl never.
Local Arguments Nat.leb : simpl never.
Local Arguments Nat.eqb : simpl never.
Local Arguments N.eqb : simpl never.
Local Arguments N.leb : simpl never.
Local Arguments chr_ok : simpl never.
Local Arguments vraw : simpl never.

Ltac norm_app := repeat (progress (rewrite <- ?app_assoc; cbn [app])).

(* ---- a garbage region ---------------------------------------------------------------------------- *)
Definition legal_garbage (gl : list str) : bool :=
  forallb legal_gline gl &&
  match gl with
  | (c :: _) :: _ => negb (mem c WS)
  | _ => false
  end.

(* what may follow a garbage region *)
Inductive junk_after : str -> Prop :=
| ja_eof : junk_after []
| ja_comment : forall cs X, cs <> [] -> forallb legal_cline cs = true ->
               head_is (fun c => mem c CM) X = false -> junk_after (ctext cs ++ X)
| ja_key : forall c0 ktl b1 sc b2 Y, legal_key (c0 :: ktl) = true -> legal_sep b1 sc b2 = true ->
           head_is (fun c => mem c BL) Y = false ->
           junk_after (c0 :: ktl ++ b1 ++ sc :: b2 ++ Y).

Lemma key_nil_fails : forall pr p, run_at rx_props_key (mkst pr [] p []) (fun _ => true) = MNone.
Proof. reflexivity. Qed.

Lemma comment_nil_fails : forall pr p,
  run_at rx_props_comment (mkst pr [] p []) (fun _ => true) = MNone.
Proof. intros. rewrite run_at_k0, comment_fails_nil. reflexivity. Qed.

Lemma osearch_of : forall R (s : str) off r, rsearch R s off = r ->
  osearch R s off = match r with MSome x => Some x | _ => None end.
Proof. intros R s off r <-. reflexivity. Qed.

(* a search that starts at the end of the garbage finds nothing before that point *)
Lemma search_bound : forall R fuel pr after p,
  length after < fuel ->
  match search_from R fuel (mkst pr after p []) None with
  | MSome x => p <= m_start x
  | _ => True
  end.
Proof.
  intros R fuel pr after p Hf.
  destruct (search_from R fuel (mkst pr after p []) None) as [|x|] eqn:E; auto.
  apply search_from_some in E. cbn [pos] in E. lia.
Qed.

Lemma gtext_pos : forall gl, legal_garbage gl = true -> 1 <= length (gtext gl).
Proof.
  intros [|[|c l] gl] H; unfold legal_garbage in H; apply andb_true_iff in H; destruct H as [_ H];
    try discriminate. rewrite gtext_cons. simpl. lia.
Qed.

Lemma gn_junk : forall (a : str) gl after,
  legal_garbage gl = true -> junk_after after ->
  gn_properties (a ++ gtext gl ++ after) (length a) =
  mk_junk (length a, length a + length (gtext gl)).
Proof.
  intros a gl after Hg Hafter. pose proof (gtext_pos gl Hg) as Hpos.
  unfold legal_garbage in Hg. apply andb_true_iff in Hg. destruct Hg as [Hleg Hhead].
  set (s := a ++ gtext gl ++ after).
  (* nothing matches at the start of the region *)
  destruct gl as [|[|c l0] gl']; try discriminate. apply negb_true_iff in Hhead.
  assert (Hl0 : no_chars GC (c :: l0) = true).
  { cbn [forallb] in Hleg. apply andb_true_iff in Hleg. apply Hleg. }
  assert (Hcm : mem c CM = false) by (eapply gc_cm; [exact Hl0|left; reflexivity]).
  assert (Es : s = a ++ (c :: l0) ++ (10%N :: (gtext gl' ++ after))).
  { unfold s. rewrite gtext_cons. norm_app. reflexivity. }
  assert (Ec : omatch rx_props_comment s (length a) = None).
  { rewrite Es. apply omatch_comment_none. exact Hcm. }
  assert (Ew : omatch rx_props_ws s (length a) = None).
  { rewrite Es. apply omatch_ws_none. exact Hhead. }
  assert (Ek : omatch rx_props_key s (length a) = None).
  { rewrite Es, omatch_split, run_at_k0.
    rewrite key_fails_line; [reflexivity|apply gc_kc; exact Hl0|right; eexists; reflexivity]. }
  unfold gn_properties, get_next_properties. fold s. rewrite Ec, Ew, Ek.
  (* the two searches of getJunk, from offset + 1 *)
  set (G := gtext ((c :: l0) :: gl')) in *.
  assert (Hkf := fun i pr p (Hi : i < length G) => key_attempt_fails_g _ after i pr p Hleg Hi).
  assert (Hcf := fun i pr p (Hi : i < length G) => comment_attempt_fails_g _ after i pr p Hleg Hi).
  destruct (search_from_garbage rx_props_key _ after a 1 Hkf Hpos) as [prk [fk [Fk Ekk]]].
  destruct (search_from_garbage rx_props_comment _ after a 1 Hcf Hpos) as [prc [fc [Fc Ecc]]].
  fold G in Ekk, Ecc. fold s in Ekk, Ecc.
  replace (length a + 1) with (S (length a)) in Ekk, Ecc by lia.
  assert (Ok : osearch rx_props_key s (S (length a)) =
               match search_from rx_props_key fk (mkst prk after (length a + length G) []) None with
               | MSome x => Some x | _ => None end) by exact (osearch_of _ _ _ _ Ekk).
  assert (Oc : osearch rx_props_comment s (S (length a)) =
               match search_from rx_props_comment fc (mkst prc after (length a + length G) []) None with
               | MSome x => Some x | _ => None end) by exact (osearch_of _ _ _ _ Ecc).
  pose proof (search_bound rx_props_key fk prk after (length a + length G) Fk) as Bk.
  pose proof (search_bound rx_props_comment fc prc after (length a + length G) Fc) as Bc.
  assert (Gk : osearch rx_props_key s (S (length a)) = None \/
               exists x, osearch rx_props_key s (S (length a)) = Some x /\ length a + length G <= m_start x).
  { rewrite Ok. destruct (search_from rx_props_key fk _ None) as [|x|]; [left|right|left]; auto.
    exists x. split; [reflexivity|exact Bk]. }
  assert (Gc : osearch rx_props_comment s (S (length a)) = None \/
               exists y, osearch rx_props_comment s (S (length a)) = Some y /\ length a + length G <= m_start y).
  { rewrite Oc. destruct (search_from rx_props_comment fc _ None) as [|y|]; [left|right|left]; auto.
    exists y. split; [reflexivity|exact Bc]. }
  destruct Hafter as [|cs X Hne Hcs HX|c0 ktl b1 sc b2 Y Hk Hs HY].
  - (* the end of the file *)
    assert (Nk : osearch rx_props_key s (S (length a)) = None).
    { rewrite Ok. destruct fk; [simpl in Fk; lia|]. rewrite search_from_S. cbv beta iota. cbn [suf].
      change (fun s' : st => true) with (fun _ : st => true). rewrite key_nil_fails. reflexivity. }
    assert (Nc : osearch rx_props_comment s (S (length a)) = None).
    { rewrite Oc. destruct fc; [simpl in Fc; lia|]. rewrite search_from_S. cbv beta iota. cbn [suf].
      change (fun s' : st => true) with (fun _ : st => true). rewrite comment_nil_fails. reflexivity. }
    rewrite get_junk_eof by auto. unfold s. rewrite !app_length. simpl. rewrite Nat.add_0_r. reflexivity.
  - (* a comment starts right after the region *)
    apply get_junk_at; auto; [lia|]. right.
    rewrite Oc. destruct fc; [simpl in Fc; lia|]. rewrite search_from_S. cbv beta iota. cbn [suf pos].
    change (fun s' : st => true) with (fun _ : st => true).
    rewrite run_at_k0, comment_match by auto. eexists. split; reflexivity.
  - (* a key starts right after the region *)
    apply get_junk_at; auto; [lia|]. left.
    rewrite Ok. destruct fk; [simpl in Fk; lia|]. rewrite search_from_S. cbv beta iota. cbn [suf pos].
    change (fun s' : st => true) with (fun _ : st => true).
    destruct (key_facts c0 ktl Hk) as [K1 [K2 K3]]. destruct (sep_facts b1 sc b2 Hs) as [S1 [S2 S3]].
    destruct (key_matches c0 ktl b1 sc b2 Y prk (length a + length G) K1 K2 K3 S1 S2 S3 HY)
      as [s' [M1 _]].
    rewrite run_at_k0, M1. eexists. split; reflexivity.
Qed.

(* ---- blocks with garbage regions ------------------------------------------------------------------ *)
Inductive jblock :=
| JB (b : block)
| JG (gl : list str).

Definition jtext (jb : jblock) : str := match jb with JB b => text b | JG gl => gtext gl end.
Definition legal_jblockb (jb : jblock) : bool :=
  match jb with JB b => legal_blockb b | JG gl => legal_garbage gl end.
Definition legal_jblock (jb : jblock) : Prop := legal_jblockb jb = true.

(* as in C02Blocks.separatedb; a garbage region is followed by the end of the file, a comment
   or an entity (blank lines and further garbage are lines of the same region), and is not
   directly preceded by a standalone comment block *)
Fixpoint jsep (bs : list jblock) : bool :=
  match bs with
  | [] => true
  | JB (BComment _) :: rest =>
      match rest with
      | [] => true
      | JB (BBlank w) :: _ => mem 10%N w
      | _ => false
      end && jsep rest
  | JB (BEntity _ _ _ _ _ _ _ nl) :: rest => (nl || is_nil rest) && jsep rest
  | JB (BBlank _) :: rest => jsep rest
  | JG _ :: rest =>
      match rest with
      | [] | JB (BComment _) :: _ | JB (BEntity _ _ _ _ _ _ _ _) :: _ => true
      | _ => false
      end && jsep rest
  end.

Definition jlicense_okb (bs : list jblock) : bool :=
  match bs with
  | JB (BEntity cs _ _ _ _ _ _ _) :: _ => negb (contains s_License (comment_val (COffset 1) (cbody cs)))
  | _ => true
  end.

Definition jadjacent_okb (bs : list jblock) : bool := jsep bs && jlicense_okb bs.
Definition jadjacent_ok (bs : list jblock) : Prop := jadjacent_okb bs = true.

Fixpoint jents (off w : nat) (bs : list jblock) : list entry :=
  match bs with
  | [] => flush off w
  | JB (BBlank x) :: rest => jents off (w + length x) rest
  | JB (BComment cs) :: rest =>
      let a := off + w in
      let e := a + length (cbody cs) in
      flush off w ++ mk_comment (a, e) :: jents e 1 rest
  | JB (BEntity cs key b1 sc b2 conts lastl nl) :: rest =>
      let a := off + w in
      let k := a + length (ctext cs) in
      let ke := k + length key in
      let v := ke + length b1 + 1 + length b2 in
      let e := v + length (vraw conts lastl) in
      flush off w ++
      mkentry KEntity (k, e) (Some (k, ke)) (Some (v, e))
              (match cs with [] => None | _ => Some (a, k - 1) end)
              (match cs with [] => None | _ => Some (k - 1, k) end)
      :: jents e (length (eol nl)) rest
  | JG gl :: rest =>
      let a := off + w in
      flush off w ++ mk_junk (a, a + length (gtext gl)) :: jents (a + length (gtext gl)) 0 rest
  end.

Definition jentries_of (bs : list jblock) : list entry := jents 0 0 bs.
Definition jfile_text (bs : list jblock) : str := concat (map jtext bs).

(* sanity, by evaluation:  k=v / garbage, blank line, more garbage / # s / <blank> / k : ... *)
Definition jx_g : jblock := JG [A [103; 97; 114; 98]; []; A [32; 120; 32; 121]].
Example jx_junk :
  let bs := [JB ex_e1; jx_g; JB ex_c; JB ex_b; JB ex_e3; JG [A [106]]; JB ex_e2; JG [A [122]; []]] in
  Forall legal_jblock bs /\ jadjacent_ok bs /\ walk_properties (jfile_text bs) = Ok (jentries_of bs) /\
  map (fun e => (e_kind e, e_span e)) (jentries_of bs) =
  [(KEntity, (0, 3)); (KWhitespace, (3, 4)); (KJunk, (4, 15)); (KComment, (15, 20));
   (KWhitespace, (20, 22)); (KEntity, (22, 38)); (KWhitespace, (38, 39)); (KJunk, (39, 41));
   (KEntity, (49, 58)); (KWhitespace, (58, 59)); (KJunk, (59, 62))].
Proof. split; [repeat constructor|]. split; [vm_compute; reflexivity|]. split; vm_compute; reflexivity. Qed.

(* ---- the walk ---------------------------------------------------------------------------------------- *)
Definition jstmt (bs : list jblock) (a w : str) : Prop :=
  (a = [] -> w = [] -> jlicense_okb bs = true) ->
  forall fuel, length (a ++ w ++ jfile_text bs) - length a < fuel ->
  walk_loop (stateless gn_properties) fuel tt (a ++ w ++ jfile_text bs) (length a) =
  Ok (jents (length a) (length w) bs).

Definition jnonblank_head (bs : list jblock) : Prop :=
  match bs with JB (BBlank _) :: _ => False | _ => True end.

Lemma jents_flush : forall bs off w, jnonblank_head bs ->
  jents off w bs = flush off w ++ jents (off + w) 0 bs.
Proof.
  intros [|[[x|cs|cs key b1 sc b2 conts lastl nl]|gl] rest] off w H; try contradiction; simpl;
    rewrite ?Nat.add_0_r, ?app_nil_r; reflexivity.
Qed.

Lemma jlift_flush : forall bs, jnonblank_head bs ->
  head_is (fun c => mem c WS) (jfile_text bs) = false ->
  (forall a, jstmt bs a []) ->
  forall a w, forallb (fun c => mem c WS) w = true -> jstmt bs a w.
Proof.
  intros bs Hnb Hhead H0 a w Hw Hlic fuel Hf.
  destruct w as [|c w'] eqn:Ew; [apply (H0 a); auto|]. rewrite <- Ew in *.
  assert (Hne : w <> []) by (rewrite Ew; discriminate).
  destruct fuel as [|f]; [lia|].
  rewrite jents_flush by exact Hnb.
  assert (Efl : flush (length a) (length w) = [mk_white (length a, length a + length w)])
    by (rewrite Ew; reflexivity).
  rewrite Efl. simpl app.
  pose proof (gn_white a w (jfile_text bs) Hne Hw Hhead) as G.
  rewrite <- G. apply walk_step.
  - rewrite !app_length. rewrite Ew. simpl. lia.
  - rewrite G. cbn [mk_white e_span snd].
    assert (Hs : a ++ w ++ jfile_text bs = (a ++ w) ++ [] ++ jfile_text bs)
      by (rewrite <- app_assoc; reflexivity).
    rewrite Hs, <- app_length. apply (H0 (a ++ w)).
    + intros E. apply app_eq_nil in E. destruct E as [_ E]. contradiction.
    + rewrite <- Hs. rewrite !app_length in *. rewrite Ew in *. simpl in *. lia.
Qed.

Lemma jfile_text_cons : forall b bs, jfile_text (b :: bs) = jtext b ++ jfile_text bs.
Proof. reflexivity. Qed.

Lemma head_gtext : forall gl X, legal_garbage gl = true ->
  head_is (fun c => mem c WS) (gtext gl ++ X) = false.
Proof.
  intros [|[|c l] gl] X H; unfold legal_garbage in H; apply andb_true_iff in H; destruct H as [_ H];
    try discriminate. rewrite gtext_cons. cbn [app head_is]. apply negb_true_iff. exact H.
Qed.

(* what follows a garbage region, from the next block *)
Lemma junk_after_rest : forall rest, Forall legal_jblock rest -> jsep rest = true ->
  match rest with
  | [] | JB (BComment _) :: _ | JB (BEntity _ _ _ _ _ _ _ _) :: _ => True
  | _ => False
  end -> junk_after (jfile_text rest).
Proof.
  intros [|[[x|cs|cs key b1 sc b2 conts lastl nl]|gl] rest'] Hleg Hsep Hshape; try contradiction.
  - constructor.
  - (* a comment block: what follows it is the end of the file or whitespace *)
    inversion Hleg as [|? ? Hb Hrest]; subst. unfold legal_jblock in Hb. cbn [legal_jblockb legal_blockb] in Hb.
    apply andb_true_iff in Hb. destruct Hb as [Hc1 Hc2].
    rewrite jfile_text_cons. cbn [jtext text]. constructor; auto.
    + destruct cs; [discriminate|discriminate].
    + simpl in Hsep. apply andb_true_iff in Hsep. destruct Hsep as [Hnext _].
      destruct rest' as [|[[x| |]|] rest'']; try discriminate; [reflexivity|].
      rewrite jfile_text_cons. cbn [jtext text].
      inversion Hrest as [|? ? Hx _]; subst. unfold legal_jblock in Hx. cbn [legal_jblockb legal_blockb] in Hx.
      apply andb_true_iff in Hx. destruct Hx as [Hx1 Hx2].
      rewrite head_is_app by (destruct x; [discriminate|discriminate]).
      apply head_ws_not_cm; [destruct x; [discriminate|discriminate]|exact Hx2].
  - (* an entity *)
    inversion Hleg as [|? ? Hb Hrest]; subst. unfold legal_jblock in Hb. cbn [legal_jblockb legal_blockb] in Hb.
    apply andb_true_iff in Hb. destruct Hb as [Hb Hr]. apply andb_true_iff in Hb. destruct Hb as [Hb Hs].
    apply andb_true_iff in Hb. destruct Hb as [Hcs Hk].
    simpl in Hsep. apply andb_true_iff in Hsep. destruct Hsep as [Hnl _].
    destruct key as [|c0 ktl]; [discriminate|].
    rewrite jfile_text_cons. cbn [jtext text].
    destruct cs as [|c1 cs1].
    + replace ((ctext [] ++ (c0 :: ktl) ++ b1 ++ sc :: b2 ++ vraw conts lastl ++ eol nl) ++ jfile_text rest')
        with (c0 :: ktl ++ b1 ++ sc :: b2 ++ (vraw conts lastl ++ eol nl ++ jfile_text rest'))
        by (norm_app; reflexivity).
      constructor; auto.
      unfold legal_value in Hr. apply andb_true_iff in Hr. destruct Hr as [_ Hhead].
      apply negb_true_iff in Hhead.
      destruct (vraw conts lastl) as [|r0 raw']; [|exact Hhead].
      destruct nl; [reflexivity|]. simpl in Hnl. destruct rest'; [reflexivity|discriminate].
    + replace ((ctext (c1 :: cs1) ++ (c0 :: ktl) ++ b1 ++ sc :: b2 ++ vraw conts lastl ++ eol nl) ++ jfile_text rest')
        with (ctext (c1 :: cs1) ++ (c0 :: ktl ++ b1 ++ sc :: b2 ++ vraw conts lastl ++ eol nl ++ jfile_text rest'))
        by (norm_app; reflexivity).
      constructor; [discriminate|exact Hcs|].
      destruct (c0_facts c0 ktl Hk) as [C1 _]. exact C1.
Qed.

Lemma walk_jents : forall bs, Forall legal_jblock bs -> jsep bs = true ->
  forall a w, forallb (fun c => mem c WS) w = true -> jstmt bs a w.
Proof.
  induction bs as [|b rest IH]; intros Hleg Hsep.
  - apply jlift_flush; [exact I|reflexivity|].
    intros a _ fuel Hf. simpl. apply walk_loop_done. rewrite !app_length. simpl. lia.
  - inversion Hleg as [|b' rest' Hb Hrest]; subst b' rest'.
    destruct b as [[x|cs|cs key b1 sc b2 conts lastl nl]|gl].
    + (* whitespace: joins what is pending *)
      intros a w Hw Hlic fuel Hf. simpl in Hsep.
      unfold legal_jblock in Hb. cbn [legal_jblockb legal_blockb] in Hb. apply andb_true_iff in Hb.
      destruct Hb as [Hx1 Hx2].
      assert (Hs : a ++ w ++ jfile_text (JB (BBlank x) :: rest) = a ++ (w ++ x) ++ jfile_text rest).
      { rewrite jfile_text_cons. cbn [jtext text]. rewrite <- app_assoc. reflexivity. }
      simpl jents. rewrite Hs in *. rewrite <- app_length. apply (IH Hrest Hsep); auto.
      * rewrite forallb_app, Hw, Hx2. reflexivity.
      * intros _ E. apply app_eq_nil in E. destruct E as [_ E]. subst x. discriminate.
    + (* a standalone comment *)
      unfold legal_jblock in Hb. cbn [legal_jblockb legal_blockb] in Hb. apply andb_true_iff in Hb.
      destruct Hb as [Hc1 Hc2].
      assert (Hne : cs <> []) by (destruct cs; [discriminate|discriminate]).
      simpl in Hsep. apply andb_true_iff in Hsep. destruct Hsep as [Hnext Hsep].
      apply jlift_flush; [exact I| rewrite jfile_text_cons; apply head_ctext; auto |].
      intros a _ fuel Hf. destruct fuel as [|f]; [lia|].
      rewrite jfile_text_cons in *. cbn [jtext text] in *. simpl app in *.
      assert (Hafter : jfile_text rest = [] \/
                exists x y, jfile_text rest = x ++ y /\ forallb (fun c => mem c WS) x = true /\
                            mem 10%N x = true).
      { destruct rest as [|[[x| |]|] rest']; try discriminate; [left; reflexivity|].
        right. exists x, (jfile_text rest'). split; [reflexivity|]. split; [|exact Hnext].
        inversion Hrest as [|b' r' Hx _]; subst. unfold legal_jblock in Hx. cbn [legal_jblockb legal_blockb] in Hx.
        apply andb_true_iff in Hx. destruct Hx as [_ Hx]. exact Hx. }
      pose proof (gn_comment a cs (jfile_text rest) Hne Hc2 Hafter) as G.
      simpl jents. rewrite !Nat.add_0_r. rewrite <- G. apply walk_step.
      * rewrite !app_length. pose proof (ctext_length_ge cs). destruct cs; [contradiction|].
        simpl in *. lia.
      * rewrite G. cbn [mk_comment e_span snd].
        assert (Hs : a ++ ctext cs ++ jfile_text rest = (a ++ cbody cs) ++ [10%N] ++ jfile_text rest).
        { rewrite (ctext_body cs Hne), <- !app_assoc. reflexivity. }
        rewrite Hs, <- app_length. change 1 with (length [10%N]).
        apply (IH Hrest Hsep); [reflexivity| |].
        -- intros E. apply app_eq_nil in E. destruct E as [_ E]. discriminate.
        -- rewrite <- Hs.
           assert (Elen : length (ctext cs) = length (cbody cs) + 1)
             by (rewrite (ctext_body cs Hne), app_length; reflexivity).
           pose proof (cbody_length_pos cs Hne).
           rewrite !app_length in *. simpl in *. lia.
    + (* an entity line *)
      unfold legal_jblock in Hb. cbn [legal_jblockb legal_blockb] in Hb. apply andb_true_iff in Hb.
      destruct Hb as [Hb Hr].
      apply andb_true_iff in Hb. destruct Hb as [Hb Hs]. apply andb_true_iff in Hb.
      destruct Hb as [Hcs Hk]. simpl in Hsep. apply andb_true_iff in Hsep.
      destruct Hsep as [Hnl Hsep].
      destruct key as [|c0 ktl]; [discriminate|].
      destruct (c0_facts c0 ktl Hk) as [_ C2].
      set (raw := vraw conts lastl).
      assert (Etxt : forall Y, text (BEntity cs (c0 :: ktl) b1 sc b2 conts lastl nl) ++ Y =
                     ctext cs ++ c0 :: ktl ++ b1 ++ sc :: b2 ++ raw ++ eol nl ++ Y).
      { intros Y. cbn [text]. fold raw. norm_app. reflexivity. }
      apply jlift_flush; [exact I| |].
      { rewrite jfile_text_cons. cbn [jtext]. rewrite Etxt. destruct cs as [|c1 cs1]; [exact C2|].
        apply head_ctext; [discriminate|exact Hcs]. }
      intros a Hlic fuel Hf. destruct fuel as [|f]; [lia|].
      rewrite jfile_text_cons in *. cbn [jtext] in *. rewrite Etxt in *. simpl app in *.
      assert (Hl : a = [] -> contains s_License (comment_val (COffset 1) (cbody cs)) = false).
      { intros Ea. specialize (Hlic Ea eq_refl). simpl in Hlic. apply negb_true_iff in Hlic.
        exact Hlic. }
      assert (HT : tail_ok (eol nl ++ jfile_text rest)).
      { destruct nl; [right; eexists; reflexivity|]. simpl in Hnl.
        destruct rest; [left; reflexivity|discriminate]. }
      assert (Hew : forallb (fun c => mem c WS) (eol nl) = true) by (destruct nl; reflexivity).
      pose proof (gn_entity a cs c0 ktl b1 sc b2 conts lastl (eol nl ++ jfile_text rest)
                    Hcs Hk Hs Hr HT Hl) as G.
      cbv zeta in G. fold raw in G. simpl jents. fold raw. rewrite !Nat.add_0_r. simpl length.
      set (k := length a + length (ctext cs)) in *.
      set (v := k + S (length ktl) + length b1 + 1 + length b2) in *.
      rewrite <- G. apply walk_step.
      * rewrite !app_length. simpl. rewrite !app_length. simpl. rewrite !app_length. simpl. lia.
      * rewrite G. cbn [e_span snd].
        set (A0 := a ++ ctext cs ++ c0 :: ktl ++ b1 ++ sc :: b2 ++ raw).
        assert (Hs2 : a ++ ctext cs ++ c0 :: ktl ++ b1 ++ sc :: b2 ++ raw ++ eol nl ++ jfile_text rest
                      = A0 ++ eol nl ++ jfile_text rest).
        { unfold A0. norm_app. reflexivity. }
        assert (El : v + length raw = length A0).
        { unfold A0, v, k. rewrite !app_length. simpl. rewrite !app_length. simpl.
          rewrite !app_length. lia. }
        rewrite Hs2, El.
        apply (IH Hrest Hsep); [exact Hew| |].
        -- intros E. unfold A0 in E. apply app_eq_nil in E. destruct E as [_ E].
           apply app_eq_nil in E. destruct E as [_ E]. discriminate.
        -- assert (Hlt : length a < length A0) by (rewrite <- El; unfold v, k; lia).
           rewrite Hs2 in Hf. clear - Hf Hlt. rewrite !app_length in *. simpl in *. lia.
    + (* a garbage region *)
      unfold legal_jblock in Hb. cbn [legal_jblockb] in Hb.
      simpl in Hsep. apply andb_true_iff in Hsep. destruct Hsep as [Hnext Hsep].
      pose proof (gtext_pos gl Hb) as Hpos.
      apply jlift_flush; [exact I| rewrite jfile_text_cons; apply head_gtext; exact Hb |].
      intros a _ fuel Hf. destruct fuel as [|f]; [lia|].
      rewrite jfile_text_cons in *. cbn [jtext] in *. simpl app in *.
      assert (Hafter : junk_after (jfile_text rest)).
      { apply junk_after_rest; auto. destruct rest as [|[[| |]|] ?]; try discriminate; exact I. }
      pose proof (gn_junk a gl (jfile_text rest) Hb Hafter) as G.
      simpl jents. rewrite !Nat.add_0_r. rewrite <- G. apply walk_step.
      * rewrite !app_length. lia.
      * rewrite G. cbn [mk_junk e_span snd].
        assert (Hs : a ++ gtext gl ++ jfile_text rest = (a ++ gtext gl) ++ [] ++ jfile_text rest)
          by (rewrite <- app_assoc; reflexivity).
        rewrite Hs, <- app_length. apply (IH Hrest Hsep (a ++ gtext gl) []); [reflexivity| |].
        -- intros E. apply app_eq_nil in E. destruct E as [_ E]. rewrite E in Hpos. simpl in Hpos. lia.
        -- rewrite <- Hs. rewrite !app_length in *. lia.
Qed.

Theorem blocks_properties_junk : forall bs : list jblock,
  Forall legal_jblock bs -> jadjacent_ok bs ->
  walk_properties (jfile_text bs) = Ok (jentries_of bs).
Proof.
  intros bs Hleg Hadj. unfold jadjacent_ok, jadjacent_okb in Hadj. apply andb_true_iff in Hadj.
  destruct Hadj as [Hsep Hlic]. unfold walk_properties, walk, jentries_of.
  apply (walk_jents bs Hleg Hsep [] [] eq_refl (fun _ _ => Hlic)). simpl. lia.
Qed.

(* ---- records, comments, junk ------------------------------------------------------------------------ *)
Fixpoint jrecords_of (bs : list jblock) : list record :=
  match bs with
  | [] => []
  | JB (BEntity cs key _ _ _ conts lastl _) :: rest =>
      (key, vraw conts lastl, match cs with [] => None | _ => Some (cbody cs) end) :: jrecords_of rest
  | _ :: rest => jrecords_of rest
  end.

Fixpoint jcomments_of (bs : list jblock) : list str :=
  match bs with
  | [] => []
  | JB (BComment cs) :: rest => cbody cs :: jcomments_of rest
  | _ :: rest => jcomments_of rest
  end.

Fixpoint jgarbage_of (bs : list jblock) : list str :=
  match bs with
  | [] => []
  | JG gl :: rest => gtext gl :: jgarbage_of rest
  | _ :: rest => jgarbage_of rest
  end.

(* the entities are exactly the records, the comment entries the comment blocks, and the Junk
   entries exactly the garbage regions, all in order *)
Definition jviews (s : str) (es : list entry) (bs : list jblock) : Prop :=
  map (entity_record s) (filter (is_kind KEntity) es) = jrecords_of bs /\
  map (fun e => span_text s (e_span e)) (filter (is_kind KComment) es) = jcomments_of bs /\
  map (fun e => span_text s (e_span e)) (filter (is_kind KJunk) es) = jgarbage_of bs.

Lemma jents_views : forall bs, Forall legal_jblock bs -> forall (a w : str),
  jviews (a ++ w ++ jfile_text bs) (jents (length a) (length w) bs) bs.
Proof.
  induction bs as [|b rest IH]; intros Hleg a w; unfold jviews.
  - simpl jents. rewrite !flush_no by discriminate. repeat split.
  - inversion Hleg as [|b' rest' Hb Hrest]; subst b' rest'. specialize (IH Hrest).
    set (s := a ++ w ++ jfile_text (b :: rest)).
    destruct b as [[x|cs|cs key b1 sc b2 conts lastl nl]|gl].
    + assert (Hs : s = a ++ (w ++ x) ++ jfile_text rest).
      { unfold s. rewrite jfile_text_cons. cbn [jtext text]. rewrite <- app_assoc. reflexivity. }
      simpl jents. rewrite <- app_length, Hs. apply IH.
    + unfold legal_jblock in Hb. cbn [legal_jblockb legal_blockb] in Hb. apply andb_true_iff in Hb.
      destruct Hb as [Hc1 _].
      assert (Hne : cs <> []) by (destruct cs; [discriminate|discriminate]).
      set (A0 := a ++ w ++ cbody cs).
      assert (Hs : s = A0 ++ [10%N] ++ jfile_text rest).
      { unfold s, A0. rewrite jfile_text_cons. cbn [jtext text]. rewrite (ctext_body cs Hne).
        norm_app. reflexivity. }
      assert (El : length a + length w + length (cbody cs) = length A0)
        by (unfold A0; rewrite !app_length; lia).
      destruct (IH A0 [10%N]) as [I1 [I2 I3]]. rewrite <- Hs in I1, I2, I3.
      change (length [10%N]) with 1 in I1, I2, I3.
      simpl jents. rewrite !filter_app, !flush_no by discriminate. rewrite El.
      cbn [app filter is_kind mk_comment e_kind map e_span]. rewrite I1, I2, I3.
      split; [reflexivity|split; [|reflexivity]]. cbn [jcomments_of]. f_equal.
      assert (Hs' : s = (a ++ w) ++ cbody cs ++ [10%N] ++ jfile_text rest)
        by (rewrite Hs; unfold A0; norm_app; reflexivity).
      unfold span_text. cbn [fst snd]. rewrite <- El, <- app_length, Hs'. apply slice_mid.
    + set (raw := vraw conts lastl).
      set (K0 := a ++ w ++ ctext cs).
      set (V0 := K0 ++ key ++ b1 ++ sc :: b2).
      set (A0 := V0 ++ raw).
      assert (Hs : s = A0 ++ eol nl ++ jfile_text rest).
      { unfold s, A0, V0, K0. rewrite jfile_text_cons. cbn [jtext text]. fold raw. norm_app. reflexivity. }
      assert (Ek : length a + length w + length (ctext cs) = length K0)
        by (unfold K0; rewrite !app_length; lia).
      assert (Ev : length K0 + length key + length b1 + 1 + length b2 = length V0).
      { unfold V0. rewrite !app_length. simpl. rewrite ?app_length. lia. }
      assert (Ee : length V0 + length raw = length A0) by (unfold A0; rewrite app_length; lia).
      destruct (IH A0 (eol nl)) as [I1 [I2 I3]]. rewrite <- Hs in I1, I2, I3.
      simpl jents. fold raw. rewrite !filter_app, !flush_no by discriminate. rewrite Ek, Ev, Ee.
      cbn [app filter is_kind e_kind map]. rewrite I1, I2, I3.
      split; [|split; reflexivity]. cbn [jrecords_of]. fold raw. f_equal. unfold entity_record.
      cbn [e_key e_val e_pre opt_text]. unfold span_text. cbn [fst snd].
      assert (S1 : slice s (length K0) (length K0 + length key) = key).
      { unfold s. rewrite jfile_text_cons. cbn [jtext text]. fold raw.
        replace (a ++ w ++ (ctext cs ++ key ++ b1 ++ sc :: b2 ++ raw ++ eol nl) ++ jfile_text rest)
          with (K0 ++ key ++ (b1 ++ sc :: b2 ++ raw ++ eol nl) ++ jfile_text rest)
          by (unfold K0; norm_app; reflexivity).
        apply slice_mid. }
      assert (S2 : slice s (length V0) (length A0) = raw).
      { rewrite <- Ee, Hs. unfold A0. rewrite <- app_assoc. apply slice_mid. }
      rewrite S1, S2. f_equal.
      assert (Hcase : cs = [] \/ cs <> []) by (destruct cs; [left; reflexivity|right; discriminate]).
      destruct Hcase as [Ecs|Hne]; [rewrite Ecs; reflexivity|].
      rewrite !(match_ne cs) by exact Hne.
      cbn [option_map]. f_equal. cbn [fst snd].
      assert (Ec : length K0 - 1 = length (a ++ w) + length (cbody cs)).
      { rewrite <- Ek, (ctext_body cs Hne), !app_length. simpl. lia. }
      rewrite <- app_length, Ec. unfold s. rewrite jfile_text_cons. cbn [jtext text]. fold raw.
      replace (a ++ w ++ (ctext cs ++ key ++ b1 ++ sc :: b2 ++ raw ++ eol nl) ++ jfile_text rest)
        with ((a ++ w) ++ cbody cs ++ [10%N] ++ (key ++ b1 ++ sc :: b2 ++ raw ++ eol nl) ++ jfile_text rest)
        by (rewrite (ctext_body cs Hne); norm_app; reflexivity).
      apply slice_mid.
    + set (A0 := a ++ w ++ gtext gl).
      assert (Hs : s = A0 ++ [] ++ jfile_text rest).
      { unfold s, A0. rewrite jfile_text_cons. cbn [jtext]. norm_app. reflexivity. }
      assert (El : length a + length w + length (gtext gl) = length A0)
        by (unfold A0; rewrite !app_length; lia).
      destruct (IH A0 []) as [I1 [I2 I3]]. rewrite <- Hs in I1, I2, I3.
      change (length (@nil N)) with 0 in I1, I2, I3.
      simpl jents. rewrite !filter_app, !flush_no by discriminate. rewrite El.
      cbn [app filter is_kind mk_junk e_kind map e_span]. rewrite I1, I2, I3.
      split; [reflexivity|split; [reflexivity|]]. cbn [jgarbage_of]. f_equal.
      assert (Hs' : s = (a ++ w) ++ gtext gl ++ jfile_text rest)
        by (rewrite Hs; unfold A0; norm_app; reflexivity).
      unfold span_text. cbn [fst snd]. rewrite <- El, <- app_length, Hs'. apply slice_mid.
Qed.

Theorem roundtrip_properties_junk : forall bs : list jblock,
  Forall legal_jblock bs -> jadjacent_ok bs ->
  exists es, walk_properties (jfile_text bs) = Ok es /\ jviews (jfile_text bs) es bs.
Proof.
  intros bs Hleg Hadj. exists (jentries_of bs). split; [apply blocks_properties_junk; auto|].
  exact (jents_views bs Hleg [] []).
Qed.

(* ---- ONE garbage region between two block lists ------------------------------------------------------ *)
Definition with_garbage (bs1 : list block) (gl : list str) (bs2 : list block) : list jblock :=
  map JB bs1 ++ JG gl :: map JB bs2.

Lemma jfile_text_app : forall x y, jfile_text (x ++ y) = jfile_text x ++ jfile_text y.
Proof. intros. unfold jfile_text. rewrite map_app, concat_app. reflexivity. Qed.

Lemma jfile_text_JB : forall bs, jfile_text (map JB bs) = file_text bs.
Proof. induction bs as [|b bs IH]; [reflexivity|]. rewrite map_cons, jfile_text_cons, IH. reflexivity. Qed.

Lemma j_of_JB : forall bs, jrecords_of (map JB bs) = records_of bs /\
  jcomments_of (map JB bs) = comments_of bs /\ jgarbage_of (map JB bs) = [].
Proof.
  induction bs as [|[x|cs|cs key b1 sc b2 conts lastl nl] bs [I1 [I2 I3]]]; [repeat split| | |];
    cbn [map jrecords_of jcomments_of jgarbage_of records_of comments_of]; rewrite ?I1, ?I2, ?I3;
    repeat split.
Qed.

Lemma jrecords_app : forall x y, jrecords_of (x ++ y) = jrecords_of x ++ jrecords_of y.
Proof.
  induction x as [|[[x0|cs|cs key b1 sc b2 conts lastl nl]|gl] x IH]; intros y; simpl; rewrite ?IH; reflexivity.
Qed.
Lemma jcomments_app : forall x y, jcomments_of (x ++ y) = jcomments_of x ++ jcomments_of y.
Proof.
  induction x as [|[[x0|cs|cs key b1 sc b2 conts lastl nl]|gl] x IH]; intros y; simpl; rewrite ?IH; reflexivity.
Qed.
Lemma jgarbage_app : forall x y, jgarbage_of (x ++ y) = jgarbage_of x ++ jgarbage_of y.
Proof.
  induction x as [|[[x0|cs|cs key b1 sc b2 conts lastl nl]|gl] x IH]; intros y; simpl; rewrite ?IH; reflexivity.
Qed.

(* the spans of the Junk entries *)
Fixpoint jspans (off w : nat) (bs : list jblock) : list span :=
  match bs with
  | [] => []
  | JB (BBlank x) :: rest => jspans off (w + length x) rest
  | JB (BComment cs) :: rest => jspans (off + w + length (cbody cs)) 1 rest
  | JB (BEntity cs key b1 sc b2 conts lastl nl) :: rest =>
      jspans (off + w + length (ctext cs) + length key + length b1 + 1 + length b2 +
              length (vraw conts lastl)) (length (eol nl)) rest
  | JG gl :: rest =>
      (off + w, off + w + length (gtext gl)) :: jspans (off + w + length (gtext gl)) 0 rest
  end.

Lemma jents_junk : forall bs off w,
  filter (is_kind KJunk) (jents off w bs) = map mk_junk (jspans off w bs).
Proof.
  induction bs as [|[[x|cs|cs key b1 sc b2 conts lastl nl]|gl] rest IH]; intros off w;
    cbn [jents jspans]; rewrite ?filter_app, ?flush_no by discriminate;
    cbn [app filter is_kind mk_comment mk_junk e_kind map]; rewrite ?IH; reflexivity.
Qed.

Lemma jspans_JB : forall bs off w, jspans off w (map JB bs) = [].
Proof.
  induction bs as [|[x|cs|cs key b1 sc b2 conts lastl nl] bs IH]; intros off w; cbn [map jspans];
    auto.
Qed.

Lemma jspans_prefix : forall bs, Forall legal_block bs -> forall off w R,
  exists off' w', off' + w' = off + w + length (file_text bs) /\
                  jspans off w (map JB bs ++ R) = jspans off' w' R.
Proof.
  induction bs as [|b bs IH]; intros Hleg off w R.
  - exists off, w. split; [simpl; lia|reflexivity].
  - inversion Hleg as [|? ? Hb Hrest]; subst. specialize (IH Hrest).
    rewrite file_text_cons, app_length.
    destruct b as [x|cs|cs key b1 sc b2 conts lastl nl]; cbn [map app jspans text].
    + destruct (IH off (w + length x) R) as [o [w' [E1 E2]]]. exists o, w'. split; [lia|exact E2].
    + unfold legal_block in Hb. cbn [legal_blockb] in Hb. apply andb_true_iff in Hb. destruct Hb as [Hc _].
      assert (Hne : cs <> []) by (destruct cs; [discriminate|discriminate]).
      destruct (IH (off + w + length (cbody cs)) 1 R) as [o [w' [E1 E2]]]. exists o, w'.
      split; [|exact E2]. rewrite (ctext_body cs Hne), app_length. simpl. lia.
    + destruct (IH (off + w + length (ctext cs) + length key + length b1 + 1 + length b2 +
                    length (vraw conts lastl)) (length (eol nl)) R) as [o [w' [E1 E2]]].
      exists o, w'. split; [|exact E2]. rewrite !app_length. simpl. rewrite !app_length. lia.
Qed.

(* a file printed from two block lists with ONE garbage region between them: every record and
   every comment is recovered unchanged, and there is exactly one Junk entry, whose span is
   exactly the region (it starts where the text of the first list ends, its text is the
   garbage) *)
Theorem junk_one_region : forall (bs1 : list block) (gl : list str) (bs2 : list block),
  Forall legal_block bs1 -> legal_garbage gl = true -> Forall legal_block bs2 ->
  jadjacent_ok (with_garbage bs1 gl bs2) ->
  let s := file_text bs1 ++ gtext gl ++ file_text bs2 in
  let p := length (file_text bs1) in
  exists es, walk_properties s = Ok es /\
    map (entity_record s) (filter (is_kind KEntity) es) = records_of bs1 ++ records_of bs2 /\
    map (fun e => span_text s (e_span e)) (filter (is_kind KComment) es) =
      comments_of bs1 ++ comments_of bs2 /\
    filter (is_kind KJunk) es = [mk_junk (p, p + length (gtext gl))] /\
    slice s p (p + length (gtext gl)) = gtext gl.
Proof.
  intros bs1 gl bs2 H1 Hg H2 Hadj s p.
  assert (Hleg : Forall legal_jblock (with_garbage bs1 gl bs2)).
  { unfold with_garbage. apply Forall_app. split; [|constructor; [exact Hg|]];
      rewrite Forall_map; assumption. }
  assert (Es : jfile_text (with_garbage bs1 gl bs2) = s).
  { unfold with_garbage, s. rewrite jfile_text_app, jfile_text_cons, !jfile_text_JB. reflexivity. }
  exists (jentries_of (with_garbage bs1 gl bs2)).
  pose proof (blocks_properties_junk _ Hleg Hadj) as Hw. rewrite Es in Hw.
  destruct (jents_views _ Hleg [] []) as [V1 [V2 _]]. cbn [app length] in V1, V2.
  rewrite Es in V1, V2. fold (jentries_of (with_garbage bs1 gl bs2)) in V1, V2.
  destruct (j_of_JB bs1) as [A1 [A2 _]]. destruct (j_of_JB bs2) as [B1 [B2 _]].
  split; [exact Hw|]. split; [|split; [|split]].
  - rewrite V1. unfold with_garbage. rewrite jrecords_app. cbn [jrecords_of]. rewrite A1, B1. reflexivity.
  - rewrite V2. unfold with_garbage. rewrite jcomments_app. cbn [jcomments_of]. rewrite A2, B2. reflexivity.
  - unfold jentries_of. rewrite jents_junk. unfold with_garbage.
    destruct (jspans_prefix bs1 H1 0 0 (JG gl :: map JB bs2)) as [o [w' [E1 E2]]].
    rewrite E2. cbn [jspans]. rewrite jspans_JB. cbn [map]. simpl in E1. rewrite E1. reflexivity.
  - unfold s, p. apply slice_mid.
Qed.

(*  k=v / "garb" "" " x y" / #c1 !c2 a b = x y   *)
Example jx_one_region :
  let bs1 := [ex_e1] in let gl := [A [103; 97; 114; 98]; []; A [32; 120; 32; 121]] in let bs2 := [ex_e2; ex_e1] in
  Forall legal_block bs1 /\ legal_garbage gl = true /\ Forall legal_block bs2 /\
  jadjacent_ok (with_garbage bs1 gl bs2) /\
  length (file_text bs1) = 4 /\ length (gtext gl) = 11.
Proof. split; [repeat constructor|]. split; [reflexivity|]. split; [repeat constructor|]. split; [vm_compute; reflexivity|]. split; reflexivity. Qed.
