(* Junk in .properties: inside a region of garbage lines (no "=", ":", "#", "!" in them)
   neither the key nor the comment expression matches at any position, so Parser.getJunk
   (search for the next key / comment from offset + 1) ends the junk exactly where the next
   comment or key starts, or at the end of the text.  Used by Proofs/C02BlocksJunk.v. *)
From Coq Require Import NArith List Bool Arith Lia.
From CL Require Import Base.Sx Base.Res Base.Str Regex.Rx Regex.RxLemmas Model.Entry Model.Parse
  Model.ParseFormats Generated.RxParser Proofs.UnescapeProofs
  Proofs.ClassLoop Proofs.ClassLoop2 Proofs.C02Props Proofs.WalkProofs Proofs.C02Roundtrip
  Proofs.C02BlocksRx Proofs.C02BlocksIniRx.
Import ListNotations.

Local Arguments Nat.ltb : simpl never.
Local Arguments Nat.leb : simpl never.
Local Arguments Nat.eqb : simpl never.
Local Arguments N.eqb : simpl never.
Local Arguments N.leb : simpl never.
Local Arguments chr_ok : simpl never.
Local Arguments run : simpl never.
Local Arguments fwd : simpl never.

(* ---- the key expression fails on a line without ":" and "=" ------------------------------------ *)
Lemma run_le_prefix : forall neg cls (l T : str), head_is (chr_ok neg cls) T = false ->
  run neg cls None (l ++ T) <= length l.
Proof.
  induction l as [|c l IH]; intros T H.
  - simpl app. destruct T as [|d T]; [rewrite run_nil; simpl; lia|].
    cbn [head_is] in H. rewrite run_none_cons, H. simpl. lia.
  - simpl app. rewrite run_none_cons. destruct (chr_ok neg cls c); [|simpl; lia].
    specialize (IH T H). simpl. lia.
Qed.

Lemma tail_nl_not_bl : forall T, tail_nl T -> head_is (chr_ok false (points BL)) T = false.
Proof. intros T [->|[X ->]]; [reflexivity|]. cbn [head_is]. rewrite chr_ok_points. reflexivity. Qed.

Lemma K2_nil : forall pr p cs k, K2 k (mkst pr [] p cs) = Fail.
Proof. intros. unfold K2. rewrite m_Cat, m_Chr. reflexivity. Qed.

(* l: the rest of a line without ":" "=" newline, T: what follows (nothing, or a newline and more) *)
Lemma line_rest_fails : forall l T pr p cs k,
  no_chars KC l = true -> tail_nl T ->
  m REST (mkst pr (l ++ T) p cs) k = Fail.
Proof.
  intros l T pr p cs k Hl HT. unfold REST. rewrite m_Cat. fold (K2 k). rewrite m_Rep.
  destruct (rep_class_greedy false (points BL)
              (0 + S (length (suf (mkst pr (l ++ T) p cs)))) 0 (mkst pr (l ++ T) p cs) (K2 k))
    as [j [J1 [J2 _]]]; [lia|].
  rewrite J2. cbn [suf] in J1.
  pose proof (run_le_prefix false (points BL) l T (tail_nl_not_bl T HT)) as Hr.
  assert (Hj : j <= length l) by lia.
  rewrite fwd_mkst_caps by (rewrite app_length; lia).
  destruct (skipn j (l ++ T)) as [|c t] eqn:Es; [apply K2_nil|].
  apply K2_blank.
  destruct (Nat.eq_dec j (length l)) as [->|Hne].
  - rewrite skipn_app_length in Es. destruct HT as [->|[X ->]]; [discriminate|].
    inversion Es; subst. reflexivity.
  - apply kc_sc. eapply no_chars_in; [exact Hl|]. eapply skipn_head_in; [|exact Es]. lia.
Qed.

Lemma key_fails_line : forall l T pr p k,
  no_chars KC l = true -> tail_nl T ->
  m rx_props_key (mkst pr (l ++ T) p []) k = Fail.
Proof.
  intros l T pr p k Hl HT. rewrite key_shape, m_Cat, m_Grp, m_Cat, m_Chr. cbn [suf pos].
  destruct l as [|c0 l'].
  - cbn [app]. destruct HT as [->|[X ->]]; [reflexivity|]. rewrite chr_ok_points. reflexivity.
  - cbn [app]. destruct (chr_ok true (points KF) c0) eqn:E0; [|reflexivity].
    unfold advance. cbn [pre suf pos caps]. rewrite m_Rep.
    assert (Hl' : no_chars KC l' = true).
    { unfold no_chars in *. cbn [forallb] in Hl. apply andb_true_iff in Hl. apply Hl. }
    assert (Hr : run true (points KC) None (l' ++ T) = length l').
    { apply run_exact_gen; [apply no_chars_class; exact Hl'|].
      destruct HT as [->|[X ->]]; [reflexivity|]. cbn [head_is]. rewrite chr_ok_points. reflexivity. }
    apply rep_class_lazy_fail; [lia|cbn [suf]; lia|].
    cbn [suf]. rewrite Hr. intros i Hi.
    rewrite fwd_mkst_caps by (rewrite app_length; lia). unfold set_cap. cbn [pre suf pos caps].
    rewrite skipn_app_le by lia. apply line_rest_fails; [|exact HT].
    unfold no_chars in *. rewrite forallb_forall in *. intros x Hx. apply Hl'. eapply In_skipn. exact Hx.
Qed.

(* ---- garbage: lines without = : # ! ------------------------------------------------------------- *)
Definition GC : list N := [61; 58; 10; 35; 33]%N.
Definition gline_text (l : str) : str := l ++ [10%N].
Definition gtext (gl : list str) : str := concat (map gline_text gl).
Definition legal_gline (l : str) : bool := no_chars GC l.

Lemma gtext_cons : forall l gl, gtext (l :: gl) = l ++ 10%N :: gtext gl.
Proof. intros. unfold gtext. simpl. unfold gline_text. rewrite <- app_assoc. reflexivity. Qed.

Lemma gc_kc : forall l, no_chars GC l = true -> no_chars KC l = true.
Proof.
  intros l H. eapply no_chars_weaken; [|exact H]. intros c Hc. unfold mem, KC, GC in *.
  cbn [existsb] in *. destruct (N.eqb c 61); [reflexivity|]. destruct (N.eqb c 58); [reflexivity|].
  destruct (N.eqb c 10); [reflexivity|]. discriminate.
Qed.

Lemma gc_cm : forall l c, no_chars GC l = true -> In c l -> mem c CM = false.
Proof.
  intros l c H Hin. pose proof (no_chars_in _ _ _ H Hin) as Hm. unfold mem, CM, GC in *.
  cbn [existsb] in *. destruct (N.eqb c 61); [discriminate|]. destruct (N.eqb c 58); [discriminate|].
  destruct (N.eqb c 10); [discriminate|]. destruct (N.eqb c 35); [discriminate|].
  destruct (N.eqb c 33); [discriminate|]. reflexivity.
Qed.

(* every position inside the garbage is on a line: the rest of that line, its newline, more *)
Lemma gtext_suffix : forall gl i, forallb legal_gline gl = true -> i < length (gtext gl) ->
  exists l T', skipn i (gtext gl) = l ++ 10%N :: T' /\ no_chars GC l = true.
Proof.
  induction gl as [|l0 gl IH]; intros i Hleg Hi; [simpl in Hi; lia|].
  cbn [forallb] in Hleg. apply andb_true_iff in Hleg. destruct Hleg as [Hl0 Hleg].
  rewrite gtext_cons in *.
  destruct (Nat.le_gt_cases i (length l0)) as [Hle|Hgt].
  - exists (skipn i l0), (gtext gl). split; [apply skipn_app_le; exact Hle|].
    unfold legal_gline, no_chars in *. rewrite forallb_forall in *. intros x Hx. apply Hl0.
    eapply In_skipn. exact Hx.
  - rewrite app_length in Hi. simpl in Hi.
    destruct (IH (i - S (length l0)) Hleg) as [l [T' [E Hl]]]; [lia|].
    exists l, T'. split; [|exact Hl].
    replace i with (length l0 + S (i - S (length l0))) by lia.
    rewrite skipn_app_plus. simpl. exact E.
Qed.

Lemma key_attempt_fails_g : forall gl after i pr p,
  forallb legal_gline gl = true -> i < length (gtext gl) ->
  run_at rx_props_key (mkst pr (skipn i (gtext gl) ++ after) p []) (fun _ => true) = MNone.
Proof.
  intros gl after i pr p Hleg Hi. destruct (gtext_suffix gl i Hleg Hi) as [l [T' [E Hl]]].
  rewrite E, run_at_k0.
  replace ((l ++ 10%N :: T') ++ after) with (l ++ 10%N :: (T' ++ after))
    by (rewrite <- app_assoc; reflexivity).
  rewrite key_fails_line; [reflexivity|apply gc_kc; exact Hl|right; eexists; reflexivity].
Qed.

Lemma comment_attempt_fails_g : forall gl after i pr p,
  forallb legal_gline gl = true -> i < length (gtext gl) ->
  run_at rx_props_comment (mkst pr (skipn i (gtext gl) ++ after) p []) (fun _ => true) = MNone.
Proof.
  intros gl after i pr p Hleg Hi. destruct (gtext_suffix gl i Hleg Hi) as [l [T' [E Hl]]].
  rewrite E, run_at_k0. destruct l as [|c l'].
  - simpl app. rewrite comment_fails by reflexivity. reflexivity.
  - simpl app. rewrite comment_fails; [reflexivity|]. eapply gc_cm; [exact Hl|left; reflexivity].
Qed.

(* searching from inside the garbage: the first candidate position is the end of the garbage *)
Lemma search_from_garbage : forall R gl after (a : str) i,
  (forall i pr p, i < length (gtext gl) ->
     run_at R (mkst pr (skipn i (gtext gl) ++ after) p []) (fun _ => true) = MNone) ->
  i <= length (gtext gl) ->
  exists pr fuel, length after < fuel /\
  rsearch R (a ++ gtext gl ++ after) (length a + i) =
  search_from R fuel (mkst pr after (length a + length (gtext gl)) []) None.
Proof.
  intros R gl after a i Hfail Hi. set (G := gtext gl) in *.
  assert (Es : a ++ G ++ after = (a ++ firstn i G) ++ skipn i G ++ after).
  { rewrite <- app_assoc, (app_assoc (firstn i G)), firstn_skipn. reflexivity. }
  assert (El : length a + i = length (a ++ firstn i G)) by (rewrite app_length, firstn_length; lia).
  exists (rev (skipn i G) ++ rev (a ++ firstn i G)), (S (length after)). split; [lia|].
  rewrite Es, El, rsearch_split. rewrite search_skip_fails.
  - replace (S (length (skipn i G ++ after)) - length (skipn i G)) with (S (length after))
      by (rewrite app_length; lia).
    replace (length (a ++ firstn i G) + length (skipn i G)) with (length a + length G)
      by (rewrite <- El, skipn_length; lia).
    reflexivity.
  - rewrite app_length. lia.
  - intros j pr' p' Hj. rewrite skipn_length in Hj.
    replace (skipn j (skipn i G)) with (skipn (i + j) G) by (symmetry; apply skipn_add).
    apply Hfail. lia.
Qed.

Lemma rsearch_none_at_end : forall R gl (a : str) i,
  (forall i pr p, i < length (gtext gl) ->
     run_at R (mkst pr (skipn i (gtext gl) ++ []) p []) (fun _ => true) = MNone) ->
  (forall pr p, run_at R (mkst pr [] p []) (fun _ => true) = MNone) ->
  i <= length (gtext gl) ->
  rsearch R (a ++ gtext gl ++ []) (length a + i) = MNone.
Proof.
  intros R gl a i Hfail Hnil Hi.
  destruct (search_from_garbage R gl [] a i Hfail Hi) as [pr [fuel [Hf E]]]. rewrite E.
  destruct fuel; [simpl in Hf; lia|]. rewrite search_from_S. cbv beta iota. cbn [suf].
  change (fun s' : st => true) with (fun _ : st => true). rewrite Hnil. reflexivity.
Qed.

(* the generic conclusion about getJunk *)
Lemma get_junk_at : forall (s : str) off p,
  off < p ->
  (osearch rx_props_key s (S off) = None \/
   exists x, osearch rx_props_key s (S off) = Some x /\ p <= m_start x) ->
  (osearch rx_props_comment s (S off) = None \/
   exists y, osearch rx_props_comment s (S off) = Some y /\ p <= m_start y) ->
  ((exists x, osearch rx_props_key s (S off) = Some x /\ m_start x = p) \/
   (exists y, osearch rx_props_comment s (S off) = Some y /\ m_start y = p)) ->
  get_junk [rx_props_key; rx_props_comment] s off = mk_junk (off, p).
Proof.
  intros s off p Hp Hk Hc Hone. unfold get_junk. cbn [junk_end].
  destruct (osearch rx_props_key s (S off)) as [x|] eqn:Ek;
    destruct (osearch rx_props_comment s (S off)) as [y|] eqn:Ec; cbn [truthy].
  - destruct Hk as [Hk|[x' [Ex Hx]]]; [discriminate|]. inversion Ex; subst x'.
    destruct Hc as [Hc|[y' [Ey Hy]]]; [discriminate|]. inversion Ey; subst y'.
    destruct (m_start x) as [|kx] eqn:Ekx; [lia|]. cbn [truthy].
    assert (Hmin : Nat.min (S kx) (m_start y) = p).
    { destruct Hone as [[x' [Ex' Hx']]|[y' [Ey' Hy']]].
      - inversion Ex'; subst x'. lia.
      - inversion Ey'; subst y'. lia. }
    rewrite Hmin. destruct p; [lia|]. reflexivity.
  - destruct Hk as [Hk|[x' [Ex Hx]]]; [discriminate|]. inversion Ex; subst x'.
    destruct Hone as [[x' [Ex' Hx']]|[y' [Ey' _]]]; [|discriminate]. inversion Ex'; subst x'.
    rewrite Hx'. destruct p; [lia|]. reflexivity.
  - destruct Hc as [Hc|[y' [Ey Hy]]]; [discriminate|]. inversion Ey; subst y'.
    destruct Hone as [[x' [Ex' _]]|[y' [Ey' Hy']]]; [discriminate|]. inversion Ey'; subst y'.
    rewrite Hy'. destruct p; [lia|]. reflexivity.
  - destruct Hone as [[x' [Ex' _]]|[y' [Ey' _]]]; discriminate.
Qed.

Lemma get_junk_eof : forall (s : str) off,
  osearch rx_props_key s (S off) = None -> osearch rx_props_comment s (S off) = None ->
  get_junk [rx_props_key; rx_props_comment] s off = mk_junk (off, length s).
Proof. intros s off Hk Hc. unfold get_junk. cbn [junk_end]. rewrite Hk, Hc. reflexivity. Qed.
