(* C16, .properties: idempotence at TEXT level for the case "no old localization, every
   reference entity gets a value": the bytes serialize writes are the text of a legal block
   list, and serializing that file again (its parse, fresh objects) with no new data returns
   the same bytes. *)
From Coq Require Import ZArith NArith List Bool Arith Lia.
From CL Require Import Base.Sx Base.Res Base.Str Model.Entry Model.Parse Model.ParseFormats
                       Proofs.C02Roundtrip Proofs.C02BlocksRx Proofs.C02BlocksVal Proofs.C02Blocks
                       Model.AddRemove Proofs.AddRemoveProofs Proofs.AddRemoveSpec
                       Model.Channels Proofs.ChannelsProofs Proofs.ChannelsSpec Proofs.ChannelsIdentical
                       Model.Serializer Proofs.SerializerProofs Proofs.SerializerSpec
                       Proofs.SerializerFinal Proofs.MergeShapeKeys Proofs.MergeShape
                       Proofs.PropsShape Proofs.MergeReparse15 Proofs.ReparsePartial Proofs.PropsView
                       Proofs.PropsWrap Proofs.SerializeReparse16 Proofs.MergeOlderCopy.
Import ListNotations.
Local Open Scope nat_scope.
Local Notation mem := C02Roundtrip.mem.

(* ---- entries that take the same slot ------------------------------------------------------------- *)
Definition cls (e : centry) : nat :=
  match c_kind e with CComment => 1 | CWhite => 2 | CSection => 3 | _ => 0 end.
Definition Rel (p x : centry) : Prop :=
  cls p = cls x /\ (cls p <> 2 -> c_key p = c_key x) /\
  (cls p = 2 -> length (c_text p) = length (c_text x)).

Lemma gkv_cls e c : get_key_value e c =
  match cls e with
  | 1 => ((DC (c_key e) (S (cget (c_key e) c)), e), od_set str_eqb (c_key e) (S (cget (c_key e) c)) c)
  | 2 => ((DW (c_id e), e), c)
  | 3 => ((DS (c_key e), e), c)
  | _ => ((DK (c_key e), e), c)
  end.
Proof. unfold get_key_value, cls. destruct (c_kind e); reflexivity. Qed.

Lemma cls_le3 e : cls e = 0 \/ cls e = 1 \/ cls e = 2 \/ cls e = 3.
Proof. unfold cls. destruct (c_kind e); auto. Qed.

Lemma kv_Rw l : forall l' cnt, Forall2 Rel l l' -> Forall2 Rw (key_values l cnt) (key_values l' cnt).
Proof.
  induction l as [|p l IH]; intros l' cnt HF; inversion HF as [|? x ? l0 Hpx Hl]; subst; [constructor|].
  cbn [key_values]. rewrite (gkv_cls p cnt), (gkv_cls x cnt).
  destruct Hpx as (C1 & C2 & C3). rewrite <- C1.
  destruct (cls_le3 p) as [E|[E|[E|E]]]; rewrite E in *; cbn [fst snd].
  - rewrite <- (C2 ltac:(discriminate)). constructor; [|apply IH; exact Hl].
    split; [left; split; reflexivity|]. cbn. discriminate.
  - rewrite <- (C2 ltac:(discriminate)). constructor; [|apply IH; exact Hl].
    split; [left; split; reflexivity|]. cbn. discriminate.
  - constructor; [|apply IH; exact Hl]. split; [right; split; reflexivity|]. intros _. cbn. apply C3. reflexivity.
  - rewrite <- (C2 ltac:(discriminate)). constructor; [|apply IH; exact Hl].
    split; [left; split; reflexivity|]. cbn. discriminate.
Qed.

Lemma Rel_strip p x x' : strip x = strip x' -> Rel p x -> Rel p x'.
Proof.
  intros Hs (C1 & C2 & C3). destruct (strip_fields _ _ Hs) as (K1 & K2 & K3 & _).
  unfold Rel, cls in *. rewrite <- K1, <- K2, <- K3. auto.
Qed.

Lemma Forall2_Rel_strip l : forall xs xs', map strip xs = map strip xs' ->
  Forall2 Rel l xs -> Forall2 Rel l xs'.
Proof.
  induction l as [|p l IH]; intros xs xs' Hs HF; inversion HF as [|? x ? xs0 Hpx Hl]; subst.
  - destruct xs'; [constructor|discriminate].
  - destruct xs' as [|x' xs0']; [discriminate|]. cbn in Hs. apply cons_inv in Hs. destruct Hs as [H1 H2].
    constructor; [eapply Rel_strip; eassumption|eapply IH; eassumption].
Qed.

(* kinds and keys are decided by the dict key *)
Definition kcls (k : dkey) : nat := match k with DK _ => 0 | DC _ _ => 1 | DW _ => 2 | DS _ => 3 end.
Definition kkey (k : dkey) : str := match k with DK s => s | DC v _ => v | DW _ => [] | DS s => s end.

Lemma key_ok_cls k e : key_ok (k, e) -> cls e = kcls k /\ (kcls k <> 2 -> c_key e = kkey k).
Proof.
  unfold key_ok, cls. cbn. destruct k; cbn; intros [H1 H2].
  - unfold keyed, is_comment, is_white, is_section in H1. destruct (c_kind e); try discriminate; auto.
  - unfold is_comment in H1. destruct (c_kind e); try discriminate; auto.
  - unfold is_white in H1. destruct (c_kind e); try discriminate. split; [reflexivity|]. intros H; contradiction.
  - unfold is_section in H1. destruct (c_kind e); try discriminate; auto.
Qed.

Lemma noadj_white_eq l l' : Forall2 (fun a b => is_white a = is_white b) l l' -> noadj l -> noadj l'.
Proof.
  revert l'. induction l as [|x l IH]; intros l' HF; inversion HF as [|? x' ? l0 Hx Hl]; subst; [auto|].
  destruct l as [|y l1]; inversion Hl as [|? y' ? l2 Hy Hl']; subst; [cbn; auto|].
  cbn. intros [H1 H2]. split; [rewrite <- Hx, <- Hy; exact H1|]. apply (IH (y' :: l2)); [exact Hl|exact H2].
Qed.

Lemma noadj_eq_white v : noadj v <-> no_adj_white v.
Proof. induction v as [|a [|b v'] IH]; cbn in *; tauto. Qed.

Lemma Forall2_map_same {A B} (f g : A -> B) (Rr : B -> B -> Prop) l :
  (forall k, In k l -> Rr (f k) (g k)) -> Forall2 Rr (map f l) (map g l).
Proof. induction l; cbn; intros H; constructor; auto. Qed.

Lemma strip_In xs xs' x' : map strip xs = map strip xs' -> In x' xs' -> exists x, In x xs /\ strip x = strip x'.
Proof.
  revert xs'. induction xs as [|a xs IH]; intros [|b xs'] H; cbn in H; try discriminate; [contradiction|].
  apply cons_inv in H. destruct H as [H1 H2]. intros [->|Hin]; [exists a; split; [left; reflexivity|exact H1]|].
  destruct (IH _ H2 Hin) as (x & X1 & X2). exists x. split; [right; exact X1|exact X2].
Qed.

Section I.
Variable m : nat.
Variable rbs : list block.
Hypothesis Hr : version_ok m rbs.
Let R : list centry := number 0 (centries_of rbs).
Variable wrap : centry -> str -> result centry.
Variable nd : new_data_t.
Hypothesis Hnd : NoDup (map fst nd).
Hypothesis Hwrap : props_wrap wrap.
Hypothesis Hraw : forall k raw, In (k, Some raw) nd -> legal_rawb raw = true.
(* every reference entity gets a value *)
Hypothesis Htotal : forall s, In s (refkeys R) -> exists raw, od_get str_eqb s nd = Some (Some raw).

Lemma vok_nil : version_ok m [].
Proof. repeat split; constructor. Qed.

Let uR := uniqR m rbs Hr.
Let wo := props_wrap_ok wrap Hwrap.

Lemma uL0 : uniq (nj ([] : list centry)).
Proof. repeat split; constructor. Qed.

(* run 1: the output takes the template slot by slot *)
Lemma run1 out : serialize_entries wrap R [] nd = Ok out ->
  Forall2 Rel (PL R) out /\ noadj out /\ (forall e, In e out -> is_placeholder e = false).
Proof.
  intros H. destruct (serialize_entries_inv wrap R [] nd uR out H) as (NL & HNL & ->).
  pose proof (P_wf R uR) as WP. pose proof (N_wf wrap R nd Hnd wo NL HNL) as WN.
  assert (HPna : noadj (dvalues (P R))).
  { unfold P. rewrite parse_resource_values by (apply PL_uniq; exact uR).
    unfold PL, placeholders.
    assert (Hnj : filter (fun e => negb (is_junk e)) R = R) by (apply (njR m rbs Hr)).
    rewrite Hnj.
    eapply (noadj_white_eq R); [|eapply noadj_strip; [symmetry; apply number_strip|apply cents_noadj]].
    clear. induction R as [|e l IH]; constructor; [|exact IH].
    destruct (placeholder_facts e) as (_ & _ & F & _). symmetry. exact F. }
  assert (HM1 : M1 R [] nd = P R).
  { unfold M1. change (O' R [] nd) with ([] : dict). apply merge_two_empty; assumption. }
  unfold M. rewrite HM1.
  assert (StN : Forall (fun p => is_sticky (snd p) = false) (Nw NL)).
  { apply Forall_forall. intros [k e] Hin. cbn.
    destruct (N_pairs wrap R nd uR Hnd wo NL HNL k e Hin) as (Hc & _).
    unfold is_cent in Hc. unfold is_sticky. destruct (c_kind e); try discriminate; reflexivity. }
  assert (DisN : ws_disjoint (dkeys (P R)) (dkeys (Nw NL))).
  { intros k Hk _ H2. unfold dkeys in H2. apply in_map_iff in H2. destruct H2 as ([k' e] & Hk' & Hin).
    cbn in Hk'. subst k'. destruct (N_pairs wrap R nd uR Hnd wo NL HNL k e Hin) as (_ & -> & _). discriminate. }
  assert (Hincl : incl (dkeys (Nw NL)) (dkeys (P R))).
  { rewrite <- HM1. apply (N_keys_in_M1 wrap R [] nd uR uL0 Hnd wo NL HNL). }
  rewrite (merge_two_sub_dvalues (P R) (Nw NL) false WP WN (fun _ => StN) Hincl).
  set (vm := valm (P R) (Nw NL) false).
  (* slot by slot *)
  assert (Hslot : forall k, In k (dkeys (P R)) ->
            Rel (vald (P R) k) (vm k) /\ is_white (vald (P R) k) = is_white (vm k) /\
            is_placeholder (vm k) = false).
  { intros k Hk. destruct (get_in (P R) k WP Hk) as (p & Ep & Hp).
    destruct (get_entity_total (P R) (Nw NL) false (fun _ => StN) k (or_introl Hk))
      as (e & Ee & Hin & HinN & _).
    assert (Hvp : vald (P R) k = p) by (unfold vald; rewrite Ep; reflexivity).
    assert (Hve : vm k = e) by (unfold vm, valm; rewrite Ee; reflexivity).
    rewrite Hvp, Hve.
    pose proof (key_ok_in (P R) k p WP Hp) as Kp.
    assert (Ke : key_ok (k, e)) by (destruct Hin as [Hi|Hi]; [exact (key_ok_in _ k e WP Hi)|exact (key_ok_in _ k e WN Hi)]).
    destruct (key_ok_cls k p Kp) as [P1 P2]. destruct (key_ok_cls k e Ke) as [E1 E2].
    destruct (key_ok_kinds k p Kp) as [Wp _]. destruct (key_ok_kinds k e Ke) as [We _].
    split; [|split; [congruence|]].
    - split; [congruence|]. split.
      + intros Hc. rewrite P1 in Hc. rewrite (P2 Hc), (E2 Hc). reflexivity.
      + intros Hc. rewrite P1 in Hc. assert (Hws : is_ws_key k = true) by (destruct k; cbn in Hc; try discriminate; reflexivity).
        pose proof (valm_ws_N (P R) (Nw NL) false WP DisN (fun _ => StN) k Hk Hws) as Hv.
        fold vm in Hv. rewrite Hve, Hvp in Hv. rewrite Hv. reflexivity.
    - (* no placeholder is left: every reference entity has a new value *)
      destruct (is_placeholder e) eqn:Eph; [|reflexivity]. exfalso.
      destruct Hin as [Hi|Hi].
      2:{ destruct (N_pairs wrap R nd uR Hnd wo NL HNL k e Hi) as (Hc & _).
          unfold is_cent in Hc. unfold is_placeholder in Eph. destruct (c_kind e); discriminate. }
      assert (Hpe : p = e).
      { pose proof (In_od_get dkey_eqb dkey_eqb_eq k e (P R) (proj1 WP) Hi) as G. congruence. }
      rewrite <- Hpe in Eph, Ee. clear Hpe.
      assert (HpPL : In p (PL R)).
      { rewrite <- (parse_resource_values _ (PL_uniq R uR)). unfold dvalues. apply in_map_iff. exists (k, p). auto. }
      unfold PL, placeholders in HpPL. apply in_map_iff in HpPL. destruct HpPL as (r & Hrp & Hr0).
      apply filter_In in Hr0. destruct Hr0 as [Hr0 _].
      assert (Her : is_entity r = true).
      { unfold placeholder in Hrp. destruct (is_entity r) eqn:E; [reflexivity|]. rewrite <- Hrp in Eph.
        unfold is_placeholder in Eph. destruct (numbered_kinds rbs 0 r (proj1 Hr) Hr0) as [K|[K|K]]; rewrite K in Eph; discriminate. }
      assert (Hs : In (c_key r) (refkeys R)).
      { unfold refkeys. apply in_map. apply filter_In. auto. }
      assert (Hk' : k = DK (c_key r)).
      { unfold placeholder in Hrp. rewrite Her in Hrp. rewrite <- Hrp in Kp. unfold key_ok in Kp. cbn in Kp.
        destruct k as [s0|v n|i|s0]; cbn in Kp; destruct Kp as [Q1 Q2].
        - cbn in Q2. subst s0. reflexivity.
        - unfold is_comment, placeholder_of in Q1. cbn in Q1. discriminate.
        - unfold is_white, placeholder_of in Q1. cbn in Q1. discriminate.
        - unfold is_section, placeholder_of in Q1. cbn in Q1. discriminate. }
      destruct (Htotal _ Hs) as (raw & Hraw0).
      pose proof (value_of_cases wrap R [] nd uR Hnd wo NL HNL (c_key r) Hs) as Hc. rewrite Hraw0 in Hc.
      destruct Hc as (r' & e' & _ & _ & Hv). unfold value_of in Hv.
      destruct (find (has_key (c_key r)) NL) as [e2|] eqn:Ef.
      + assert (HinN2 : od_get dkey_eqb k (Nw NL) = Some e2).
        { rewrite Hk'. rewrite (N_get wrap R nd Hnd wo NL HNL). exact Ef. }
        assert (HnN : In k (dkeys (Nw NL))) by (eapply od_get_Some_key; [apply dkey_eqb_eq|exact HinN2]).
        (* then the merged value is the new entity, not the placeholder *)
        unfold get_entity, get_older_entity in Ee. rewrite HinN2 in Ee.
        assert (is_sticky e2 = false) as Hst2.
        { pose proof (od_get_In dkey_eqb dkey_eqb_eq _ _ _ HinN2) as Hi2.
          rewrite Forall_forall in StN. apply (StN (k, e2) Hi2). }
        rewrite Hst2 in Ee. inversion Ee; subst e2.
        pose proof (od_get_In dkey_eqb dkey_eqb_eq _ _ _ HinN2) as Hi2.
        destruct (N_pairs wrap R nd uR Hnd wo NL HNL k p Hi2) as (Hc2 & _).
        unfold is_cent in Hc2. unfold is_placeholder in Eph. destruct (c_kind p); discriminate.
      + unfold removed in Hv. rewrite Hraw0 in Hv. unfold old_cent in Hv. cbn in Hv. discriminate. }
  assert (Hna : noadj (map vm (dkeys (P R)))).
  { rewrite (dvalues_vald (P R) (proj1 WP)) in HPna.
    eapply noadj_white_eq; [|exact HPna]. apply Forall2_map_same. intros k Hk. apply (Hslot k Hk). }
  rewrite (pws_noadj _ Hna).
  assert (Hnoph : forall e, In e (map vm (dkeys (P R))) -> is_placeholder e = false).
  { intros e He. apply in_map_iff in He. destruct He as (k & <- & Hk). apply (Hslot k Hk). }
  rewrite prune_placeholders_pws.
  rewrite (filter_all (fun e => negb (is_placeholder e))).
  2:{ apply Forall_forall. intros e He. rewrite (Hnoph e He). reflexivity. }
  rewrite (pws_noadj _ Hna). split; [|split; [exact Hna|exact Hnoph]].
  assert (HPL : PL R = map (vald (P R)) (dkeys (P R))).
  { rewrite <- (dvalues_vald (P R) (proj1 WP)). unfold P. rewrite parse_resource_values by (apply PL_uniq; exact uR). reflexivity. }
  set (kp := dkeys (P R)) in *. set (vd := vald (P R)) in *. rewrite HPL.
  apply Forall2_map_same. intros k Hk. apply (Hslot k Hk).
Qed.

(* run 2: an old localization that takes the template slot by slot comes back unchanged *)
Lemma run2 bs2 c : Forall legal_block bs2 -> ukeys (centries_of bs2) ->
  length R <= c ->
  Forall2 Rel (PL R) (centries_of bs2) ->
  (forall x, In x (centries_of bs2) -> is_entity x = true -> In (c_key x) (refkeys R)) ->
  serialize_entries wrap R (number c (centries_of bs2)) [] = Ok (number c (centries_of bs2)).
Proof.
  intros L2 U2 Hc HRel Hkeys. set (X := number c (centries_of bs2)).
  assert (njX : nj X = X).
  { apply nj_all. intros e He. apply (numbered_nojunk bs2 c e L2 He). }
  assert (uX : uniq (nj X)) by (rewrite njX; apply number_uniq; exact U2).
  assert (Hser : exists out, serialize_entries wrap R X [] = Ok out).
  { unfold serialize_entries. cbn [new_entities bind]. unfold merge_resources, merge_dicts. cbn. eauto. }
  destruct Hser as (out & Hout). rewrite Hout. f_equal.
  destruct (serialize_entries_inv wrap R X [] uR out Hout) as (NL & HNL & ->).
  cbn in HNL. inversion HNL; subst NL; clear HNL.
  pose proof (P_wf R uR) as WP.
  (* nothing is sanitized away *)
  assert (HOL : OL R X [] = X).
  { unfold OL. fold (nj X). rewrite njX. rewrite <- (map_id X) at 2. apply map_ext_in. intros x Hx.
    unfold san, should_placeholder. destruct (is_entity x) eqn:Ex; cbn [negb]; [|reflexivity].
    assert (Hin : In (c_key x) (refkeys R)).
    { destruct (number_In_strip _ _ _ Hx) as (x0 & H0 & Hs). destruct (strip_fields _ _ Hs) as (K1 & K2 & _).
      rewrite K2. apply Hkeys; [exact H0|]. unfold is_entity in *. rewrite <- K1. exact Ex. }
    apply mem_str_In in Hin. rewrite Hin. reflexivity. }
  assert (HO2 : O' R X [] = parse_resource X) by (unfold O'; rewrite HOL; reflexivity).
  assert (WX : wf (parse_resource X)) by (apply parse_resource_wf; rewrite <- njX; exact uX).
  assert (HXna : noadj X).
  { unfold X. eapply noadj_strip; [symmetry; apply number_strip|apply cents_noadj]. }
  (* the template and the old file, key by key *)
  assert (HRw : Forall2 Rw (P R) (parse_resource X)).
  { unfold P. rewrite (parse_resource_uniq (PL R) (PL_uniq R uR)).
    rewrite (parse_resource_uniq X) by (rewrite <- njX; exact uX).
    apply kv_Rw. eapply Forall2_Rel_strip; [symmetry; apply number_strip|exact HRel]. }
  assert (Hdis : ws_disjoint (dkeys (P R)) (dkeys (parse_resource X))).
  { intros k Hk H1 H2. apply nwk_false in Hk. destruct Hk as [i ->].
    apply (dw_ids _ i (PL_uniq R uR)) in H1.
    apply (dw_ids X i) in H2; [|rewrite <- njX; exact uX].
    unfold PL, placeholders in H1.
    assert (Hnj : filter (fun e => negb (is_junk e)) R = R) by (apply (njR m rbs Hr)).
    rewrite Hnj in H1.
    rewrite white_ids_map in H1 by (intros e; destruct (placeholder_facts e) as (_ & _ & F3 & F4 & _); auto).
    apply number_white_ids in H1. apply number_white_ids in H2. unfold R in Hc. rewrite number_length in Hc. lia. }
  assert (Hst : Forall (fun p => is_sticky (snd p) = false) (parse_resource X)).
  { apply Forall_forall. intros [k e] Hin. cbn.
    assert (He : In e X).
    { rewrite <- (parse_resource_values X) by (rewrite <- njX; exact uX). unfold dvalues. apply in_map_iff. exists (k, e). auto. }
    apply (numbered_nosticky bs2 c e L2 He). }
  assert (Hadj : no_adj (dkeys (parse_resource X))).
  { rewrite (parse_resource_uniq X) by (rewrite <- njX; exact uX). unfold dkeys, X.
    apply no_adj_keys. apply noadj_eq_white. apply cents_noadj. }
  assert (HM1 : M1 R X [] = parse_resource X).
  { unfold M1. rewrite HO2. apply merge_older_copy; assumption. }
  assert (HM : M R X [] [] = parse_resource X).
  { unfold M. rewrite HM1. change (Nw []) with ([] : dict). apply merge_two_empty; [exact WX|].
    rewrite parse_resource_values by (rewrite <- njX; exact uX). exact HXna. }
  rewrite HM. rewrite parse_resource_values by (rewrite <- njX; exact uX).
  rewrite prune_placeholders_pws.
  rewrite (filter_all (fun e => negb (is_placeholder e))).
  - apply pws_noadj. exact HXna.
  - apply Forall_forall. intros e He. unfold is_placeholder.
    destruct (numbered_kinds bs2 c e L2 He) as [K|[K|K]]; rewrite K; reflexivity.
Qed.

(* idempotence at text level *)
Theorem serialize_idempotent_text name txt :
  serialize wrap name R [] nd = Ok txt ->
  exists bs2, Forall legal_block bs2 /\ adjacent_ok bs2 /\ file_text bs2 = txt /\
    forall c, length R <= c ->
      serialize wrap name R (number c (centries_of bs2)) [] = Ok txt.
Proof.
  intros H. destruct (serialize_inv wrap name R [] nd txt H) as (out & Hout & ->).
  destruct (serialize_shape m rbs [] Hr vok_nil wrap nd Hnd Hwrap Hraw out Hout) as (S1 & S2 & S3).
  destruct (shape_blocks m out S1 S2 S3) as (bs2 & B1 & B2 & B3 & B4 & B5 & B6).
  exists bs2. split; [exact B1|]. split; [exact B2|]. split; [exact B3|].
  intros c Hc.
  destruct (run1 out Hout) as (R1 & R2 & R3).
  assert (Hparser : exists p, get_parser name = Ok (Some p)).
  { unfold serialize in H. destruct (get_parser name) as [[p|]|]; cbn in H; try discriminate. eauto. }
  destruct Hparser as (p & Hp).
  (* the keys of the re-parsed file *)
  assert (Hkeys : forall x, In x (centries_of bs2) -> is_entity x = true -> In (c_key x) (refkeys R)).
  { intros x Hx Hex. destruct (strip_In _ _ x (eq_sym B6) Hx) as (e & He & Hs).
    destruct (strip_fields _ _ Hs) as (K1 & K2 & _).
    assert (Hce : is_cent e = true).
    { unfold is_entity in Hex. rewrite <- K1 in Hex. unfold is_cent. pose proof (R3 e He) as Hph.
      unfold is_placeholder in Hph. destruct (c_kind e); try discriminate; reflexivity. }
    rewrite <- K2.
    apply (entities_values_thm wrap R [] nd uR uL0 Hnd wo out Hout e He Hce). }
  assert (U2 : ukeys (centries_of bs2)).
  { assert (Hkinds : forall e, In e out -> c_kind e = CEntity \/ c_kind e = CComment \/ c_kind e = CWhite).
    { intros e He. rewrite Forall_forall in S3. destruct (S3 e He) as [? ? ? ? ? ? ? ? _ _ Q|? ? _ _ Q|? ? Q _ _];
        apply strip_fields in Q; destruct Q as [Q _]; cbn in Q; auto. }
    assert (Hk : map c_key (filter keyed (centries_of bs2)) = map c_key (filter is_cent out)).
    { clear - B6 Hkinds. revert B6 Hkinds. generalize (centries_of bs2). induction out as [|e l IH]; intros [|x xs] Hs Hkd; cbn in Hs; try discriminate; [reflexivity|].
      apply cons_inv in Hs. destruct Hs as [H1 H2]. destruct (strip_fields _ _ H1) as (K1 & K2 & _).
      cbn [filter]. specialize (IH xs H2 (fun e0 He0 => Hkd e0 (or_intror He0))).
      assert (E : keyed x = is_cent e).
      { unfold keyed, is_comment, is_white, is_section, is_cent. rewrite K1.
        destruct (Hkd e (or_introl eq_refl)) as [K|[K|K]]; rewrite K; reflexivity. }
      rewrite E. destruct (is_cent e); cbn; rewrite IH, ?K2; reflexivity. }
    split.
    - rewrite Hk. rewrite (entities_keys_thm wrap R [] nd uR uL0 Hnd wo out Hout).
      apply NoDup_filter. apply (refkeys_nodup R uR).
    - assert (Hsec : filter is_section (centries_of bs2) = []).
      { apply filter_none. apply Forall_forall. intros x Hx. unfold is_section.
        destruct (centries_kinds bs2 B1 x Hx) as [K|[K|K]]; rewrite K; reflexivity. }
      rewrite Hsec. constructor. }
  assert (HRel : Forall2 Rel (PL R) (centries_of bs2)).
  { eapply Forall2_Rel_strip; [symmetry; exact B6|exact R1]. }
  unfold serialize. rewrite Hp. cbn [bind].
  rewrite (run2 bs2 c B1 U2 Hc HRel Hkeys). cbn [bind]. f_equal.
  rewrite number_text. unfold serialize_legacy. rewrite centries_text by exact B1. exact B3.
Qed.
End I.
