(* C19 end to end for .ini: the block lists of Proofs/C02BlocksIniJunk.v (entities with
   attached comments, standalone comments, section headers, white-space, garbage regions) as
   item lists (Proofs/LintE2E.v).  Section headers are IniSection entries, no entities: the
   linter never sees them (they are "other" items). *)
From Coq Require Import ZArith NArith List Bool Arith Lia.
From CL Require Import Base.Sx Base.Res Base.Str Regex.Rx Model.Entry Model.Parse
  Model.ParseFormats Model.CheckProps Model.LineCol Model.AddRemove Model.Lint Model.LintProps
  Proofs.LintProofs Proofs.C02Roundtrip Proofs.C02BlocksRx Proofs.C02BlocksIniRx
  Proofs.C02BlocksIni Proofs.C02BlocksIniJunk Proofs.LintE2E.
Import ListNotations.
Open Scope nat_scope.

Local Arguments Nat.ltb : simpl never.
Local Arguments Nat.leb : simpl never.
Local Arguments str_of_nat : simpl never.

Ltac norm_app := repeat (progress (rewrite <- ?app_assoc; cbn [app])).
Ltac len := rewrite ?app_length; cbn [length]; rewrite ?app_length; cbn [length]; lia.

Definition iitem (jb : ijblock) : item :=
  match jb with
  | IJB (IBlank w) => IOther w
  | IJB (IComment cs) => IOther (ctext cs)
  | IJB (ISection name nl) => IOther (91%N :: name ++ 93%N :: eol nl)
  | IJB (IEntity cs key val nl) => IEnt (ctext cs) [] key [61%N] val [] (eol nl)
  | IJG gl => IJunk (igtext gl)
  end.

Lemma iitem_text : forall jb, item_text (iitem jb) = ijtext jb.
Proof. intros [[w|cs|name nl|cs key val nl]|gl]; reflexivity. Qed.

Lemma iitems_text : forall bs, items_text (map iitem bs) = ijfile_text bs.
Proof.
  induction bs as [|b bs IH]; [reflexivity|].
  cbn [map]. rewrite items_text_cons, ijfile_text_cons, iitem_text, IH. reflexivity.
Qed.

Lemma iloc_flush : forall off w, filter is_localizable (flush off w) = [].
Proof. intros off [|w]; reflexivity. Qed.

Notation vp_ini := entry_value_position.

Lemma ients_entities : forall bs, Forall legal_ijblock bs -> forall (a w : str) j,
  let s := a ++ w ++ ijfile_text bs in
  fmt_entities vp_ini s j (filter is_localizable (ijents (length a) (length w) bs)) =
  gen_entities vp_ini s j (a ++ w) (map iitem bs).
Proof.
  induction bs as [|b rest IH]; intros Hleg a w j s.
  - simpl ijents. rewrite iloc_flush. reflexivity.
  - inversion Hleg as [|b' rest' Hb Hrest]; subst b' rest'. specialize (IH Hrest).
    destruct b as [[x|cs|name nl|cs key val nl]|gl]; cbn [map iitem gen_entities].
    + assert (Hs : s = a ++ (w ++ x) ++ ijfile_text rest).
      { unfold s. rewrite ijfile_text_cons. cbn [ijtext itext]. rewrite <- app_assoc. reflexivity. }
      simpl ijents. rewrite <- app_length.
      rewrite Hs. rewrite (IH a (w ++ x) j). f_equal. apply app_assoc.
    + unfold legal_ijblock in Hb. cbn [legal_ijblockb legal_iblockb] in Hb. apply andb_true_iff in Hb.
      destruct Hb as [Hc1 _].
      assert (Hne : cs <> []) by (destruct cs; [discriminate|discriminate]).
      set (A0 := a ++ w ++ cbody cs).
      assert (Hs : s = A0 ++ [10%N] ++ ijfile_text rest).
      { unfold s, A0. rewrite ijfile_text_cons. cbn [ijtext itext]. rewrite (ctext_body cs Hne).
        norm_app. reflexivity. }
      assert (El : length a + length w + length (cbody cs) = length A0)
        by (unfold A0; rewrite !app_length; lia).
      simpl ijents. rewrite !filter_app, iloc_flush, El.
      cbn [app filter is_localizable mk_comment Entry.e_kind].
      cbn [fmt_entities mk_comment Entry.e_kind].
      change 1 with (length [10%N]). rewrite Hs, (IH A0 [10%N] j).
      f_equal. unfold A0. rewrite (ctext_body cs Hne). norm_app. reflexivity.
    + set (A0 := a ++ w ++ 91%N :: name ++ [93%N]).
      assert (Hs : s = A0 ++ eol nl ++ ijfile_text rest).
      { unfold s, A0. rewrite ijfile_text_cons. cbn [ijtext itext]. norm_app. reflexivity. }
      assert (Ee : length a + length w + S (length name) + 1 = length A0) by (unfold A0; len).
      simpl ijents. rewrite !filter_app, iloc_flush, Ee.
      cbn [app filter is_localizable Entry.e_kind]. cbn [fmt_entities Entry.e_kind].
      rewrite Hs, (IH A0 (eol nl) j). f_equal. unfold A0. norm_app. reflexivity.
    + set (K0 := a ++ w ++ ctext cs).
      set (V0 := K0 ++ key ++ [61%N]).
      set (A0 := V0 ++ val).
      assert (Hs : s = A0 ++ eol nl ++ ijfile_text rest).
      { unfold s, A0, V0, K0. rewrite ijfile_text_cons. cbn [ijtext itext]. norm_app. reflexivity. }
      assert (Ek : length a + length w + length (ctext cs) = length K0)
        by (unfold K0; rewrite !app_length; lia).
      assert (Ev : length K0 + length key + 1 = length V0).
      { unfold V0. rewrite !app_length. simpl. lia. }
      assert (Ee : length V0 + length val = length A0) by (unfold A0; rewrite app_length; lia).
      simpl ijents. rewrite !filter_app, iloc_flush, Ek, Ev, Ee.
      cbn [app filter is_localizable Entry.e_kind].
      cbn [fmt_entities Entry.e_kind Entry.e_span Entry.e_key Entry.e_val fst snd osp_text option_map].
      assert (S1 : sp_text s (length K0, length K0 + length key) = key).
      { unfold sp_text. cbn [fst snd].
        replace s with (K0 ++ key ++ ([61%N] ++ val ++ eol nl) ++ ijfile_text rest)
          by (unfold s, K0; rewrite ijfile_text_cons; cbn [ijtext itext]; norm_app; reflexivity).
        apply slice_mid. }
      assert (S2 : sp_text s (length V0, length A0) = val).
      { unfold sp_text. cbn [fst snd]. rewrite <- Ee, Hs. unfold A0. rewrite <- app_assoc. apply slice_mid. }
      rewrite S1, S2.
      f_equal.
      * apply mk_ent_eq.
        -- unfold K0. len.
        -- rewrite <- Ee, <- Ev. unfold K0. len.
        -- rewrite <- Ev. unfold K0. len.
        -- rewrite <- Ee, <- Ev. unfold K0. len.
      * rewrite Hs, (IH A0 (eol nl) j). f_equal.
        unfold A0, V0, K0. cbn [item_text]. norm_app. reflexivity.
    + set (A0 := a ++ w ++ igtext gl).
      assert (Hs : s = A0 ++ [] ++ ijfile_text rest).
      { unfold s, A0. rewrite ijfile_text_cons. cbn [ijtext]. norm_app. reflexivity. }
      assert (El : length a + length w + length (igtext gl) = length A0)
        by (unfold A0; rewrite !app_length; lia).
      simpl ijents. rewrite !filter_app, iloc_flush, El.
      cbn [app filter is_localizable mk_junk Entry.e_kind].
      cbn [fmt_entities mk_junk Entry.e_kind Entry.e_span fst snd].
      assert (S1 : sp_text s (length a + length w, length A0) = igtext gl).
      { unfold sp_text. cbn [fst snd]. rewrite <- El, <- app_length.
        replace s with ((a ++ w) ++ igtext gl ++ ijfile_text rest)
          by (unfold s; rewrite ijfile_text_cons; cbn [ijtext]; norm_app; reflexivity).
        apply slice_mid. }
      rewrite S1. f_equal.
      * apply mk_junk_eq; [len|rewrite <- El; len].
      * change 0 with (length (@nil N)). rewrite Hs, (IH A0 [] (S j)). f_equal.
        unfold A0. norm_app. rewrite app_nil_r. reflexivity.
Qed.

Theorem parsed_ini : forall bs, Forall legal_ijblock bs -> ijadjacent_ok bs ->
  parsed vp_ini walk_ini (map iitem bs).
Proof.
  intros bs Hleg Hadj. exists (ijentries_of bs). rewrite iitems_text. split.
  - apply blocks_ini_junk; assumption.
  - intros j. exact (ients_entities bs Hleg [] [] j).
Qed.

(* premise on the keys of the linted file: none is spelt like the key of a Junk object *)
Definition iblock_key_ok (jb : ijblock) : Prop :=
  match jb with
  | IJB (IEntity _ key _ _) => starts_with s_junk_ key = false
  | _ => True
  end.

Lemma iitem_keys : forall bs, Forall iblock_key_ok bs -> Forall item_key_ok (map iitem bs).
Proof.
  induction 1 as [|b bs Hb _ IH]; constructor; [|exact IH].
  destruct b as [[w|cs|name nl|cs key val nl]|gl]; exact Hb || exact I.
Qed.

Definition ini_val (raw : str) : result str := Ok raw.
Lemma ini_val_total : forall raw, exists v, ini_val raw = Ok v.
Proof. intros raw. exists raw. reflexivity. Qed.

(* the findings expected for the block list [all] against the reference block list [rref] *)
Definition iexpected {Msg : Type} (all : list ijblock) (rref : option (list ijblock))
  : list (@finding str Msg) :=
  expected ini_val (map iitem all) (option_map (map iitem) rref) [] (map iitem all).

Section Top.
Context {Msg : Type}.
Variable chk : option (@checker str Msg).
Variable all : list ijblock.
Variable rref : option (list ijblock).
Variable j0 : nat.
Hypothesis Hleg : Forall legal_ijblock all.
Hypothesis Hadj : ijadjacent_ok all.
Hypothesis Hkeys : Forall iblock_key_ok all.
Hypothesis Href : match rref with
                  | Some rbs => Forall legal_ijblock rbs /\ ijadjacent_ok rbs
                  | None => True
                  end.

Lemma itexts_eq :
  lint_ini j0 chk (ijfile_text all) (option_map ijfile_text rref) =
  lint_text vp_ini ini_val walk_ini j0 chk
    (items_text (map iitem all)) (option_map items_text (option_map (map iitem) rref)).
Proof.
  unfold lint_ini. rewrite iitems_text. destruct rref as [rbs|]; cbn [option_map];
    rewrite ?iitems_text; reflexivity.
Qed.

Lemma iHref_items : match option_map (map iitem) rref with
                    | Some rits => parsed vp_ini walk_ini rits
                    | None => True
                    end.
Proof. destruct rref as [rbs|]; cbn [option_map]; [apply parsed_ini; tauto|exact I]. Qed.

Theorem e2e_ini_silent :
  (forall e, check_results chk e = []) ->
  lint_ini j0 chk (ijfile_text all) (option_map ijfile_text rref) = Ok (iexpected all rref).
Proof.
  intros Hsil. rewrite itexts_eq.
  exact (lint_text_items_silent vp_ini ini_val ini_val_total walk_ini chk
           (map iitem all) (option_map (map iitem) rref) j0
           (parsed_ini all Hleg Hadj) (iitem_keys all Hkeys) iHref_items Hsil).
Qed.

Theorem e2e_ini : forall fs,
  lint_ini j0 chk (ijfile_text all) (option_map ijfile_text rref) = Ok fs ->
  filter no_check fs = iexpected all rref.
Proof.
  intros fs H. rewrite itexts_eq in H.
  exact (lint_text_items vp_ini ini_val ini_val_total walk_ini chk
           (map iitem all) (option_map (map iitem) rref) j0
           (parsed_ini all Hleg Hadj) (iitem_keys all Hkeys) iHref_items fs H).
Qed.
End Top.

(* ---- a concrete file for the Example of Properties/C19.v -------------------------------------
     [Str] / k=v / zz (garbage) / ; c / k=w / m=1         reference:  [Str] / k=v / m=2     *)
Definition ie2e_kv (k v : list nat) : ijblock := IJB (IEntity [] (A k) (A v) true).
Definition ie2e_file : list ijblock :=
  [IJB (ISection (A [83; 116; 114]) true); ie2e_kv [107] [118]; IJG [A [122; 122]];
   IJB (IEntity [(59%N, A [32; 99])] (A [107]) (A [119]) true); ie2e_kv [109] [49]].
Definition ie2e_ref : list ijblock :=
  [IJB (ISection (A [83; 116; 114]) true); ie2e_kv [107] [118]; ie2e_kv [109] [50]].
