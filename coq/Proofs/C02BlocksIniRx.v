(* The generated expressions of the ini parser (section, comment, key) evaluated at an
   arbitrary offset inside a longer text of known shape; shared pieces for line-oriented
   comment expressions with an arbitrary marker set, and the lazy class repetition with a
   mandatory first iteration.  Used by Proofs/C02BlocksIni.v (and C02BlocksInc.v). *)
From Coq Require Import NArith List Bool Arith Lia.
From CL Require Import Base.Sx Base.Res Base.Str Regex.Rx Regex.RxLemmas Model.Entry Model.Parse
  Model.ParseFormats Generated.RxParser Proofs.UnescapeProofs
  Proofs.ClassLoop Proofs.ClassLoop2 Proofs.C02Props Proofs.WalkProofs Proofs.C02Roundtrip
  Proofs.C02BlocksRx.
Import ListNotations.

Local Arguments Nat.ltb : simpl never.
Local Arguments Nat.leb : simpl never.
Local Arguments Nat.eqb : simpl never.
Local Arguments N.eqb : simpl never.
Local Arguments N.leb : simpl never.
Local Arguments chr_ok : simpl never.
Local Arguments run : simpl never.
Local Arguments fwd : simpl never.

(* ---- the lazy class repetition from any count >= lo ----------------------------------------- *)
Section Lazy.
Variables (neg : bool) (cls : cset).
Let body := m (Chr neg cls).

Lemma rep_class_lazy_ge : forall lo j fuel count s k,
  lo <= count -> j <= run neg cls None (suf s) -> j < fuel ->
  (forall i, i < j -> k (fwd i s) = Fail) ->
  k (fwd j s) <> Fail ->
  rep_loop body false lo None fuel count s k = k (fwd j s).
Proof.
  intros lo. induction j as [|j IH]; intros fuel count s k Hlo Hr Hf Hfail Hok;
    (destruct fuel as [|f]; [lia|]); rewrite rep_loop_S;
    replace (count <? lo) with false by (symmetry; apply Nat.ltb_ge; lia); cbv zeta.
  - change (fwd 0 s) with s in *. destruct (k s); try reflexivity. contradiction.
  - pose proof (Hfail 0) as H0. change (fwd 0 s) with s in H0. rewrite H0 by lia. simpl orelse.
    unfold body. rewrite (body_eq' neg cls).
    destruct (suf s) as [|c t] eqn:Es; [rewrite run_nil in Hr; lia|].
    rewrite run_none_cons in Hr.
    destruct (chr_ok neg cls c) eqn:Ec; [|lia].
    assert (Hp : Nat.eqb (pos (advance s c t)) (pos s) = false)
      by (apply Nat.eqb_neq; simpl; lia).
    rewrite Hp. rewrite (fwd_S j s c t Es). apply IH.
    + lia.
    + unfold advance. cbn [suf]. lia.
    + lia.
    + intros i Hi. rewrite <- (fwd_S i s c t Es). apply Hfail. lia.
    + rewrite <- (fwd_S j s c t Es). exact Hok.
Qed.

(* the continuation fails after every prefix of the run: the repetition fails *)
Lemma rep_class_lazy_fail : forall lo fuel count s k,
  lo <= count -> length (suf s) < fuel ->
  (forall i, i <= run neg cls None (suf s) -> k (fwd i s) = Fail) ->
  rep_loop body false lo None fuel count s k = Fail.
Proof.
  intros lo. induction fuel as [|f IH]; intros count s k Hlo Hf Hfail; [lia|].
  rewrite rep_loop_S. replace (count <? lo) with false by (symmetry; apply Nat.ltb_ge; lia).
  cbv zeta. pose proof (Hfail 0) as H0. change (fwd 0 s) with s in H0. rewrite H0 by lia.
  simpl orelse. unfold body. rewrite (body_eq' neg cls).
  destruct (suf s) as [|c t] eqn:Es; [reflexivity|].
  destruct (chr_ok neg cls c) eqn:Ec; [|reflexivity].
  assert (Hp : Nat.eqb (pos (advance s c t)) (pos s) = false)
    by (apply Nat.eqb_neq; simpl; lia).
  rewrite Hp. apply IH; [lia|unfold advance; simpl in *; lia|].
  unfold advance at 1. cbn [suf]. intros i Hi. rewrite <- (fwd_S i s c t Es). apply Hfail.
  rewrite run_none_cons, Ec. lia.
Qed.

(* m (Rep false 1 None cls): the first iteration is mandatory *)
Lemma m_rep_lazy1 : forall s k c t, suf s = c :: t -> chr_ok neg cls c = true ->
  m (Rep false 1 None (Chr neg cls)) s k =
  rep_loop body false 1 None (S (S (length t))) 1 (advance s c t) k.
Proof.
  intros s k c t Es Ec. rewrite m_Rep, Es. simpl Nat.add. simpl length. rewrite rep_loop_S.
  replace (0 <? 1) with true by reflexivity. rewrite m_Chr, Es, Ec. reflexivity.
Qed.

Lemma m_rep_lazy1_fail : forall s k, head_is (chr_ok neg cls) (suf s) = false ->
  m (Rep false 1 None (Chr neg cls)) s k = Fail.
Proof.
  intros s k H. rewrite m_Rep. simpl Nat.add. rewrite rep_loop_S.
  replace (0 <? 1) with true by reflexivity. rewrite m_Chr.
  destruct (suf s) as [|c t]; [reflexivity|]. cbn [head_is] in H. rewrite H. reflexivity.
Qed.
End Lazy.

Lemma m_Bol : forall multi s k, m (Bol multi) s k = if at_bol multi s then k s else Fail.
Proof. reflexivity. Qed.

(* ---- comment lines with an arbitrary marker set ---------------------------------------------- *)
Section Marker.
Variable M : list N.

Definition legal_cline_m (c : N * str) : bool := mem (fst c) M && no_nl (snd c).

Definition GBODY : rx :=
  Cat (Chr false (points M))
      (Cat (Rep true 0 None (Chr true (points [10%N]))) (Chr false (points [10%N]))).
Definition GLAST : rx :=
  Cat (Chr false (points M)) (Rep true 0 None (Chr true (points [10%N]))).

Lemma gbody_line : forall c t X pr p cs0 k,
  mem c M = true -> no_nl t = true ->
  m GBODY (mkst pr (c :: t ++ 10%N :: X) p cs0) k =
  k (mkst (10%N :: rev t ++ c :: pr) X (S (S p + length t)) cs0).
Proof.
  intros c t X pr p cs0 k Hc Ht. unfold GBODY. rewrite m_Cat, m_Chr. cbn [suf].
  rewrite chr_ok_points, Hc. unfold advance. cbn [pre suf pos caps]. rewrite m_Cat.
  assert (Hr : run true (points [10%N]) None (t ++ 10%N :: X) = length t).
  { apply run_exact_gen; [apply no_nl_class; exact Ht|]. simpl. rewrite nl_not_ok. reflexivity. }
  rewrite (m_rep_class_desc true (points [10%N]) 0 None); [|exact I|].
  - cbn [suf]. rewrite Hr. replace (0 <=? length t) with true by reflexivity.
    rewrite fwd_app. rewrite m_Chr. cbn [suf]. rewrite chr_ok_points, mem_single.
    replace (N.eqb 10 10) with true by reflexivity. unfold advance. cbn [pre suf pos caps].
    reflexivity.
  - cbn [suf]. rewrite Hr. intros j Hj _. rewrite fwd_mkst_caps by (rewrite app_length; lia).
    destruct (skipn j (t ++ 10%N :: X)) as [|c' t'] eqn:Es.
    + apply (f_equal (@length N)) in Es. rewrite skipn_length, app_length in Es. simpl in Es. lia.
    + rewrite m_Chr. cbn [suf]. rewrite chr_ok_points, mem_single.
      assert (Hin : In c' t) by (eapply skipn_head_in; [exact Hj|exact Es]).
      apply (no_nl_in t c' Ht) in Hin. apply N.eqb_neq in Hin. rewrite Hin. reflexivity.
Qed.

Lemma gbody_fail_head : forall X pr p cs0 k, head_is (fun c => mem c M) X = false ->
  m GBODY (mkst pr X p cs0) k = Fail.
Proof.
  intros X pr p cs0 k H. unfold GBODY. rewrite m_Cat, m_Chr. cbn [suf].
  destruct X as [|c X]; [reflexivity|]. cbn [head_is] in H. rewrite chr_ok_points, H. reflexivity.
Qed.

Lemma glast_fail_head : forall X pr p cs0 k, head_is (fun c => mem c M) X = false ->
  m GLAST (mkst pr X p cs0) k = Fail.
Proof.
  intros X pr p cs0 k H. unfold GLAST. rewrite m_Cat, m_Chr. cbn [suf].
  destruct X as [|c X]; [reflexivity|]. cbn [head_is] in H. rewrite chr_ok_points, H. reflexivity.
Qed.

Lemma glast_line : forall c t X pr p cs0,
  mem c M = true -> no_nl t = true ->
  m GLAST (mkst pr (c :: t ++ 10%N :: X) p cs0) k0 =
  Done (mkst (rev t ++ c :: pr) (10%N :: X) (S p + length t) cs0).
Proof.
  intros c t X pr p cs0 Hc Ht. unfold GLAST. rewrite m_Cat, m_Chr. cbn [suf].
  rewrite chr_ok_points, Hc. unfold advance. cbn [pre suf pos caps].
  assert (Hr : run true (points [10%N]) None (t ++ 10%N :: X) = length t).
  { apply run_exact_gen; [apply no_nl_class; exact Ht|]. simpl. rewrite nl_not_ok. reflexivity. }
  rewrite (m_rep_class true (points [10%N]) 0 None); [|intros s'; rewrite k0_done; discriminate|exact I].
  cbn [suf]. rewrite Hr. replace (0 <=? length t) with true by reflexivity.
  rewrite fwd_app, k0_done. reflexivity.
Qed.

(* anchored at line starts: (?:^BODY)*(?:^LAST) *)
Definition ABODY : rx := Cat (Bol true) GBODY.
Definition ALAST : rx := Cat (Bol true) GLAST.
Definition ACOMMENT : rx := Cat (Rep true 0 None ABODY) ALAST.

(* the position is at the start of a line *)
Definition bol (pr : list N) : bool := match pr with [] => true | c :: _ => N.eqb c 10 end.

Lemma at_bol_bol : forall pr sf p cs0, at_bol true (mkst pr sf p cs0) = bol pr.
Proof. intros [|c pr] sf p cs0; reflexivity. Qed.

Lemma abody_fail_head : forall X pr p cs0 k, head_is (fun c => mem c M) X = false ->
  m ABODY (mkst pr X p cs0) k = Fail.
Proof.
  intros. unfold ABODY. rewrite m_Cat, m_Bol. destruct (at_bol true _); [|reflexivity].
  apply gbody_fail_head. exact H.
Qed.
Lemma alast_fail_head : forall X pr p cs0 k, head_is (fun c => mem c M) X = false ->
  m ALAST (mkst pr X p cs0) k = Fail.
Proof.
  intros. unfold ALAST. rewrite m_Cat, m_Bol. destruct (at_bol true _); [|reflexivity].
  apply glast_fail_head. exact H.
Qed.

Definition AKL : st -> out := fun s' => m ALAST s' k0.

Lemma acomment_loop : forall cs X fuel count pr p,
  bol pr = true ->
  cs <> [] -> forallb legal_cline_m cs = true -> head_is (fun c => mem c M) X = false ->
  length cs < fuel ->
  rep_loop (m ABODY) true 0 None fuel count (mkst pr (ctext cs ++ X) p []) AKL =
  Done (mkst (rev (cbody cs) ++ pr) (10%N :: X) (p + length (cbody cs)) []).
Proof.
  induction cs as [|[c t] cs IH]; intros X fuel count pr p Hbol Hne Hleg HX Hf; [contradiction|].
  simpl in Hleg. apply andb_true_iff in Hleg. destruct Hleg as [Hl Hleg].
  unfold legal_cline_m in Hl. cbn [fst snd] in Hl. apply andb_true_iff in Hl. destruct Hl as [Hc Ht].
  destruct fuel as [|f]; [lia|].
  rewrite rep_loop_S. replace (count <? 0) with false by (symmetry; apply Nat.ltb_ge; lia).
  cbv zeta.
  assert (Etxt : ctext ((c, t) :: cs) ++ X = c :: t ++ 10%N :: (ctext cs ++ X)).
  { rewrite ctext_cons. unfold cline_text. cbn [fst snd]. simpl. rewrite <- !app_assoc. reflexivity. }
  rewrite Etxt. unfold ABODY at 1. rewrite m_Cat, m_Bol, at_bol_bol, Hbol.
  rewrite gbody_line by auto. cbn [pos].
  replace (Nat.eqb (S (S p + length t)) p) with false by (symmetry; apply Nat.eqb_neq; lia).
  destruct cs as [|c2 cs].
  - simpl ctext. simpl app at 1.
    destruct f as [|f]; [simpl in Hf; lia|].
    rewrite rep_loop_S. replace (S count <? 0) with false by (symmetry; apply Nat.ltb_ge; lia).
    cbv zeta. rewrite abody_fail_head by exact HX. rewrite orelse_fail.
    unfold AKL at 1. rewrite alast_fail_head by exact HX. rewrite orelse_fail.
    unfold AKL, ALAST. rewrite m_Cat, m_Bol, at_bol_bol, Hbol.
    replace (c :: t ++ 10%N :: [] ++ X) with (c :: t ++ 10%N :: X) by reflexivity.
    rewrite glast_line by auto. rewrite cbody_one. cbn [fst snd]. simpl rev.
    rewrite <- app_assoc. simpl. f_equal. f_equal. lia.
  - rewrite IH; [| reflexivity | discriminate | exact Hleg | exact HX | simpl in Hf; simpl; lia].
    simpl orelse. rewrite cbody_cons. unfold cline_text. cbn [fst snd].
    f_equal. f_equal.
    + change (c :: t ++ [10%N]) with ((c :: t) ++ [10%N]).
      rewrite !rev_app_distr. simpl. rewrite <- !app_assoc. simpl. rewrite <- app_assoc. reflexivity.
    + simpl. rewrite !app_length. simpl. lia.
Qed.

Lemma acomment_match : forall cs X pr p,
  bol pr = true ->
  cs <> [] -> forallb legal_cline_m cs = true -> head_is (fun c => mem c M) X = false ->
  m ACOMMENT (mkst pr (ctext cs ++ X) p []) k0 =
  Done (mkst (rev (cbody cs) ++ pr) (10%N :: X) (p + length (cbody cs)) []).
Proof.
  intros cs X pr p Hbol Hne Hleg HX. unfold ACOMMENT. rewrite m_Cat, m_Rep. fold AKL.
  apply acomment_loop; auto. cbn [suf]. rewrite app_length.
  pose proof (ctext_length_ge cs). lia.
Qed.

Lemma acomment_fails : forall X pr p k, head_is (fun c => mem c M) X = false ->
  m ACOMMENT (mkst pr X p []) k = Fail.
Proof.
  intros X pr p k H. unfold ACOMMENT. rewrite m_Cat, m_Rep. simpl Nat.add. rewrite rep_loop_S.
  replace (0 <? 0) with false by reflexivity. cbv zeta beta iota.
  rewrite abody_fail_head by exact H. rewrite orelse_fail. apply alast_fail_head. exact H.
Qed.

Lemma omatch_acomment : forall (a : str) cs X,
  bol (rev a) = true ->
  cs <> [] -> forallb legal_cline_m cs = true -> head_is (fun c => mem c M) X = false ->
  omatch ACOMMENT (a ++ ctext cs ++ X) (length a) =
  Some (mkres (length a) (length a + length (cbody cs)) []).
Proof.
  intros a cs X H0 H1 H2 H3. rewrite omatch_split, run_at_k0, acomment_match by auto. reflexivity.
Qed.

Lemma omatch_acomment_none : forall (a X : str), head_is (fun c => mem c M) X = false ->
  omatch ACOMMENT (a ++ X) (length a) = None.
Proof.
  intros a X H. rewrite omatch_split, run_at_k0, acomment_fails by exact H. reflexivity.
Qed.
End Marker.

(* ---- the ini expressions ------------------------------------------------------------------------ *)
Definition CMI : list N := [59; 35]%N.                 (* ; # *)

Lemma ini_comment_shape : rx_ini_comment = ACOMMENT CMI.
Proof. reflexivity. Qed.

Lemma ini_ws_shape : rx_ini_ws = rx_props_ws.
Proof. reflexivity. Qed.

(* [name] *)
Definition no_chars (l : list N) (t : str) : bool := forallb (fun x => negb (mem x l)) t.

Lemma no_chars_class : forall l t, no_chars l t = true -> forallb (chr_ok true (points l)) t = true.
Proof.
  intros l t H. unfold no_chars in H. rewrite (forallb_ext' _ (fun x => negb (mem x l))); auto.
  intros c. apply chr_ok_points.
Qed.

Lemma no_chars_weaken : forall l l' t, (forall c, mem c l' = true -> mem c l = true) ->
  no_chars l t = true -> no_chars l' t = true.
Proof.
  intros l l' t H Ht. unfold no_chars in *. rewrite forallb_forall in *. intros x Hx.
  specialize (Ht x Hx). apply negb_true_iff in Ht. apply negb_true_iff.
  destruct (mem x l') eqn:E; [|reflexivity]. apply H in E. congruence.
Qed.

Lemma no_chars_in : forall l t c, no_chars l t = true -> In c t -> mem c l = false.
Proof.
  intros l t c H Hin. unfold no_chars in H. rewrite forallb_forall in H. specialize (H c Hin).
  apply negb_true_iff in H. exact H.
Qed.

Lemma section_shape : rx_ini_section =
  Cat (Chr false (points [91%N]))
      (Cat (Grp 1 (Rep false 0 None (Chr true (points [10%N])))) (Chr false (points [93%N]))).
Proof. reflexivity. Qed.

Lemma section_match : forall name X pr p,
  no_chars [10; 93]%N name = true ->
  exists s', m rx_ini_section (mkst pr (91%N :: name ++ 93%N :: X) p []) k0 = Done s' /\
    pos s' = p + S (length name) + 1 /\ caps s' = [(1, (p + 1, p + 1 + length name))].
Proof.
  intros name X pr p Hn. rewrite section_shape, m_Cat, m_Chr. cbn [suf].
  rewrite chr_ok_points, mem_single. replace (N.eqb 91 91) with true by reflexivity.
  unfold advance. cbn [pre suf pos caps]. rewrite m_Cat, m_Grp. cbn [pos].
  set (K := fun s' : st => (fun s'0 : st => m (Chr false (points [93%N])) s'0 k0)
                             (set_cap 1 (S p, pos s') s')).
  assert (Hcls : forallb (chr_ok true (points [10%N])) name = true).
  { apply no_chars_class. eapply no_chars_weaken; [|exact Hn]. intros c Hc.
    rewrite mem_single in Hc. apply N.eqb_eq in Hc. subst c. reflexivity. }
  assert (Hend : K (fwd (length name) (mkst (91%N :: pr) (name ++ 93%N :: X) (S p) [])) =
                 Done (mkst (93%N :: rev name ++ 91%N :: pr) X (S (S p + length name))
                            [(1, (S p, S p + length name))])).
  { unfold K. rewrite fwd_app. unfold set_cap. cbn [pre suf pos caps]. rewrite m_Chr. cbn [suf].
    rewrite chr_ok_points, mem_single. replace (N.eqb 93 93) with true by reflexivity.
    unfold advance. cbn [pre suf pos caps]. rewrite k0_done. reflexivity. }
  rewrite (m_rep_class_lazy true (points [10%N]) (length name)).
  - fold K. rewrite Hend. eexists. split; [reflexivity|]. cbn [pos caps]. split; [lia|].
    replace (S p) with (p + 1) by lia. reflexivity.
  - cbn [suf]. apply run_ge_prefix. exact Hcls.
  - intros i Hi. fold K. unfold K. rewrite fwd_mkst_caps by (rewrite app_length; lia).
    unfold set_cap. cbn [pre suf pos caps].
    destruct (skipn i (name ++ 93%N :: X)) as [|c' t'] eqn:Es.
    + apply (f_equal (@length N)) in Es. rewrite skipn_length, app_length in Es. simpl in Es. lia.
    + rewrite m_Chr. cbn [suf]. rewrite chr_ok_points, mem_single.
      assert (Hin : In c' name) by (eapply skipn_head_in; [exact Hi|exact Es]).
      pose proof (no_chars_in _ _ _ Hn Hin) as Hm. unfold mem in Hm. cbn [existsb] in Hm.
      apply orb_false_iff in Hm. destruct Hm as [_ Hm]. apply orb_false_iff in Hm.
      destruct Hm as [Hm _]. rewrite Hm. reflexivity.
  - fold K. rewrite Hend. discriminate.
Qed.

Lemma omatch_section : forall (a : str) name X, no_chars [10; 93]%N name = true ->
  omatch rx_ini_section (a ++ 91%N :: name ++ 93%N :: X) (length a) =
  Some (mkres (length a) (length a + S (length name) + 1)
              [(1, (length a + 1, length a + 1 + length name))]).
Proof.
  intros a name X Hn. destruct (section_match name X (rev a) (length a) Hn) as [s' [E1 [E2 E3]]].
  rewrite omatch_split, run_at_k0, E1, E2, E3. reflexivity.
Qed.

Lemma omatch_section_none : forall (a X : str), head_is (fun c => N.eqb c 91) X = false ->
  omatch rx_ini_section (a ++ X) (length a) = None.
Proof.
  intros a X H. rewrite omatch_split, run_at_k0, section_shape, m_Cat, m_Chr. cbn [suf].
  destruct X as [|c X]; [reflexivity|]. cbn [head_is] in H.
  rewrite chr_ok_points, mem_single, H. reflexivity.
Qed.

(* key=value *)
Lemma ikey_shape : rx_ini_key =
  Cat (Grp 1 (Rep false 1 None (Chr true (points [10%N]))))
      (Cat (Chr false (points [61%N])) (Grp 2 (Rep true 0 None (Chr true (points [10%N]))))).
Proof. reflexivity. Qed.

Definition tail_nl (T : str) : Prop := T = [] \/ exists X, T = 10%N :: X.

Lemma tail_nl_head : forall T, tail_nl T -> head_is (chr_ok true (points [10%N])) T = false.
Proof.
  intros T [->|[X ->]]; [reflexivity|]. cbn [head_is]. rewrite nl_not_ok. reflexivity.
Qed.

Lemma ikey_match : forall c0 ktl val T pr p,
  no_chars [10; 61]%N (c0 :: ktl) = true -> no_nl val = true -> tail_nl T ->
  exists s', m rx_ini_key (mkst pr (c0 :: ktl ++ 61%N :: val ++ T) p []) k0 = Done s' /\
    pos s' = p + S (length ktl) + 1 + length val /\
    caps s' = [(2, (p + S (length ktl) + 1, p + S (length ktl) + 1 + length val));
               (1, (p, p + S (length ktl)))].
Proof.
  intros c0 ktl val T pr p Hk Hv HT.
  assert (Hk10 : no_chars [10%N] (c0 :: ktl) = true).
  { eapply no_chars_weaken; [|exact Hk]. intros c Hc. rewrite mem_single in Hc.
    apply N.eqb_eq in Hc. subst c. reflexivity. }
  pose proof (no_chars_class _ _ Hk10) as Hcls. cbn [forallb] in Hcls.
  apply andb_true_iff in Hcls. destruct Hcls as [Hc0 Hcl].
  rewrite ikey_shape, m_Cat, m_Grp. cbn [pos].
  set (K := fun s' : st => (fun s'0 : st =>
               m (Cat (Chr false (points [61%N])) (Grp 2 (Rep true 0 None (Chr true (points [10%N])))))
                 s'0 k0) (set_cap 1 (p, pos s') s')).
  rewrite (m_rep_lazy1 true (points [10%N]) (mkst pr (c0 :: ktl ++ 61%N :: val ++ T) p []) _ c0
             (ktl ++ 61%N :: val ++ T) eq_refl Hc0).
  fold K. unfold advance. cbn [pre suf pos caps].
  assert (Hrv : run true (points [10%N]) None (val ++ T) = length val).
  { apply run_exact_gen; [apply no_nl_class; exact Hv|apply tail_nl_head; exact HT]. }
  assert (Hend : K (fwd (length ktl) (mkst (c0 :: pr) (ktl ++ 61%N :: val ++ T) (S p) [])) =
    Done (mkst (rev val ++ 61%N :: rev ktl ++ c0 :: pr) T (S (S p + length ktl) + length val)
               [(2, (S (S p + length ktl), S (S p + length ktl) + length val));
                (1, (p, S p + length ktl))])).
  { unfold K. rewrite fwd_app. unfold set_cap. cbn [pre suf pos caps].
    rewrite m_Cat, m_Chr. cbn [suf]. rewrite chr_ok_points, mem_single.
    replace (N.eqb 61 61) with true by reflexivity. unfold advance. cbn [pre suf pos caps].
    rewrite m_Grp. cbn [pos].
    rewrite (m_rep_class true (points [10%N]) 0 None);
      [| intros s'; rewrite k0_done; discriminate | exact I].
    cbn [suf]. rewrite Hrv. replace (0 <=? length val) with true by reflexivity.
    rewrite fwd_app, k0_done. unfold set_cap. cbn [pre suf pos caps]. reflexivity. }
  rewrite (rep_class_lazy_ge true (points [10%N]) 1 (length ktl)).
  - rewrite Hend. eexists. split; [reflexivity|]. cbn [pos caps]. split; [lia|].
    replace (S (S p + length ktl)) with (p + S (length ktl) + 1) by lia.
    replace (S p + length ktl) with (p + S (length ktl)) by lia. reflexivity.
  - lia.
  - cbn [suf]. apply run_ge_prefix. exact Hcl.
  - rewrite app_length. simpl. lia.
  - intros i Hi. unfold K. rewrite fwd_mkst_caps by (rewrite app_length; lia).
    unfold set_cap. cbn [pre suf pos caps].
    destruct (skipn i (ktl ++ 61%N :: val ++ T)) as [|c' t'] eqn:Es.
    + apply (f_equal (@length N)) in Es. rewrite skipn_length, app_length in Es. simpl in Es. lia.
    + rewrite m_Cat, m_Chr. cbn [suf]. rewrite chr_ok_points, mem_single.
      assert (Hin : In c' (c0 :: ktl)) by (right; eapply skipn_head_in; [exact Hi|exact Es]).
      pose proof (no_chars_in _ _ _ Hk Hin) as Hm. unfold mem in Hm. cbn [existsb] in Hm.
      apply orb_false_iff in Hm. destruct Hm as [_ Hm]. apply orb_false_iff in Hm.
      destruct Hm as [Hm _]. rewrite Hm. reflexivity.
  - rewrite Hend. discriminate.
Qed.

Lemma omatch_ikey : forall (a : str) c0 ktl val T,
  no_chars [10; 61]%N (c0 :: ktl) = true -> no_nl val = true -> tail_nl T ->
  omatch rx_ini_key (a ++ c0 :: ktl ++ 61%N :: val ++ T) (length a) =
  Some (mkres (length a) (length a + S (length ktl) + 1 + length val)
          [(2, (length a + S (length ktl) + 1, length a + S (length ktl) + 1 + length val));
           (1, (length a, length a + S (length ktl)))]).
Proof.
  intros a c0 ktl val T Hk Hv HT.
  destruct (ikey_match c0 ktl val T (rev a) (length a) Hk Hv HT) as [s' [E1 [E2 E3]]].
  rewrite omatch_split, run_at_k0, E1, E2, E3. reflexivity.
Qed.

(* no "=" before the end of the line: the key expression does not match *)
Lemma omatch_ikey_none : forall (a l T : str),
  no_chars [10; 61]%N l = true -> tail_nl T ->
  omatch rx_ini_key (a ++ l ++ T) (length a) = None.
Proof.
  intros a l T Hl HT. rewrite omatch_split, run_at_k0, ikey_shape, m_Cat, m_Grp. cbn [pos].
  assert (Hl10 : no_chars [10%N] l = true).
  { eapply no_chars_weaken; [|exact Hl]. intros c Hc. rewrite mem_single in Hc.
    apply N.eqb_eq in Hc. subst c. reflexivity. }
  pose proof (no_chars_class _ _ Hl10) as Hcls.
  destruct l as [|c0 l'].
  - simpl app. rewrite m_rep_lazy1_fail; [reflexivity|]. cbn [suf]. apply tail_nl_head. exact HT.
  - cbn [forallb] in Hcls. apply andb_true_iff in Hcls. destruct Hcls as [Hc0 Hcl].
    simpl app.
    rewrite (m_rep_lazy1 true (points [10%N]) (mkst (rev a) (c0 :: l' ++ T) (length a) []) _ c0
               (l' ++ T) eq_refl Hc0).
    unfold advance. cbn [pre suf pos caps].
    assert (Hr : run true (points [10%N]) None (l' ++ T) = length l')
      by (apply run_exact_gen; [exact Hcl|apply tail_nl_head; exact HT]).
    rewrite rep_class_lazy_fail; [reflexivity|lia|cbn [suf]; lia|].
    cbn [suf]. rewrite Hr. intros i Hi.
    rewrite fwd_mkst_caps by (rewrite app_length; lia). unfold set_cap. cbn [pre suf pos caps].
    rewrite m_Cat, m_Chr. cbn [suf].
    destruct (skipn i (l' ++ T)) as [|c' t'] eqn:Es; [reflexivity|].
    rewrite chr_ok_points, mem_single.
    destruct (Nat.eq_dec i (length l')) as [->|Hne].
    + rewrite skipn_app_length in Es. destruct HT as [->|[X ->]]; [discriminate|].
      inversion Es; subst. reflexivity.
    + assert (Hin : In c' (c0 :: l')) by (right; eapply skipn_head_in; [|exact Es]; lia).
      pose proof (no_chars_in _ _ _ Hl Hin) as Hm. unfold mem in Hm. cbn [existsb] in Hm.
      apply orb_false_iff in Hm. destruct Hm as [_ Hm]. apply orb_false_iff in Hm.
      destruct Hm as [Hm _]. rewrite Hm. reflexivity.
Qed.
