(* ini: entries of a legal block list (C02BlocksIni.v) as merge.py / serializer.py see them,
   and back: a well-shaped entry list (every entity, section header and standalone comment
   directly followed by a whitespace entry that starts and ends with a line break, two line
   breaks after a comment) whose entries are texts of legal block parts is the text of a
   legal block list — so the block theorem of C02 (blocks_ini) gives the re-parse. *)
From Coq Require Import ZArith NArith List Bool Arith Lia.
From CL Require Import Base.Sx Base.Res Base.Str Model.Entry Model.Parse Model.ParseFormats
                       Proofs.C02Roundtrip Proofs.C02BlocksRx Proofs.C02BlocksIniRx Proofs.C02BlocksIni
                       Model.Channels Proofs.ChannelsProofs Proofs.MergeShapeKeys Proofs.MergeShape
                       Proofs.SerializerProofs.
From CL Require Proofs.C02Blocks Proofs.PropsShape Proofs.MergeReparse15.
Import ListNotations.
Local Open Scope nat_scope.
Local Notation mem := C02Roundtrip.mem.
Local Arguments ctext : simpl never.

Local Notation ws_centry := PropsShape.ws_centry.
Local Notation cflush := PropsShape.cflush.
Local Notation strip_fields := PropsShape.strip_fields.

Definition ient_text (cs : list cline) (key val : str) : str := ctext cs ++ key ++ 61%N :: val.
Definition ient_centry cs key val : centry := mkc CEntity key (ient_text cs key val) val 0.
Definition icom_centry (cs : list cline) : centry :=
  mkc CComment (comment_val (COffset 1) (cbody cs)) (cbody cs) [] 0.
Definition isec_text (name : str) : str := 91%N :: name ++ [93%N].
Definition isec_centry (name : str) : centry := mkc CSection name (isec_text name) [] 0.

(* [w]: the whitespace pending (the line break that ended the previous line and the blank
   blocks since): it becomes ONE whitespace entry *)
Fixpoint icents (w : str) (bs : list iblock) : list centry :=
  match bs with
  | [] => cflush w
  | IBlank x :: rest => icents (w ++ x) rest
  | IComment cs :: rest => cflush w ++ icom_centry cs :: icents [10%N] rest
  | ISection name nl :: rest => cflush w ++ isec_centry name :: icents (eol nl) rest
  | IEntity cs key val nl :: rest => cflush w ++ ient_centry cs key val :: icents (eol nl) rest
  end.
Definition icentries_of (bs : list iblock) : list centry := icents [] bs.

Lemma icents_text bs : Forall legal_iblock bs ->
  forall w, concat (map c_text (icents w bs)) = w ++ ifile_text bs.
Proof.
  induction 1 as [|b rest Hb _ IH]; intros w; cbn [icents].
  - rewrite PropsShape.cflush_text. cbn. rewrite app_nil_r. reflexivity.
  - rewrite ifile_text_cons. destruct b as [x|cs|name nl|cs key val nl].
    + rewrite IH. cbn [itext]. rewrite app_assoc. reflexivity.
    + rewrite map_app, concat_app, PropsShape.cflush_text. cbn [map concat c_text icom_centry]. rewrite IH.
      cbn [itext]. unfold legal_iblock in Hb. cbn in Hb. destruct cs as [|c cs']; [discriminate|].
      rewrite (ctext_body (c :: cs')) by discriminate. rewrite <- !app_assoc. reflexivity.
    + rewrite map_app, concat_app, PropsShape.cflush_text. cbn [map concat c_text isec_centry]. rewrite IH.
      cbn [itext]. unfold isec_text. cbn [app]. rewrite <- !app_assoc. reflexivity.
    + rewrite map_app, concat_app, PropsShape.cflush_text. cbn [map concat c_text ient_centry]. rewrite IH.
      cbn [itext]. unfold ient_text. rewrite <- !app_assoc. cbn [app]. rewrite <- !app_assoc. reflexivity.
Qed.

Theorem icentries_text bs : Forall legal_iblock bs ->
  concat (map c_text (icentries_of bs)) = ifile_text bs.
Proof. intros H. apply (icents_text bs H []). Qed.

(* the names of the section headers *)
Definition csecs (l : list centry) : list str := map c_key (filter is_section l).

Definition ibrecs (bs : list iblock) : list (str * str) :=
  map (fun r => (fst (fst r), snd (fst r))) (irecords_of bs).

Definition ilic_free (b : iblock) : Prop :=
  match b with IEntity cs _ _ _ => PropsShape.license_free cs | _ => True end.

Lemma ilic_any bs : Forall ilic_free bs -> forall off, ilic off bs = true.
Proof.
  induction 1 as [|b bs Hb _ IH]; intros off; [reflexivity|].
  destruct b as [x|cs|name nl|cs key val nl]; cbn [ilic]; try reflexivity; [apply IH|].
  unfold ilic_free, PropsShape.license_free in Hb. rewrite Hb. apply orb_true_r.
Qed.

Section Dec.
Variable m : nat.

Inductive idec : centry -> Prop :=
| idec_ent e cs key val :
    legal_iblockb (IEntity cs key val true) = true -> PropsShape.license_free cs ->
    strip e = strip (ient_centry cs key val) -> idec e
| idec_com e cs :
    cs <> [] -> forallb (legal_cline_m CMI) cs = true -> strip e = strip (icom_centry cs) -> idec e
| idec_sec e name :
    no_chars [10; 93; 61]%N name = true -> strip e = strip (isec_centry name) -> idec e
| idec_ws e w' :
    strip e = strip (ws_centry (10%N :: w')) -> forallb (fun c => mem c WS) w' = true ->
    last (10%N :: w') 0%N = 10%N ->
    (m <= length (c_text e) -> mem 10%N w' = true) -> idec e.

Lemma idec_strip e e' : strip e = strip e' -> idec e -> idec e'.
Proof.
  intros Hs H. destruct H as [e cs key val H1 H2 H3|e cs H1 H2 H3|e name H1 H2|e w' H1 H2 H3 H4].
  - eapply idec_ent; eauto. congruence.
  - eapply idec_com; eauto. congruence.
  - eapply idec_sec; eauto. congruence.
  - apply (idec_ws e' w'); [congruence|exact H2|exact H3|].
    destruct (strip_fields _ _ Hs) as (_ & _ & K3 & _). rewrite <- K3. exact H4.
Qed.

Lemma idec_white e : idec e -> is_white e = true ->
  exists w', strip e = strip (ws_centry (10%N :: w')) /\ forallb (fun c => mem c WS) w' = true /\
             last (10%N :: w') 0%N = 10%N /\ (m <= length (c_text e) -> mem 10%N w' = true).
Proof.
  intros H Hw. destruct H as [e cs key val _ _ Q|e cs _ _ Q|e name _ Q|e w' H1 H2 H3 H4].
  - apply strip_fields in Q. unfold is_white in Hw. destruct Q as [Q _]. cbn in Q. rewrite Q in Hw. discriminate.
  - apply strip_fields in Q. unfold is_white in Hw. destruct Q as [Q _]. cbn in Q. rewrite Q in Hw. discriminate.
  - apply strip_fields in Q. unfold is_white in Hw. destruct Q as [Q _]. cbn in Q. rewrite Q in Hw. discriminate.
  - exists w'. auto.
Qed.

Lemma last_tail (c : N) w' : w' <> [] -> last (c :: w') 0%N = last w' 0%N.
Proof. destruct w'; [contradiction|reflexivity]. Qed.

(* the blocks for a whitespace entry  newline w'  whose newline belongs to the block before *)
Definition opt_blank (w' : str) (bs : list iblock) : list iblock :=
  match w' with [] => bs | _ :: _ => IBlank w' :: bs end.

Lemma opt_blank_legal w' bs : forallb (fun c => mem c WS) w' = true ->
  Forall legal_iblock bs -> Forall legal_iblock (opt_blank w' bs).
Proof.
  intros Hw Hb. destruct w' as [|c t]; [exact Hb|]. constructor; [|exact Hb].
  unfold legal_iblock, legal_iblockb. rewrite Hw. reflexivity.
Qed.

Lemma opt_blank_sep w' bs : last (10%N :: w') 0%N = 10%N -> isep true bs = true ->
  isep true (opt_blank w' bs) = true.
Proof.
  intros Hl Hb. destruct w' as [|c t]; [exact Hb|]. cbn [opt_blank isep].
  rewrite last_tail in Hl by discriminate. rewrite Hl. exact Hb.
Qed.

Lemma opt_blank_text w' bs : ifile_text (opt_blank w' bs) = w' ++ ifile_text bs.
Proof. destruct w'; [reflexivity|]. cbn [opt_blank]. rewrite ifile_text_cons. reflexivity. Qed.

Lemma opt_blank_recs w' bs : irecords_of (opt_blank w' bs) = irecords_of bs.
Proof. destruct w'; reflexivity. Qed.
Lemma opt_blank_coms w' bs : icomments_of (opt_blank w' bs) = icomments_of bs.
Proof. destruct w'; reflexivity. Qed.
Lemma opt_blank_secs w' bs : isections_of (opt_blank w' bs) = isections_of bs.
Proof. destruct w'; reflexivity. Qed.
Lemma opt_blank_lic w' bs : Forall ilic_free bs -> Forall ilic_free (opt_blank w' bs).
Proof. destruct w'; [auto|]. intros H. constructor; [exact I|exact H]. Qed.

(* the reconstruction *)
Lemma ishape_blocks out : nf m out -> Forall idec out ->
  exists bs, Forall legal_iblock bs /\ isep true bs = true /\ Forall ilic_free bs /\
             ifile_text bs = concat (map c_text out) /\ ibrecs bs = PropsShape.krecs out /\
             icomments_of bs = PropsShape.ccoms out /\ isections_of bs = csecs out /\
             (forall w0 t, out = w0 :: t -> is_white w0 = true -> exists bs', bs = IBlank (c_text w0) :: bs').
Proof.
  induction out as [|x out IH]; intros Hnf Hdec.
  - exists []. repeat split; try constructor. intros w0 t H; discriminate.
  - destruct Hnf as [Hn1 Hn2]. pose proof (Forall_inv Hdec) as Hx. pose proof (Forall_inv_tail Hdec) as Hdec'.
    destruct (IH Hn2 Hdec') as (bs & B1 & B2 & B3 & B4 & B5 & B6 & B7 & B8).
    (* what follows an entry that is no whitespace *)
    assert (Next : is_white x = false ->
              exists w out' bs' w', out = w :: out' /\ bs = IBlank (10%N :: w') :: bs' /\
                c_text w = 10%N :: w' /\ c_kind w = CWhite /\
                forallb (fun c => mem c WS) w' = true /\ last (10%N :: w') 0%N = 10%N /\
                (cneed m x <= length (c_text w) -> m <= length (c_text w) -> mem 10%N w' = true)).
    { intros Hw. specialize (Hn1 Hw). destruct out as [|w out']; [contradiction|]. destruct Hn1 as [Hww Hneed].
      destruct (B8 w out' eq_refl Hww) as (bs' & Ebs).
      destruct (idec_white w (Forall_inv Hdec') Hww) as (w' & Q & Q2 & Q3 & Q4).
      destruct (strip_fields _ _ Q) as (T1 & _ & T3 & _). cbn in T1, T3.
      rewrite T3 in Ebs. exists w, out', bs', w'. repeat split; auto. }
    destruct Hx as [e cs key val L1 L2 L3|e cs C1 C2 C3|e name S1 S2|e w' W0 W1 W2 W3].
    + destruct (strip_fields _ _ L3) as (K1 & K2 & K3 & K4). cbn in K1, K2, K3, K4.
      assert (Hw : is_white e = false) by (unfold is_white; rewrite K1; reflexivity).
      destruct (Next Hw) as (w & out' & bs' & w' & -> & -> & T3 & T1 & Q2 & Q3 & _).
      exists (IEntity cs key val true :: opt_blank w' bs'). repeat split.
      * constructor; [exact L1|]. apply opt_blank_legal; [exact Q2|exact (Forall_inv_tail B1)].
      * cbn [isep orb andb]. rewrite orb_true_r. cbn [andb]. apply opt_blank_sep; [exact Q3|].
        cbn [isep] in B2. rewrite Q3 in B2. exact B2.
      * constructor; [exact L2|]. apply opt_blank_lic. exact (Forall_inv_tail B3).
      * rewrite ifile_text_cons, opt_blank_text. cbn [map concat itext eol]. rewrite K3, T3.
        rewrite ifile_text_cons in B4. cbn [map concat itext] in B4. rewrite T3 in B4.
        apply app_inv_head in B4. rewrite <- B4. unfold ient_text.
        rewrite <- !app_assoc. cbn [app]. rewrite <- !app_assoc. reflexivity.
      * unfold ibrecs, PropsShape.krecs. cbn [irecords_of map flat_map fst snd]. unfold PropsShape.krec at 1 2.
        rewrite K1, T1. cbn [app]. rewrite K2, K4. f_equal. rewrite opt_blank_recs.
        unfold ibrecs, PropsShape.krecs in B5. cbn [irecords_of flat_map] in B5. unfold PropsShape.krec at 1 in B5.
        rewrite T1 in B5. exact B5.
      * unfold PropsShape.ccoms. cbn [filter icomments_of]. rewrite opt_blank_coms.
        assert (is_comment e = false) as -> by (unfold is_comment; rewrite K1; reflexivity).
        assert (is_comment w = false) as Ew by (unfold is_comment; rewrite T1; reflexivity).
        rewrite Ew. unfold PropsShape.ccoms in B6. cbn [filter icomments_of] in B6. rewrite Ew in B6. exact B6.
      * unfold csecs. cbn [filter isections_of]. rewrite opt_blank_secs.
        assert (is_section e = false) as -> by (unfold is_section; rewrite K1; reflexivity).
        assert (is_section w = false) as Ew by (unfold is_section; rewrite T1; reflexivity).
        rewrite Ew. unfold csecs in B7. cbn [filter isections_of] in B7. rewrite Ew in B7. exact B7.
      * intros w1 t H Hw1. apply MergeReparse15.cons_inv in H. destruct H as [<- _]. congruence.
    + destruct (strip_fields _ _ C3) as (K1 & K2 & K3 & K4). cbn in K1, K2, K3, K4.
      assert (Hw : is_white e = false) by (unfold is_white; rewrite K1; reflexivity).
      destruct (Next Hw) as (w & out' & bs' & w' & -> & -> & T3 & T1 & Q2 & Q3 & Q4).
      assert (Hnl : mem 10%N w' = true).
      { destruct Hn1 as [_ Hneed]; [exact Hw|]. apply Q4; [exact Hneed|].
        unfold cneed, is_comment, clen in Hneed. rewrite K1 in Hneed. exact Hneed. }
      assert (Hne : w' <> []) by (intros ->; discriminate).
      exists (IComment cs :: IBlank w' :: bs'). repeat split.
      * constructor; [unfold legal_iblock; cbn; rewrite C2; destruct cs; [contradiction|reflexivity]|].
        constructor; [|exact (Forall_inv_tail B1)]. unfold legal_iblock, legal_iblockb. rewrite Q2.
        destruct w'; [contradiction|reflexivity].
      * cbn [isep andb]. rewrite Hnl. cbn [andb]. rewrite last_tail in Q3 by exact Hne. rewrite Q3.
        cbn [isep] in B2. rewrite last_tail in B2 by exact Hne. rewrite Q3 in B2. exact B2.
      * constructor; [exact I|]. constructor; [exact I|]. exact (Forall_inv_tail B3).
      * rewrite !ifile_text_cons. cbn [map concat itext]. rewrite K3, T3.
        rewrite ifile_text_cons in B4. cbn [map concat itext] in B4. rewrite T3 in B4.
        apply app_inv_head in B4. rewrite <- B4. rewrite (ctext_body cs C1).
        rewrite <- !app_assoc. reflexivity.
      * unfold ibrecs, PropsShape.krecs. cbn [irecords_of map flat_map]. unfold PropsShape.krec at 1 2.
        rewrite K1, T1. cbn [app].
        unfold ibrecs, PropsShape.krecs in B5. cbn [irecords_of flat_map] in B5. unfold PropsShape.krec at 1 in B5.
        rewrite T1 in B5. exact B5.
      * unfold PropsShape.ccoms. cbn [filter icomments_of].
        assert (is_comment e = true) as -> by (unfold is_comment; rewrite K1; reflexivity).
        assert (is_comment w = false) as Ew by (unfold is_comment; rewrite T1; reflexivity).
        rewrite Ew. cbn [map]. rewrite K3. f_equal.
        unfold PropsShape.ccoms in B6. cbn [filter icomments_of] in B6. rewrite Ew in B6. exact B6.
      * unfold csecs. cbn [filter isections_of].
        assert (is_section e = false) as -> by (unfold is_section; rewrite K1; reflexivity).
        assert (is_section w = false) as Ew by (unfold is_section; rewrite T1; reflexivity).
        rewrite Ew. unfold csecs in B7. cbn [filter isections_of] in B7. rewrite Ew in B7. exact B7.
      * intros w1 t H Hw1. apply MergeReparse15.cons_inv in H. destruct H as [<- _]. congruence.
    + destruct (strip_fields _ _ S2) as (K1 & K2 & K3 & K4). cbn in K1, K2, K3, K4.
      assert (Hw : is_white e = false) by (unfold is_white; rewrite K1; reflexivity).
      destruct (Next Hw) as (w & out' & bs' & w' & -> & -> & T3 & T1 & Q2 & Q3 & _).
      exists (ISection name true :: opt_blank w' bs'). repeat split.
      * constructor; [exact S1|]. apply opt_blank_legal; [exact Q2|exact (Forall_inv_tail B1)].
      * cbn [isep orb andb]. apply opt_blank_sep; [exact Q3|].
        cbn [isep] in B2. rewrite Q3 in B2. exact B2.
      * constructor; [exact I|]. apply opt_blank_lic. exact (Forall_inv_tail B3).
      * rewrite ifile_text_cons, opt_blank_text. cbn [map concat itext eol]. rewrite K3, T3.
        rewrite ifile_text_cons in B4. cbn [map concat itext] in B4. rewrite T3 in B4.
        apply app_inv_head in B4. rewrite <- B4. unfold isec_text. cbn [app].
        rewrite <- !app_assoc. reflexivity.
      * unfold ibrecs, PropsShape.krecs. cbn [irecords_of map flat_map]. unfold PropsShape.krec at 1 2.
        rewrite K1, T1. cbn [app]. rewrite opt_blank_recs.
        unfold ibrecs, PropsShape.krecs in B5. cbn [irecords_of flat_map] in B5. unfold PropsShape.krec at 1 in B5.
        rewrite T1 in B5. exact B5.
      * unfold PropsShape.ccoms. cbn [filter icomments_of]. rewrite opt_blank_coms.
        assert (is_comment e = false) as -> by (unfold is_comment; rewrite K1; reflexivity).
        assert (is_comment w = false) as Ew by (unfold is_comment; rewrite T1; reflexivity).
        rewrite Ew. unfold PropsShape.ccoms in B6. cbn [filter icomments_of] in B6. rewrite Ew in B6. exact B6.
      * unfold csecs. cbn [filter isections_of]. rewrite opt_blank_secs.
        assert (is_section e = true) as -> by (unfold is_section; rewrite K1; reflexivity).
        assert (is_section w = false) as Ew by (unfold is_section; rewrite T1; reflexivity).
        rewrite Ew. cbn [map]. rewrite K2. f_equal.
        unfold csecs in B7. cbn [filter isections_of] in B7. rewrite Ew in B7. exact B7.
      * intros w1 t H Hw1. apply MergeReparse15.cons_inv in H. destruct H as [<- _]. congruence.
    + destruct (strip_fields _ _ W0) as (K1 & K2 & K3 & K4). cbn in K1, K2, K3, K4.
      exists (IBlank (c_text e) :: bs). repeat split.
      * constructor; [|exact B1]. unfold legal_iblock. rewrite K3. cbn [legal_iblockb is_nil negb forallb].
        rewrite W1. reflexivity.
      * cbn [isep]. rewrite K3, W2. exact B2.
      * constructor; [exact I|exact B3].
      * rewrite ifile_text_cons. cbn [map concat itext]. rewrite B4. reflexivity.
      * unfold ibrecs, PropsShape.krecs. cbn [irecords_of flat_map]. unfold PropsShape.krec at 1. rewrite K1. cbn [app]. exact B5.
      * unfold PropsShape.ccoms. cbn [filter icomments_of].
        assert (is_comment e = false) as -> by (unfold is_comment; rewrite K1; reflexivity). exact B6.
      * unfold csecs. cbn [filter isections_of].
        assert (is_section e = false) as -> by (unfold is_section; rewrite K1; reflexivity). exact B7.
      * intros w1 t H _. apply MergeReparse15.cons_inv in H. destruct H as [<- _]. eauto.
Qed.

(* the re-parse of a well-shaped entry list: no junk; the entities, the standalone comments
   and the section headers are those of the list, in order *)
Theorem ishape_reparse out : nf m out -> Forall idec out ->
  exists es, walk_ini (concat (map c_text out)) = Ok es /\
    map (fun e => let r := entity_record (concat (map c_text out)) e in (fst (fst r), snd (fst r)))
        (filter (is_kind KEntity) es) = PropsShape.krecs out /\
    map (fun e => span_text (concat (map c_text out)) (e_span e))
        (filter (is_kind KComment) es) = PropsShape.ccoms out /\
    map (fun e => opt_text (concat (map c_text out)) (e_val e))
        (filter (is_kind KSection) es) = csecs out /\
    filter (is_kind KJunk) es = [].
Proof.
  intros H1 H3. destruct (ishape_blocks out H1 H3) as (bs & B1 & B2 & B3 & B4 & B5 & B6 & B7 & _).
  assert (Ha : iadjacent_ok bs).
  { unfold iadjacent_ok, iadjacent_okb. rewrite B2, (ilic_any bs B3 0). reflexivity. }
  destruct (roundtrip_ini_multi bs B1 Ha) as (es & E1 & E2 & E3 & E4 & E5).
  rewrite B4 in E1, E2, E3, E4. exists es. split; [exact E1|]. split; [|split; [|split; [|exact E5]]].
  - rewrite <- B5. unfold ibrecs. rewrite <- E2, map_map. reflexivity.
  - rewrite <- B6. exact E3.
  - rewrite <- B7. exact E4.
Qed.
End Dec.
