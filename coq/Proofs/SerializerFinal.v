(* The clauses of C16 over serialize_entries, assembled from Proofs/SerializerSpec.v. *)
From Coq Require Import ZArith NArith List Bool Arith Lia.
From CL Require Import Base.Sx Base.Res Base.Str Model.AddRemove Model.Channels
                       Proofs.ChannelsProofs Proofs.ChannelsSpec Model.Serializer
                       Proofs.SerializerProofs Proofs.SerializerSpec.
Import ListNotations.
Local Open Scope nat_scope.

Definition nj (l : list centry) : list centry := filter (fun e => negb (is_junk e)) l.

(* what serialize needs of Entity.wrap: a non-placeholder entity with the reference key *)
Definition wrap_ok (wrap : centry -> str -> result centry) : Prop :=
  forall r raw e, wrap r raw = Ok e -> c_kind e = CEntity /\ c_key e = c_key r.

Lemma apply_wrap_ok contents w key raw e : apply_wrap contents w key raw = Ok e ->
  c_kind e = CEntity /\ c_key e = key /\ c_val e = raw.
Proof.
  unfold apply_wrap, literal. destruct w as [sp [v|] pre|c|t].
  - intros H; inversion H; subst; auto.
  - discriminate.
  - intros H; inversion H; subst; auto.
  - destruct (od_get str_eqb raw t); [|discriminate]. intros H; inversion H; subst; auto.
Qed.

Lemma wrap_by_id_ok contents tbl : wrap_ok (wrap_by_id contents tbl).
Proof.
  intros r raw e. unfold wrap_by_id. destruct (od_get Nat.eqb (c_id r) tbl); [|discriminate].
  intros H. apply apply_wrap_ok in H. tauto.
Qed.

Section Final.
Variable wrap : centry -> str -> result centry.
Variables (reference old : list centry) (nd : new_data_t).
Hypothesis Href : uniq (nj reference).
Hypothesis Hold : uniq (nj old).
Hypothesis Hnd : NoDup (map fst nd).
Hypothesis Hwrap : wrap_ok wrap.

Lemma serialize_entries_inv out : serialize_entries wrap reference old nd = Ok out ->
  exists NL, new_entities wrap (ref_mapping reference) nd = Ok NL /\
             out = prune_placeholders (dvalues (M reference old nd NL)).
Proof.
  unfold serialize_entries. intros H.
  destruct (new_entities wrap (ref_mapping reference) nd) as [NL|] eqn:En; cbn in H; [|discriminate].
  inversion H; subst; clear H. exists NL. split; [reflexivity|].
  rewrite (OL_eq reference old nd Href). reflexivity.
Qed.

Theorem entities_keys_thm out : serialize_entries wrap reference old nd = Ok out ->
  map c_key (filter is_cent out) = filter (has_value old nd) (refkeys reference).
Proof.
  intros H. destruct (serialize_entries_inv out H) as (NL & HNL & ->).
  rewrite (entities_eq wrap reference old nd Href Hold Hnd Hwrap NL HNL).
  rewrite (entities_keys wrap reference old nd Hwrap NL HNL).
  apply filter_ext_in. intros s Hs.
  apply (has_value_spec wrap reference old nd Href Hnd Hwrap NL HNL s Hs).
Qed.

Theorem entities_values_thm out : serialize_entries wrap reference old nd = Ok out ->
  forall e, In e out -> is_cent e = true ->
  In (c_key e) (refkeys reference) /\
  match od_get str_eqb (c_key e) nd with
  | Some (Some raw) => exists r, od_get str_eqb (c_key e) (ref_mapping reference) = Some r /\
                                 wrap r raw = Ok e
  | Some None => False
  | None => old_cent old (c_key e) = Some e
  end.
Proof.
  intros H e He Hc. destruct (serialize_entries_inv out H) as (NL & HNL & ->).
  assert (Hin : In e (filter is_cent (prune_placeholders (dvalues (M reference old nd NL)))))
    by (apply filter_In; auto).
  rewrite (entities_eq wrap reference old nd Href Hold Hnd Hwrap NL HNL) in Hin.
  apply in_flat_map in Hin. destruct Hin as [s [Hs Hv]].
  destruct (value_of old nd NL s) as [e'|] eqn:Ev; [|contradiction].
  destruct Hv as [<-|[]].
  destruct (value_of_key wrap reference old nd Hwrap NL HNL s e' Ev) as [_ Hk].
  rewrite Hk. split; [exact Hs|].
  pose proof (value_of_cases wrap reference old nd Href Hnd Hwrap NL HNL s Hs) as Hcase.
  destruct (od_get str_eqb s nd) as [[raw|]|].
  - destruct Hcase as (r & e2 & R1 & R2 & R3). exists r. split; [exact R1|]. congruence.
  - congruence.
  - congruence.
Qed.

(* the entity list as a function of the reference keys *)
Theorem entities_list_thm out : serialize_entries wrap reference old nd = Ok out ->
  exists NL, new_entities wrap (ref_mapping reference) nd = Ok NL /\
    filter is_cent out = flat_map (fun s => olist (value_of old nd NL s)) (refkeys reference).
Proof.
  intros H. destruct (serialize_entries_inv out H) as (NL & HNL & ->). exists NL. split; [exact HNL|].
  apply (entities_eq wrap reference old nd Href Hold Hnd Hwrap NL HNL).
Qed.
End Final.

(* ---- idempotence at entity level ----------------------------------------------------------------- *)
Theorem serialize_idempotent wrap reference old nd out X out2 :
  uniq (nj reference) -> uniq (nj old) -> NoDup (map fst nd) -> wrap_ok wrap ->
  serialize_entries wrap reference old nd = Ok out ->
  uniq (nj X) -> filter is_cent (nj X) = filter is_cent out ->
  serialize_entries wrap reference X [] = Ok out2 ->
  filter is_cent out2 = filter is_cent out.
Proof.
  intros Href Hold Hnd Hwrap H HX HE H2.
  destruct (entities_list_thm wrap reference old nd Href Hold Hnd Hwrap out H) as (NL & HNL & Hout).
  destruct (entities_list_thm wrap reference X [] Href HX (NoDup_nil _) Hwrap out2 H2) as (NL2 & HNL2 & Hout2).
  cbn in HNL2. inversion HNL2; subst NL2. rewrite Hout2, Hout.
  apply flat_map_ext_in. intros s Hs. f_equal.
  unfold value_of at 1. cbn [find]. unfold removed. cbn [od_get].
  rewrite Hout in HE.
  destruct (value_of old nd NL s) as [e|] eqn:Ev.
  - destruct (value_of_key wrap reference old nd Hwrap NL HNL s e Ev) as [Hc Hk].
    assert (Hin : In e (filter is_cent (nj X))).
    { rewrite HE. apply in_flat_map. exists s. split; [exact Hs|]. rewrite Ev. left; reflexivity. }
    apply filter_In in Hin. destruct Hin as [Hin _].
    unfold old_cent. fold (nj X).
    destruct (find (has_key s) (nj X)) as [o|] eqn:Eo.
    + destruct (find_has_key_some _ _ _ Eo) as (Ho & Hko & Hkey).
      assert (o = e).
      { apply (NoDup_map_inj_in c_key (filter keyed (nj X))); [apply HX| | |congruence].
        - apply filter_In. auto.
        - apply filter_In. split; [exact Hin|]. apply is_cent_entity in Hc. apply Hc. }
      subst o. rewrite Hc. reflexivity.
    + exfalso. apply (find_none _ _ Eo) in Hin. unfold has_key in Hin.
      apply is_cent_entity in Hc. destruct Hc as (_ & _ & Hc). rewrite Hc, Hk in Hin. cbn in Hin.
      assert (str_eqb s s = true) by (apply str_eqb_eq; reflexivity). congruence.
  - unfold old_cent. fold (nj X).
    destruct (find (has_key s) (nj X)) as [o|] eqn:Eo; [|reflexivity].
    destruct (is_cent o) eqn:Ec; [|reflexivity]. exfalso.
    destruct (find_has_key_some _ _ _ Eo) as (Ho & _ & Hkey).
    assert (Hin : In o (filter is_cent (nj X))) by (apply filter_In; auto).
    rewrite HE in Hin. apply in_flat_map in Hin. destruct Hin as [s' [Hs' Hv]].
    destruct (value_of old nd NL s') as [e'|] eqn:Ev'; [|contradiction].
    destruct Hv as [<-|[]].
    destruct (value_of_key wrap reference old nd Hwrap NL HNL s' e' Ev') as [_ Hk'].
    assert (s' = s) by congruence. subst s'. congruence.
Qed.
