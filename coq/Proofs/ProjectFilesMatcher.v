(* C13 end to end: the Matcher parameter of Model/ProjectFiles.v instantiated with the
   modelled Matcher of C11 / C12 (Model/Pattern.v, Model/Matcher.v), rules given as
   pattern texts, the file list given as a directory tree.  The contracts of the
   table-based theorems are discharged from C12_prefix_rooted (prefix_rooted) and
   C11_roundtrip_rooted (roundtrip_rooted). *)
From Coq Require Import ZArith NArith List Bool Arith Lia.
From CL Require Import Base.Sx Base.Res Base.Str Regex.Rx Model.Pattern Model.Matcher
  Proofs.MatcherSpec Proofs.MatcherRoundtrip Proofs.MatcherRooted.
From CL Require Import Model.ProjectFiles Model.FsTree Proofs.ProjectFilesBase
  Proofs.ProjectFilesProofs Proofs.ProjectFilesBuild Proofs.FsTreeProofs.
Import ListNotations.

(* ---- the tables, as functions of the modelled Matcher ----------------------------------- *)
(* Matcher.match(p) is not None *)
Definition e_matches (m : matcher) (p : str) : bool :=
  match match_ m p with Ok (Some _) => true | _ => false end.
(* Matcher.sub(m', p) *)
Definition e_sub (m m' : matcher) (p : str) : option str :=
  match Matcher.sub m m' p with Ok (Some q) => Some q | _ => None end.
(* Matcher.prefix *)
Definition e_prefix (m : matcher) : str :=
  match Matcher.prefix m with Ok s => s | Raise _ => [] end.
(* m.pattern == m'.pattern *)
Definition e_pat (m m' : matcher) : bool := pattern_eqb (m_pat m) (m_pat m').
(* m.with_env(kv) *)
Definition e_with_env (kv : list (str * str)) (m : matcher) : matcher :=
  match with_env m kv with Ok m' => m' | Raise _ => m end.

Lemma e_matches_true : forall m p, e_matches m p = true <-> exists d, match_ m p = Ok (Some d).
Proof.
  intros m p. unfold e_matches. destruct (match_ m p) as [[d|]|]; split; try discriminate; eauto.
  - intros [d H]. discriminate.
  - intros [d H]. discriminate.
Qed.

Lemma e_sub_some : forall m m' p q, e_sub m m' p = Some q <-> Matcher.sub m m' p = Ok (Some q).
Proof.
  intros m m' p q. unfold e_sub. destruct (Matcher.sub m m' p) as [[x|]|]; split; intro H;
    try discriminate; congruence.
Qed.

Lemma e_sub_matches : forall m m' p q, e_sub m m' p = Some q -> e_matches m p = true.
Proof.
  intros m m' p q H. apply e_sub_some in H. unfold Matcher.sub in H. unfold e_matches.
  destruct (match_ m p) as [[d|]|]; simpl in H; [reflexivity | discriminate | discriminate].
Qed.

(* ---- matchers of the grammar ----------------------------------------------------------------- *)
(* a matcher that ProjectFiles can walk from: of the (rooted) grammar of C11 / C12, its
   prefix is defined and names a place inside some directory *)
Definition walkable_matcher (m : matcher) : Prop :=
  simple_rooted m /\ exists pre, Matcher.prefix m = Ok pre /\ In SLASH pre.

Lemma in_grammar_simple_rooted : forall m, in_grammar_rooted m -> simple_rooted m.
Proof. intros m [H1 [H2 _]]. split; assumption. Qed.

(* C12_prefix_rooted: the contract "a matched path starts with the prefix" *)
Lemma e_prefix_contract : forall m p, walkable_matcher m -> e_matches m p = true ->
  starts_with (e_prefix m) p = true /\ In SLASH (e_prefix m).
Proof.
  intros m p [HS [pre [Hp Hsl]]] Hm. apply e_matches_true in Hm as [d Hm].
  unfold e_prefix. rewrite Hp. split; [eapply prefix_rooted; eassumption | exact Hsl].
Qed.

Section EndToEnd.
Variable fs : list str.

Notation files := (files e_prefix e_matches e_sub fs).
Notation excluded := (excluded e_matches e_sub).
Notation iter_locale := (iter_locale e_prefix e_matches e_sub fs).
Notation pf_match := (pf_match e_matches e_sub).
Notation osub := (osub e_sub).

(* the prefix is not itself an existing file other than p (see C13_prefix_file_refuted) *)
Definition prefix_not_a_sibling_file (m : matcher) (p : str) : Prop :=
  isfile fs (e_prefix m) = true -> p = e_prefix m.

Lemma walkable_e : forall m p, walkable_matcher m -> e_matches m p = true ->
  prefix_not_a_sibling_file m p -> walkable e_prefix fs m p.
Proof.
  intros m p Hw Hm Hf. destruct (e_prefix_contract m p Hw Hm) as [H1 H2].
  repeat split; assumption.
Qed.

(* completeness: a file that a listed matcher's pattern matches lies under that matcher's
   prefix (C12_prefix_rooted), hence is visited by the walk from the prefix, and is yielded *)
Lemma complete_e2e_l10n : forall (f : @pfiles matcher) out m p d,
  iter_locale f = POk out -> In m (pf_matchers f) -> In p fs ->
  excluded (pf_locale f) (pf_exclude f) p = false ->
  walkable_matcher (m_l10n m) -> match_ (m_l10n m) p = Ok (Some d) ->
  prefix_not_a_sibling_file (m_l10n m) p ->
  starts_with (e_prefix (m_l10n m)) p = true /\
  In p (files (pf_locale f) (pf_exclude f) (m_l10n m)) /\
  exists r mg t, In (Some p, r, mg, t) out.
Proof.
  intros f out m p d H Hm Hp Hex Hw Hmt Hf.
  assert (Hmt' : e_matches (m_l10n m) p = true) by (apply e_matches_true; eauto).
  pose proof (walkable_e _ _ Hw Hmt' Hf) as [W1 [W2 W3]].
  split; [exact W1|]. split.
  - apply files_complete; assumption.
  - eapply (iter_locale_complete_l10n e_prefix e_matches e_sub fs); eauto. repeat split; assumption.
Qed.

Lemma complete_e2e_ref : forall (f : @pfiles matcher) out m rm q d,
  iter_locale f = POk out -> In m (pf_matchers f) -> m_ref m = Some rm -> In q fs ->
  excluded (pf_locale f) (pf_exclude f) q = false ->
  walkable_matcher rm -> match_ rm q = Ok (Some d) ->
  prefix_not_a_sibling_file rm q ->
  starts_with (e_prefix rm) q = true /\
  In q (files (pf_locale f) (pf_exclude f) rm) /\
  exists r mg t, In (e_sub rm (m_l10n m) q, r, mg, t) out.
Proof.
  intros f out m rm q d H Hm Hr Hq Hex Hw Hmt Hf.
  assert (Hmt' : e_matches rm q = true) by (apply e_matches_true; eauto).
  pose proof (walkable_e _ _ Hw Hmt' Hf) as [W1 [W2 W3]].
  split; [exact W1|]. split.
  - apply files_complete; assumption.
  - eapply (iter_locale_complete_ref e_prefix e_matches e_sub fs); eauto. repeat split; assumption.
Qed.

(* C11_roundtrip_rooted on the tables: the image of a path under sub is matched by the target
   pattern and maps back *)
Lemma e_roundtrip : forall P Q p q,
  in_grammar_rooted P -> in_grammar_rooted Q -> same_wildcards P Q ->
  no_final_newline p -> no_final_newline q ->
  e_sub P Q p = Some q -> e_matches Q q = true /\ e_sub Q P q = Some p.
Proof.
  intros P Q p q HP HQ Hs Hn Hn' H. apply e_sub_some in H.
  destruct (roundtrip_rooted P Q p q HP HQ Hs Hn Hn' H) as [[d' Hm] Hb].
  split; [apply e_matches_true; eauto | apply e_sub_some; exact Hb].
Qed.

(* soundness: a yielded tuple is matched by the claiming matcher and paired by sub; when the
   two patterns are of the grammar with the same wildcards, the pair maps back *)
Lemma sound_e2e : forall (f : @pfiles matcher) out k r mg t,
  iter_locale f = POk out -> In (k, r, mg, t) out ->
  exists m, In m (pf_matchers f) /\ t = m_test m /\
    ((exists p d, k = Some p /\ In p fs /\ match_ (m_l10n m) p = Ok (Some d) /\
        excluded (pf_locale f) (pf_exclude f) p = false /\
        r = osub (m_l10n m) (m_ref m) p /\ mg = osub (m_l10n m) (m_merge m) p /\
        (forall rm rp, m_ref m = Some rm -> r = Some rp ->
           in_grammar_rooted (m_l10n m) -> in_grammar_rooted rm -> same_wildcards (m_l10n m) rm ->
           no_final_newline p -> no_final_newline rp ->
           (exists d', match_ rm rp = Ok (Some d')) /\ Matcher.sub rm (m_l10n m) rp = Ok (Some p))) \/
     (exists rm q d, m_ref m = Some rm /\ In q fs /\ match_ rm q = Ok (Some d) /\
        excluded (pf_locale f) (pf_exclude f) q = false /\
        k = e_sub rm (m_l10n m) q /\ r = Some q /\ mg = osub rm (m_merge m) q /\
        (forall kp, k = Some kp ->
           in_grammar_rooted rm -> in_grammar_rooted (m_l10n m) -> same_wildcards rm (m_l10n m) ->
           no_final_newline q -> no_final_newline kp ->
           (exists d', match_ (m_l10n m) kp = Ok (Some d')) /\ Matcher.sub (m_l10n m) rm kp = Ok (Some q)))).
Proof.
  intros f out k r mg t H Hin.
  destruct (iter_locale_sound e_prefix e_matches e_sub fs _ _ _ _ _ _ H Hin)
    as [m [Hm [Ht [[p [Ek [Hp [Hmt [Hex [Er Emg]]]]]]|[rm [q [Hr [Hq [Hmt [Hex [Ek [Er Emg]]]]]]]]]]]].
  - exists m. split; [exact Hm|]. split; [exact Ht|]. left.
    apply e_matches_true in Hmt as [d Hmt]. exists p, d.
    split; [exact Ek|]. split; [exact Hp|]. split; [exact Hmt|]. split; [exact Hex|].
    split; [exact Er|]. split; [exact Emg|].
    intros rm rp Hr Hrp G1 G2 Hs N1 N2. rewrite Hr in Er. simpl in Er. rewrite Hrp in Er. symmetry in Er.
    apply e_sub_some in Er. exact (roundtrip_rooted _ _ _ _ G1 G2 Hs N1 N2 Er).
  - exists m. split; [exact Hm|]. split; [exact Ht|]. right.
    apply e_matches_true in Hmt as [d Hmt]. exists rm, q, d.
    split; [exact Hr|]. split; [exact Hq|]. split; [exact Hmt|]. split; [exact Hex|].
    split; [exact Ek|]. split; [exact Er|]. split; [exact Emg|].
    intros kp Hk G1 G2 Hs N1 N2. rewrite Hk in Ek. symmetry in Ek. apply e_sub_some in Ek.
    exact (roundtrip_rooted _ _ _ _ G1 G2 Hs N1 N2 Ek).
Qed.

(* the premise [sub_into] of the claim theorems, from C11_roundtrip_rooted *)
Lemma sub_into_e : forall (pre : list (@mrec matcher)) p,
  no_final_newline p -> Forall no_final_newline fs ->
  (forall m r, In m pre -> m_ref m = Some r ->
     in_grammar_rooted r /\ in_grammar_rooted (m_l10n m) /\ same_wildcards r (m_l10n m)) ->
  sub_into e_matches e_sub fs pre p.
Proof.
  intros pre p Hn Hfs Hg m r q Hm Hr Hq Hs. destruct (Hg m r Hm Hr) as [G1 [G2 G3]].
  rewrite Forall_forall in Hfs.
  destruct (e_roundtrip r (m_l10n m) q p G1 G2 G3 (Hfs q Hq) Hn Hs) as [A _]. exact A.
Qed.

(* an existing localized file is paired by the first listed matcher whose pattern matches it *)
Lemma claim_e2e : forall (f : @pfiles matcher) out pre m0 post p d,
  iter_locale f = POk out -> pf_matchers f = pre ++ m0 :: post ->
  Forall no_final_newline fs ->
  (forall m r, In m pre -> m_ref m = Some r ->
     in_grammar_rooted r /\ in_grammar_rooted (m_l10n m) /\ same_wildcards r (m_l10n m)) ->
  (forall m, In m pre -> match_ (m_l10n m) p = Ok None) ->
  In p fs -> walkable_matcher (m_l10n m0) -> match_ (m_l10n m0) p = Ok (Some d) ->
  excluded (pf_locale f) (pf_exclude f) p = false -> prefix_not_a_sibling_file (m_l10n m0) p ->
  forall r mg t,
    In (Some p, r, mg, t) out <->
    (r = osub (m_l10n m0) (m_ref m0) p /\ mg = osub (m_l10n m0) (m_merge m0) p /\ t = m_test m0).
Proof.
  intros f out pre m0 post p d H E Hfs Hg Hpre Hp Hw Hmt Hex Hf.
  assert (Hmt' : e_matches (m_l10n m0) p = true) by (apply e_matches_true; eauto).
  assert (Hn : no_final_newline p) by (rewrite Forall_forall in Hfs; apply Hfs; exact Hp).
  eapply (iter_locale_claim e_prefix e_matches e_sub fs); eauto.
  - apply sub_into_e; assumption.
  - intros m Hm. unfold e_matches. rewrite (Hpre m Hm). reflexivity.
  - apply walkable_e; assumption.
Qed.

(* enumeration = lookup for an existing localized file *)
Lemma lookup_e2e : forall (f : @pfiles matcher) out pre m0 post p d,
  iter_locale f = POk out -> pf_locale f <> None -> pf_matchers f = pre ++ m0 :: post ->
  Forall no_final_newline fs ->
  (forall m r, In m pre -> m_ref m = Some r ->
     in_grammar_rooted r /\ in_grammar_rooted (m_l10n m) /\ same_wildcards r (m_l10n m)) ->
  (forall m, In m pre -> match_ (m_l10n m) p = Ok None) ->
  (forall m r, In m pre -> m_ref m = Some r -> match_ r p = Ok None) ->
  In p fs -> walkable_matcher (m_l10n m0) -> match_ (m_l10n m0) p = Ok (Some d) ->
  excluded (pf_locale f) (pf_exclude f) p = false -> prefix_not_a_sibling_file (m_l10n m0) p ->
  forall e, In e out /\ ekey e = Some p <-> pf_match f p = Some e.
Proof.
  intros f out pre m0 post p d H Hl E Hfs Hg Hpre Hpre' Hp Hw Hmt Hex Hf.
  assert (Hmt' : e_matches (m_l10n m0) p = true) by (apply e_matches_true; eauto).
  assert (Hn : no_final_newline p) by (rewrite Forall_forall in Hfs; apply Hfs; exact Hp).
  eapply (lookup_agrees_l10n e_prefix e_matches e_sub fs); eauto.
  - apply sub_into_e; assumption.
  - intros m Hm. unfold e_matches. rewrite (Hpre m Hm). reflexivity.
  - intros m r Hm Hr. unfold e_matches. rewrite (Hpre' m r Hm Hr). reflexivity.
  - apply walkable_e; assumption.
Qed.

End EndToEnd.

(* ---- the walk of _files is os.walk of the prefix directory of the tree ------------------------ *)
Lemma files_is_tree_walk : forall t root segs es loc ex (m : matcher),
  wf_tree t -> subtree t segs = Some (TDir es) ->
  dirpath root segs <> [] -> ends_slash (dirpath root segs) = false ->
  isfile (walk_tree root t) (e_prefix m) = false ->
  (* the prefix is that directory with a slash, or a partial name inside it *)
  (e_prefix m = dirpath root segs ++ [SLASH] \/
   (ends_slash (e_prefix m) = false /\ dirname (e_prefix m) = dirpath root segs)) ->
  files e_prefix e_matches e_sub (walk_tree root t) loc ex m =
  filter (fun p => negb (excluded e_matches e_sub loc ex p) && e_matches m p)
         (walk_tree (dirpath root segs) (TDir es)).
Proof.
  intros t root segs es loc ex m Hwf Hs Hne Hsl Hf Hpre.
  destruct (model_walk_is_tree_walk segs t root es Hwf Hs Hne Hsl) as [W1 W2].
  unfold ProjectFiles.files. rewrite Hf. destruct Hpre as [E|[E1 E2]].
  - rewrite E, ends_slash_snoc, N.eqb_refl, W2. reflexivity.
  - rewrite E1, E2, W1. reflexivity.
Qed.

(* ---- rules as pattern texts -------------------------------------------------------------------- *)
Record trule := mktrule {
  tl10n : str;                          (* l10n = "..." *)
  tref : option str;                    (* reference = "..." *)
  tenv : list (str * str);              (* the configuration's environment *)
  troot : option str;                   (* the configuration's root *)
  ttest : list N;
  tlocales : option (list str)
}.

(* ProjectConfig.add_paths: Matcher(d["l10n"], env=self.environ, root=self.root) *)
Definition compile_rule (r : trule) : result (rule matcher) :=
  do l <- Matcher.mk_matcher (tl10n r) (tenv r) (troot r);
  do rf <- match tref r with
           | None => Ok None
           | Some x => do m <- Matcher.mk_matcher x (tenv r) (troot r); Ok (Some m)
           end;
  Ok (mkrule l rf (ttest r) (tlocales r)).

Fixpoint map_res {A B} (g : A -> result B) (l : list A) : result (list B) :=
  match l with
  | [] => Ok []
  | x :: l' => do y <- g x; do ys <- map_res g l'; Ok (y :: ys)
  end.

Inductive tcnode :=
| TCNode (path : str) (locales : option (list str)) (rules : list trule) (children : list tcnode).

Fixpoint compile_cnode (c : tcnode) : result (cnode matcher) :=
  match c with
  | TCNode p locs rs ch =>
      do rs' <- map_res compile_rule rs;
      do ch' <- (fix go (l : list tcnode) : result (list (cnode matcher)) :=
                   match l with
                   | [] => Ok []
                   | x :: l' => do y <- compile_cnode x; do ys <- go l'; Ok (y :: ys)
                   end) ch;
      Ok (CNode p locs rs' ch')
  end.

Record tproject := mktproject { tp_root : tcnode; tp_excludes : list tcnode }.

Definition compile_project (p : tproject) : result (project matcher) :=
  do r <- compile_cnode (tp_root p);
  do xs <- map_res compile_cnode (tp_excludes p);
  Ok (mkproject r xs).

Lemma map_res_In {A B} (g : A -> result B) : forall l l' y,
  map_res g l = Ok l' -> In y l' -> exists x, In x l /\ g x = Ok y.
Proof.
  induction l as [|x l IH]; intros l' y H Hin; simpl in H.
  - inversion H; subst. destruct Hin.
  - destruct (g x) as [y0|] eqn:E; [|discriminate]. simpl in H.
    destruct (map_res g l) as [ys|] eqn:E2; [|discriminate]. simpl in H. inversion H; subst.
    destruct Hin as [<-|Hin]; [exists x; split; [left; reflexivity | exact E]|].
    destruct (IH _ _ eq_refl Hin) as [x' [H1 H2]]. exists x'. split; [right; exact H1 | exact H2].
Qed.

(* a compiled rule is the pair of matchers built from the texts *)
Lemma compile_rule_spec : forall tr r, compile_rule tr = Ok r ->
  Matcher.mk_matcher (tl10n tr) (tenv tr) (troot tr) = Ok (r_l10n r) /\
  match tref tr, r_ref r with
  | None, None => True
  | Some x, Some m => Matcher.mk_matcher x (tenv tr) (troot tr) = Ok m
  | _, _ => False
  end /\
  r_test r = ttest tr /\ r_locales r = tlocales tr.
Proof.
  intros tr r H. unfold compile_rule in H.
  destruct (Matcher.mk_matcher (tl10n tr) (tenv tr) (troot tr)) as [l|] eqn:El; [|discriminate].
  simpl in H. destruct (tref tr) as [x|].
  - destruct (Matcher.mk_matcher x (tenv tr) (troot tr)) as [m|] eqn:Em; [|discriminate].
    simpl in H. inversion H; subst. simpl. auto.
  - simpl in H. inversion H; subst. simpl. auto.
Qed.

Lemma tcnode_ind' (P : tcnode -> Prop) :
  (forall p l rs ch, Forall P ch -> P (TCNode p l rs ch)) -> forall c, P c.
Proof.
  intro H. fix IH 1. intros [p l rs ch]. apply H.
  induction ch as [|c ch IHch]; constructor; [apply IH | exact IHch].
Qed.

(* every rule of every configuration of a compiled tree comes from a text rule *)
Lemma compile_cnode_rules : forall tc c, compile_cnode tc = Ok c ->
  forall c' r, In c' (configs_of c) -> In r (c_rules c') ->
  exists tr, compile_rule tr = Ok r.
Proof.
  induction tc as [p l rs ch IH] using tcnode_ind'. intros c H c' r Hc Hr. simpl in H.
  destruct (map_res compile_rule rs) as [rs'|] eqn:Er; [|discriminate]. simpl in H.
  match type of H with (do ch' <- ?X; _) = _ => destruct X as [ch'|] eqn:Ec; [|discriminate] end.
  simpl in H. inversion H; subst c. clear H. simpl in Hc. destruct Hc as [<-|Hc].
  - simpl in Hr. destruct (map_res_In _ _ _ _ Er Hr) as [tr [_ Ht]]. eauto.
  - apply in_flat_map in Hc as [c0 [Hc0 Hc]].
    revert ch' Ec Hc0. induction ch as [|x ch IHch]; intros ch' Ec Hc0.
    + inversion Ec; subst. destruct Hc0.
    + inversion IH as [|? ? Hx Hch]; subst.
      destruct (compile_cnode x) as [y|] eqn:Ey; [|discriminate]. simpl in Ec.
      match type of Ec with (do ys <- ?X; _) = _ => destruct X as [ys|] eqn:Eys; [|discriminate] end.
      simpl in Ec. inversion Ec; subst ch'. destruct Hc0 as [<-|Hc0].
      * eapply Hx; eauto.
      * eapply IHch; eauto.
Qed.

(* every matcher of a ProjectFiles object built from compiled projects is the l10n pattern
   text of a rule (bound to the locale), with the reference built from its reference text *)
Lemma build_from_texts : forall realpath kvl kvm tps ps locale hm f m,
  map_res compile_project tps = Ok ps ->
  build e_prefix e_pat realpath (e_with_env kvl) (e_with_env kvm) locale hm ps = POk f ->
  In m (pf_matchers f) ->
  exists tr L,
    Matcher.mk_matcher (tl10n tr) (tenv tr) (troot tr) = Ok L /\
    m_l10n m = e_with_env kvl L /\
    match tref tr, m_ref m with
    | None, None => True
    | Some x, Some R => Matcher.mk_matcher x (tenv tr) (troot tr) = Ok R
    | _, _ => False
    end /\
    m_merge m = (if hm then Some (e_with_env kvm L) else None) /\
    incl (ttest tr) (m_test m) /\
    rule_enabled locale (mkrule L (m_ref m) (ttest tr) (tlocales tr)) = true.
Proof.
  intros realpath kvl kvm tps ps locale hm f m Hc Hb Hm.
  destruct (build_spec e_prefix e_pat realpath (e_with_env kvl) (e_with_env kvm) _ _ _ _ Hb)
    as [_ [H _]].
  destruct (H m Hm) as [c [rl [[p [Hp [_ Hcin]]] [_ [Hrl [Hen [E1 [E2 [E3 E4]]]]]]]]].
  destruct (map_res_In _ _ _ _ Hc Hp) as [tp [_ Htp]]. unfold compile_project in Htp.
  destruct (compile_cnode (tp_root tp)) as [root|] eqn:Er; [|discriminate]. simpl in Htp.
  destruct (map_res compile_cnode (tp_excludes tp)) as [xs|]; [|discriminate]. simpl in Htp.
  inversion Htp; subst p. simpl in Hcin.
  destruct (compile_cnode_rules _ _ Er _ _ Hcin Hrl) as [tr Htr].
  destruct (compile_rule_spec _ _ Htr) as [S1 [S2 [S3 S4]]].
  exists tr, (r_l10n rl). split; [exact S1|]. split; [exact E1|].
  split; [rewrite E2; exact S2|]. split; [exact E3|]. split; [rewrite <- S3; exact E4|].
  unfold rule_enabled in *. simpl. rewrite <- S4. exact Hen.
Qed.
