(* The generated expressions of the DefinesParser (.inc): comment lines "# text", runs of
   newlines, "#define KEY [VALUE]" and "#word args" instructions, evaluated at an arbitrary
   offset inside a longer text of known shape.  Used by Proofs/C02BlocksInc.v. *)
From Coq Require Import NArith List Bool Arith Lia.
From CL Require Import Base.Sx Base.Res Base.Str Regex.Rx Regex.RxLemmas Model.Entry Model.Parse
  Model.ParseFormats Generated.Tables Generated.RxParser Proofs.UnescapeProofs
  Proofs.ClassLoop Proofs.ClassLoop2 Proofs.C02Props Proofs.WalkProofs Proofs.C02Roundtrip
  Proofs.C02BlocksRx Proofs.C02BlocksIniRx.
Import ListNotations.

Local Arguments Nat.ltb : simpl never.
Local Arguments Nat.leb : simpl never.
Local Arguments Nat.eqb : simpl never.
Local Arguments N.eqb : simpl never.
Local Arguments N.leb : simpl never.
Local Arguments chr_ok : simpl never.
Local Arguments run : simpl never.
Local Arguments fwd : simpl never.
Local Opaque word_ranges.

(* ---- lazy repetition up to the end of the class run ---------------------------------------------- *)
Section LazyStop.
Variables (neg : bool) (cls : cset).

Lemma rep_class_lazy_stop : forall j fuel count s k,
  j = run neg cls None (suf s) -> j < fuel ->
  (forall i, i < j -> k (fwd i s) = Fail) ->
  rep_loop (m (Chr neg cls)) false 0 None fuel count s k = k (fwd j s).
Proof.
  induction j as [|j IH]; intros fuel count s k Hr Hf Hfail;
    (destruct fuel as [|f]; [lia|]); rewrite rep_loop_S;
    replace (count <? 0) with false by (symmetry; apply Nat.ltb_ge; lia); cbv zeta.
  - change (fwd 0 s) with s. destruct (k s) eqn:Ek; try reflexivity.
    rewrite orelse_fail. cbv beta iota. rewrite (body_eq' neg cls).
    destruct (suf s) as [|c t] eqn:Es; [reflexivity|].
    rewrite run_none_cons in Hr. destruct (chr_ok neg cls c); [discriminate|reflexivity].
  - pose proof (Hfail 0) as H0. change (fwd 0 s) with s in H0. rewrite H0 by lia.
    rewrite orelse_fail. cbv beta iota. rewrite (body_eq' neg cls).
    destruct (suf s) as [|c t] eqn:Es; [rewrite run_nil in Hr; discriminate|].
    rewrite run_none_cons in Hr.
    destruct (chr_ok neg cls c) eqn:Ec; [|discriminate].
    assert (Hp : Nat.eqb (pos (advance s c t)) (pos s) = false)
      by (apply Nat.eqb_neq; simpl; lia).
    rewrite Hp. rewrite (fwd_S j s c t Es). apply IH.
    + unfold advance. cbn [suf]. lia.
    + lia.
    + intros i Hi. rewrite <- (fwd_S i s c t Es). apply Hfail. lia.
Qed.

Lemma m_rep_lazy_stop : forall s k,
  (forall i, i < run neg cls None (suf s) -> k (fwd i s) = Fail) ->
  m (Rep false 0 None (Chr neg cls)) s k = k (fwd (run neg cls None (suf s)) s).
Proof.
  intros s k H. rewrite m_Rep. apply rep_class_lazy_stop; auto.
  pose proof (run_le neg cls None (suf s)). simpl. lia.
Qed.
End LazyStop.

(* ---- a literal prefix ------------------------------------------------------------------------------ *)
Fixpoint lit_rx (l : list N) (r : rx) : rx :=
  match l with
  | [] => r
  | c :: l' => Cat (Chr false [(c, c)]) (lit_rx l' r)
  end.

Lemma m_lit : forall l r X pr p cs k,
  m (lit_rx l r) (mkst pr X p cs) k =
  if starts_with l X
  then m r (mkst (rev l ++ pr) (skipn (length l) X) (p + length l) cs) k
  else Fail.
Proof.
  induction l as [|c l IH]; intros r X pr p cs k.
  - simpl. rewrite Nat.add_0_r. reflexivity.
  - cbn [lit_rx]. rewrite m_Cat, m_Chr. cbn [suf]. destruct X as [|d X]; [reflexivity|].
    cbn [starts_with]. rewrite single_class, N.eqb_sym.
    destruct (N.eqb_spec c d) as [->|]; [|reflexivity]. cbn [andb]. unfold advance. cbn [pre suf pos caps].
    rewrite IH. destruct (starts_with l X); [|reflexivity].
    simpl rev. rewrite <- app_assoc. simpl. replace (p + S (length l)) with (S (p + length l)) by lia.
    reflexivity.
Qed.

(* ---- comment lines "# text" --------------------------------------------------------------------------- *)
Definition NBODY : rx :=
  Cat (Bol true) (Cat (Chr false (points [35%N])) (Cat (Chr false (points [32%N]))
      (Cat (Rep false 0 None (Chr true (points [10%N]))) (Chr false (points [10%N]))))).
Definition NLAST : rx :=
  Cat (Bol true) (Cat (Chr false (points [35%N])) (Cat (Chr false (points [32%N]))
      (Rep true 0 None (Chr true (points [10%N]))))).

Lemma inc_comment_shape : rx_inc_comment = Cat (Rep true 0 None NBODY) NLAST.
Proof. reflexivity. Qed.

(* a comment line of the .inc format: marker "#", then a blank and the text *)
Definition legal_cline_n (c : N * str) : bool :=
  N.eqb (fst c) 35 && match snd c with 32%N :: t => no_nl t | _ => false end.

(* "# " starts the text *)
Definition head2 (X : str) : bool :=
  match X with 35%N :: 32%N :: _ => true | _ => false end.

Lemma nbody_fail : forall X pr p cs0 k, head2 X = false -> m NBODY (mkst pr X p cs0) k = Fail.
Proof.
  intros X pr p cs0 k H. unfold NBODY. rewrite m_Cat, m_Bol. destruct (at_bol true _); [|reflexivity].
  rewrite m_Cat, m_Chr. cbn [suf]. destruct X as [|c X]; [reflexivity|].
  rewrite chr_ok_points, mem_single. destruct (N.eqb_spec c 35) as [->|]; [|reflexivity].
  unfold advance. cbn [pre suf pos caps]. rewrite m_Cat, m_Chr. cbn [suf].
  destruct X as [|d X]; [reflexivity|]. rewrite chr_ok_points, mem_single.
  destruct (N.eqb_spec d 32) as [->|]; [discriminate|reflexivity].
Qed.

Lemma nlast_fail : forall X pr p cs0 k, head2 X = false -> m NLAST (mkst pr X p cs0) k = Fail.
Proof.
  intros X pr p cs0 k H. unfold NLAST. rewrite m_Cat, m_Bol. destruct (at_bol true _); [|reflexivity].
  rewrite m_Cat, m_Chr. cbn [suf]. destruct X as [|c X]; [reflexivity|].
  rewrite chr_ok_points, mem_single. destruct (N.eqb_spec c 35) as [->|]; [|reflexivity].
  unfold advance. cbn [pre suf pos caps]. rewrite m_Cat, m_Chr. cbn [suf].
  destruct X as [|d X]; [reflexivity|]. rewrite chr_ok_points, mem_single.
  destruct (N.eqb_spec d 32) as [->|]; [discriminate|reflexivity].
Qed.

Lemma nbody_line : forall t X pr p k,
  bol pr = true -> no_nl t = true ->
  m NBODY (mkst pr (35%N :: 32%N :: t ++ 10%N :: X) p []) k =
  k (mkst (10%N :: rev t ++ 32%N :: 35%N :: pr) X (S (S (S p)) + length t) []).
Proof.
  intros t X pr p k Hbol Ht. unfold NBODY. rewrite m_Cat, m_Bol, at_bol_bol, Hbol.
  rewrite m_Cat, m_Chr. cbn [suf]. rewrite chr_ok_points, mem_single.
  replace (N.eqb 35 35) with true by reflexivity. unfold advance. cbn [pre suf pos caps].
  rewrite m_Cat, m_Chr. cbn [suf]. rewrite chr_ok_points, mem_single.
  replace (N.eqb 32 32) with true by reflexivity. unfold advance. cbn [pre suf pos caps].
  rewrite m_Cat.
  assert (Hr : run true (points [10%N]) None (t ++ 10%N :: X) = length t).
  { apply run_exact_gen; [apply no_nl_class; exact Ht|]. simpl. rewrite nl_not_ok. reflexivity. }
  rewrite m_rep_lazy_stop; cbn [suf]; rewrite Hr.
  - rewrite fwd_app, m_Chr. cbn [suf]. rewrite chr_ok_points, mem_single.
    replace (N.eqb 10 10) with true by reflexivity. unfold advance. cbn [pre suf pos caps].
    reflexivity.
  - intros i Hi. rewrite fwd_mkst_caps by (rewrite app_length; lia).
    destruct (skipn i (t ++ 10%N :: X)) as [|c' t'] eqn:Es.
    + apply (f_equal (@length N)) in Es. rewrite skipn_length, app_length in Es. simpl in Es. lia.
    + rewrite m_Chr. cbn [suf]. rewrite chr_ok_points, mem_single.
      assert (Hin : In c' t) by (eapply skipn_head_in; [exact Hi|exact Es]).
      apply (no_nl_in t c' Ht) in Hin. apply N.eqb_neq in Hin. rewrite Hin. reflexivity.
Qed.

Lemma nlast_line : forall t X pr p,
  bol pr = true -> no_nl t = true ->
  m NLAST (mkst pr (35%N :: 32%N :: t ++ 10%N :: X) p []) k0 =
  Done (mkst (rev t ++ 32%N :: 35%N :: pr) (10%N :: X) (S (S p) + length t) []).
Proof.
  intros t X pr p Hbol Ht. unfold NLAST. rewrite m_Cat, m_Bol, at_bol_bol, Hbol.
  rewrite m_Cat, m_Chr. cbn [suf]. rewrite chr_ok_points, mem_single.
  replace (N.eqb 35 35) with true by reflexivity. unfold advance. cbn [pre suf pos caps].
  rewrite m_Cat, m_Chr. cbn [suf]. rewrite chr_ok_points, mem_single.
  replace (N.eqb 32 32) with true by reflexivity. unfold advance. cbn [pre suf pos caps].
  assert (Hr : run true (points [10%N]) None (t ++ 10%N :: X) = length t).
  { apply run_exact_gen; [apply no_nl_class; exact Ht|]. simpl. rewrite nl_not_ok. reflexivity. }
  rewrite (m_rep_class true (points [10%N]) 0 None); [|intros s'; rewrite k0_done; discriminate|exact I].
  cbn [suf]. rewrite Hr. replace (0 <=? length t) with true by reflexivity.
  rewrite fwd_app, k0_done. reflexivity.
Qed.

Definition NKL : st -> out := fun s' => m NLAST s' k0.

Lemma ncomment_loop : forall cs X fuel count pr p,
  bol pr = true ->
  cs <> [] -> forallb legal_cline_n cs = true -> head2 X = false ->
  length cs < fuel ->
  rep_loop (m NBODY) true 0 None fuel count (mkst pr (ctext cs ++ X) p []) NKL =
  Done (mkst (rev (cbody cs) ++ pr) (10%N :: X) (p + length (cbody cs)) []).
Proof.
  induction cs as [|[c t0] cs IH]; intros X fuel count pr p Hbol Hne Hleg HX Hf; [contradiction|].
  simpl in Hleg. apply andb_true_iff in Hleg. destruct Hleg as [Hl Hleg].
  unfold legal_cline_n in Hl. cbn [fst snd] in Hl. apply andb_true_iff in Hl. destruct Hl as [Hc Ht].
  apply N.eqb_eq in Hc. subst c. destruct t0 as [|d t]; [discriminate|].
  destruct (N.eqb_spec d 32) as [->|Hd].
  2:{ exfalso. revert Ht. destruct d; try discriminate.
      repeat (destruct p0; try discriminate). contradiction. }
  destruct fuel as [|f]; [lia|].
  rewrite rep_loop_S. replace (count <? 0) with false by (symmetry; apply Nat.ltb_ge; lia).
  cbv beta iota zeta.
  assert (Etxt : ctext (@pair N str 35%N (32%N :: t) :: cs) ++ X = 35%N :: 32%N :: t ++ 10%N :: (ctext cs ++ X)).
  { rewrite ctext_cons. unfold cline_text. cbn [fst snd]. simpl. rewrite <- !app_assoc. reflexivity. }
  rewrite Etxt, nbody_line by auto. cbn [pos].
  replace (Nat.eqb (S (S (S p)) + length t) p) with false by (symmetry; apply Nat.eqb_neq; lia).
  destruct cs as [|c2 cs].
  - simpl ctext. simpl app at 1.
    destruct f as [|f]; [simpl in Hf; lia|].
    rewrite rep_loop_S. replace (S count <? 0) with false by (symmetry; apply Nat.ltb_ge; lia).
    cbv zeta. rewrite nbody_fail by exact HX. rewrite orelse_fail.
    unfold NKL at 1. rewrite nlast_fail by exact HX. rewrite orelse_fail.
    unfold NKL. replace (35%N :: 32%N :: t ++ 10%N :: [] ++ X) with (35%N :: 32%N :: t ++ 10%N :: X)
      by reflexivity.
    rewrite nlast_line by auto. rewrite cbody_one. cbn [fst snd]. simpl rev.
    rewrite <- !app_assoc. simpl. f_equal. f_equal. lia.
  - rewrite IH; [| reflexivity | discriminate | exact Hleg | exact HX | simpl in Hf; simpl; lia].
    simpl orelse. rewrite cbody_cons. unfold cline_text. cbn [fst snd].
    f_equal. f_equal.
    + change (35%N :: (32%N :: t) ++ [10%N]) with ((35%N :: 32%N :: t) ++ [10%N]).
      rewrite !rev_app_distr. simpl. rewrite <- !app_assoc. simpl. rewrite <- !app_assoc. reflexivity.
    + simpl. rewrite !app_length. simpl. lia.
Qed.

Lemma ncomment_match : forall cs X pr p,
  bol pr = true ->
  cs <> [] -> forallb legal_cline_n cs = true -> head2 X = false ->
  m rx_inc_comment (mkst pr (ctext cs ++ X) p []) k0 =
  Done (mkst (rev (cbody cs) ++ pr) (10%N :: X) (p + length (cbody cs)) []).
Proof.
  intros cs X pr p Hbol Hne Hleg HX. rewrite inc_comment_shape, m_Cat, m_Rep. fold NKL.
  apply ncomment_loop; auto. cbn [suf]. rewrite app_length.
  pose proof (ctext_length_ge cs). lia.
Qed.

Lemma ncomment_fails : forall X pr p k, head2 X = false ->
  m rx_inc_comment (mkst pr X p []) k = Fail.
Proof.
  intros X pr p k H. rewrite inc_comment_shape, m_Cat, m_Rep. simpl Nat.add. rewrite rep_loop_S.
  replace (0 <? 0) with false by reflexivity. cbv zeta beta iota.
  rewrite nbody_fail by exact H. rewrite orelse_fail. apply nlast_fail. exact H.
Qed.

Lemma omatch_ncomment : forall (a : str) cs X,
  bol (rev a) = true ->
  cs <> [] -> forallb legal_cline_n cs = true -> head2 X = false ->
  omatch rx_inc_comment (a ++ ctext cs ++ X) (length a) =
  Some (mkres (length a) (length a + length (cbody cs)) []).
Proof.
  intros a cs X H0 H1 H2 H3. rewrite omatch_split, run_at_k0, ncomment_match by auto. reflexivity.
Qed.

Lemma omatch_ncomment_none : forall (a X : str), head2 X = false ->
  omatch rx_inc_comment (a ++ X) (length a) = None.
Proof.
  intros a X H. rewrite omatch_split, run_at_k0, ncomment_fails by exact H. reflexivity.
Qed.

(* ---- runs of newlines --------------------------------------------------------------------------------- *)
Lemma inc_ws_shape : rx_inc_ws = Rep true 1 None (Chr false (points [10%N])).
Proof. reflexivity. Qed.

Lemma nl_class : forall c, chr_ok false (points [10%N]) c = N.eqb c 10.
Proof. intros c. rewrite chr_ok_points, mem_single. reflexivity. Qed.

Lemma run_repeat_nl : forall n y, head_is (fun c => N.eqb c 10) y = false ->
  run false (points [10%N]) None (repeat 10%N n ++ y) = n.
Proof.
  intros n y Hy. rewrite <- (repeat_length 10%N n) at 2. apply run_exact_gen.
  - induction n as [|n IH]; [reflexivity|]. cbn [repeat forallb]. rewrite nl_class, IH. reflexivity.
  - rewrite (head_is_ext _ (fun c => N.eqb c 10)); auto. intros c. apply nl_class.
Qed.

Lemma omatch_nws : forall (a y : str) n,
  head_is (fun c => N.eqb c 10) y = false ->
  omatch rx_inc_ws (a ++ repeat 10%N n ++ y) (length a) =
  if 1 <=? n then Some (mkres (length a) (length a + n) []) else None.
Proof.
  intros a y n Hy. rewrite omatch_split, run_at_k0, inc_ws_shape.
  rewrite (m_rep_class false (points [10%N]) 1 None); [|intros s'; rewrite k0_done; discriminate|exact I].
  cbn [suf]. rewrite run_repeat_nl by exact Hy.
  destruct (1 <=? n); [|reflexivity].
  rewrite fwd_mkst by (rewrite app_length, repeat_length; lia). rewrite k0_done. reflexivity.
Qed.

(* ---- #define KEY [VALUE] ------------------------------------------------------------------------------- *)
Definition s_define : str := [35; 100; 101; 102; 105; 110; 101]%N.      (* #define *)
Definition WC : cset := word_ranges.

Definition KREST : rx :=
  Cat (Rep true 1 None (Chr false (points BL)))
      (Cat (Grp 1 (Rep true 1 None (Chr false WC)))
           (Alt (Cat (Chr false (points BL)) (Grp 2 (Rep true 0 None (Chr true (points [10%N]))))) Eps)).

Lemma inc_key_shape : rx_inc_key = lit_rx s_define KREST.
Proof. reflexivity. Qed.

Lemma word_not_blank : forall c, mem c BL = true -> chr_ok false WC c = false.
Proof.
  intros c H. apply mem_in in H. simpl in H. destruct H as [<-|[<-|[]]]; vm_compute; reflexivity.
Qed.
Lemma word_not_nl : chr_ok false WC 10%N = false.
Proof. vm_compute. reflexivity. Qed.

Definition is_word (t : str) : bool := forallb (chr_ok false WC) t.
Definition is_blanks (t : str) : bool := forallb (fun c => mem c BL) t.

Lemma blanks_class : forall t, is_blanks t = true -> forallb (chr_ok false (points BL)) t = true.
Proof.
  intros t H. unfold is_blanks in H. rewrite (forallb_ext' _ (fun c => mem c BL)); auto.
  intros c. apply chr_ok_points.
Qed.

Lemma head_word_not_blank : forall t X, t <> [] -> is_word t = true ->
  head_is (chr_ok false (points BL)) (t ++ X) = false.
Proof.
  intros [|c t] X Hne H; [contradiction|]. simpl in H. apply andb_true_iff in H. destruct H as [H _].
  cbn [app head_is]. rewrite chr_ok_points. destruct (mem c BL) eqn:E; [|reflexivity].
  apply word_not_blank in E. congruence.
Qed.

(* the optional value: one blank and the rest of the line *)
Definition vtext (v : option (N * str)) : str :=
  match v with Some (c, val) => c :: val | None => [] end.
Definition legal_nval (v : option (N * str)) : bool :=
  match v with Some (c, val) => mem c BL && no_nl val | None => true end.

Lemma tail_nl_not_word : forall T, tail_nl T -> head_is (chr_ok false WC) T = false.
Proof. intros T [->|[X ->]]; [reflexivity|]. cbn [head_is]. apply word_not_nl. Qed.

Lemma tail_nl_not_blank : forall T, tail_nl T -> head_is (chr_ok false (points BL)) T = false.
Proof. intros T [->|[X ->]]; [reflexivity|]. cbn [head_is]. rewrite chr_ok_points. reflexivity. Qed.

Lemma nkey_rest : forall b1 key v T pr p,
  b1 <> [] -> is_blanks b1 = true -> key <> [] -> is_word key = true -> legal_nval v = true ->
  tail_nl T ->
  exists s', m KREST (mkst pr (b1 ++ key ++ vtext v ++ T) p []) k0 = Done s' /\
    pos s' = p + length b1 + length key + length (vtext v) /\
    caps s' = match v with
              | Some (_, val) => [(2, (p + length b1 + length key + 1, p + length b1 + length key + 1 + length val));
                             (1, (p + length b1, p + length b1 + length key))]
              | None => [(1, (p + length b1, p + length b1 + length key))]
              end.
Proof.
  intros b1 key v T pr p Hb1 Hbl Hk Hw Hv HT. unfold KREST. rewrite m_Cat.
  set (ck := [(1, (p + length b1, p + length b1 + length key))]).
  (* after the key *)
  assert (Hafter : exists s',
            m (Alt (Cat (Chr false (points BL)) (Grp 2 (Rep true 0 None (Chr true (points [10%N]))))) Eps)
              (mkst (rev key ++ rev b1 ++ pr) (vtext v ++ T) (p + length b1 + length key) ck) k0 = Done s' /\
            pos s' = p + length b1 + length key + length (vtext v) /\
            caps s' = match v with
              | Some (_, val) => (2, (p + length b1 + length key + 1, p + length b1 + length key + 1 + length val)) :: ck
              | None => ck end).
  { rewrite m_Alt. destruct v as [[c val]|]; cbn [vtext].
    - cbn [legal_nval] in Hv. apply andb_true_iff in Hv. destruct Hv as [Hc Hv].
      rewrite m_Cat, m_Chr. cbn [app suf]. rewrite chr_ok_points, Hc. unfold advance. cbn [pre suf pos caps].
      rewrite m_Grp. cbn [pos].
      assert (Hrv : run true (points [10%N]) None (val ++ T) = length val).
      { apply run_exact_gen; [apply no_nl_class; exact Hv|apply tail_nl_head; exact HT]. }
      rewrite (m_rep_class true (points [10%N]) 0 None);
        [| intros s'; rewrite k0_done; discriminate | exact I].
      cbn [suf]. rewrite Hrv. replace (0 <=? length val) with true by reflexivity.
      rewrite fwd_app, k0_done. unfold set_cap. cbn [pre suf pos caps]. simpl orelse.
      eexists. split; [reflexivity|]. cbn [pos caps length]. split; [lia|].
      replace (S (p + length b1 + length key)) with (p + length b1 + length key + 1) by lia.
      replace (S (p + length b1 + length key + length val))
        with (p + length b1 + length key + 1 + length val) by lia.
      reflexivity.
    - cbn [app]. rewrite m_Cat, m_Chr. cbn [suf].
      pose proof (tail_nl_not_blank T HT) as Hnb.
      destruct T as [|c T']; [|cbn [head_is] in Hnb; rewrite Hnb];
        rewrite orelse_fail; (eexists; split; [reflexivity|]; cbn [pos caps length]; split; [lia|reflexivity]). }
  destruct Hafter as [sA [A1 [A2 A3]]].
  (* the key *)
  assert (Rk : run false WC None (key ++ vtext v ++ T) = length key).
  { apply run_exact_gen; [exact Hw|]. destruct v as [[c val]|]; cbn [vtext app].
    - cbn [head_is]. apply word_not_blank. cbn [legal_nval] in Hv. apply andb_true_iff in Hv. apply Hv.
    - apply tail_nl_not_word. exact HT. }
  assert (Hkey : m (Cat (Grp 1 (Rep true 1 None (Chr false WC)))
                     (Alt (Cat (Chr false (points BL)) (Grp 2 (Rep true 0 None (Chr true (points [10%N]))))) Eps))
                   (mkst (rev b1 ++ pr) (key ++ vtext v ++ T) (p + length b1) []) k0 = Done sA).
  { rewrite m_Cat, m_Grp. cbn [pos].
    assert (Hin : (fun s' : st =>
               (fun s'0 : st => m (Alt (Cat (Chr false (points BL)) (Grp 2 (Rep true 0 None (Chr true (points [10%N]))))) Eps) s'0 k0)
                 (set_cap 1 (p + length b1, pos s') s'))
             (fwd (length key) (mkst (rev b1 ++ pr) (key ++ vtext v ++ T) (p + length b1) [])) = Done sA).
    { cbv beta. rewrite fwd_app. unfold set_cap. cbn [pre suf pos caps]. fold ck.
      exact A1. }
    rewrite (m_rep_class_max false WC 1 None); [|exact I|].
    - cbn [suf]. rewrite Rk. replace (1 <=? length key) with true
        by (symmetry; apply Nat.leb_le; destruct key; [contradiction|simpl; lia]).
      exact Hin.
    - cbn [suf]. rewrite Rk, Hin. discriminate. }
  (* the blanks *)
  assert (Rb : run false (points BL) None (b1 ++ key ++ vtext v ++ T) = length b1).
  { apply run_exact_gen; [apply blanks_class; exact Hbl|]. apply head_word_not_blank; auto. }
  assert (Hbk : (fun s' : st => m (Cat (Grp 1 (Rep true 1 None (Chr false WC)))
                     (Alt (Cat (Chr false (points BL)) (Grp 2 (Rep true 0 None (Chr true (points [10%N]))))) Eps)) s' k0)
                (fwd (length b1) (mkst pr (b1 ++ key ++ vtext v ++ T) p [])) = Done sA).
  { cbv beta. rewrite fwd_app. exact Hkey. }
  rewrite (m_rep_class_max false (points BL) 1 None); [|exact I|].
  - cbn [suf]. rewrite Rb. replace (1 <=? length b1) with true
      by (symmetry; apply Nat.leb_le; destruct b1; [contradiction|simpl; lia]).
    rewrite Hbk. exists sA. split; [reflexivity|]. split; [exact A2|]. rewrite A3.
    destruct v as [[c val]|]; reflexivity.
  - cbn [suf]. rewrite Rb, Hbk. discriminate.
Qed.

Lemma starts_with_app : forall (l X : str), starts_with l (l ++ X) = true.
Proof. induction l as [|c l IH]; intros X; [reflexivity|]. simpl. rewrite N.eqb_refl. apply IH. Qed.

Lemma omatch_nkey : forall (a : str) b1 key v T,
  b1 <> [] -> is_blanks b1 = true -> key <> [] -> is_word key = true -> legal_nval v = true ->
  tail_nl T ->
  let p := length a + 7 in
  omatch rx_inc_key (a ++ s_define ++ b1 ++ key ++ vtext v ++ T) (length a) =
  Some (mkres (length a) (p + length b1 + length key + length (vtext v))
          match v with
          | Some (_, val) => [(2, (p + length b1 + length key + 1, p + length b1 + length key + 1 + length val));
                         (1, (p + length b1, p + length b1 + length key))]
          | None => [(1, (p + length b1, p + length b1 + length key))]
          end).
Proof.
  intros a b1 key v T H1 H2 H3 H4 H5 H6 p.
  rewrite omatch_split, run_at_k0, inc_key_shape, m_lit, starts_with_app.
  replace (skipn (length s_define) (s_define ++ b1 ++ key ++ vtext v ++ T))
    with (b1 ++ key ++ vtext v ++ T) by reflexivity.
  destruct (nkey_rest b1 key v T (rev s_define ++ rev a) (length a + length s_define) H1 H2 H3 H4 H5 H6)
    as [s' [E1 [E2 E3]]].
  rewrite E1, E2, E3. reflexivity.
Qed.

Lemma omatch_nkey_none : forall (a X : str), starts_with s_define X = false ->
  omatch rx_inc_key (a ++ X) (length a) = None.
Proof.
  intros a X H. rewrite omatch_split, run_at_k0, inc_key_shape, m_lit, H. reflexivity.
Qed.

(* ---- #word args ------------------------------------------------------------------------------------------- *)
Lemma inc_pi_shape : rx_inc_pi =
  Cat (Chr false (points [35%N]))
      (Grp 1 (Cat (Rep true 1 None (Chr false WC))
                  (Cat (Rep true 1 None (Chr false (points BL))) (Rep true 1 None (Chr true (points [10%N])))))).
Proof. reflexivity. Qed.

Lemma pi_match : forall w b r T pr p,
  w <> [] -> is_word w = true -> b <> [] -> is_blanks b = true ->
  r <> [] -> no_nl r = true -> head_is (fun c => mem c BL) r = false -> tail_nl T ->
  exists s', m rx_inc_pi (mkst pr (35%N :: w ++ b ++ r ++ T) p []) k0 = Done s' /\
    pos s' = p + 1 + length w + length b + length r /\
    caps s' = [(1, (p + 1, p + 1 + length w + length b + length r))].
Proof.
  intros w b r T pr p Hw1 Hw2 Hb1 Hb2 Hr1 Hr2 Hr3 HT.
  rewrite inc_pi_shape, m_Cat, m_Chr. cbn [suf]. rewrite chr_ok_points, mem_single.
  replace (N.eqb 35 35) with true by reflexivity. unfold advance. cbn [pre suf pos caps].
  rewrite m_Grp, m_Cat. cbn [pos].
  set (kf := fun s' : st => k0 (set_cap 1 (S p, pos s') s')).
  (* the rest of the line *)
  assert (Rr : run true (points [10%N]) None (r ++ T) = length r).
  { apply run_exact_gen; [apply no_nl_class; exact Hr2|apply tail_nl_head; exact HT]. }
  assert (H3 : forall pr' p', m (Rep true 1 None (Chr true (points [10%N]))) (mkst pr' (r ++ T) p' []) kf =
                 Done (mkst (rev r ++ pr') T (p' + length r) [(1, (S p, p' + length r))])).
  { intros pr' p'. rewrite (m_rep_class true (points [10%N]) 1 None);
      [| intros s'; unfold kf; rewrite k0_done; discriminate | exact I].
    cbn [suf]. rewrite Rr. replace (1 <=? length r) with true
      by (symmetry; apply Nat.leb_le; destruct r; [contradiction|simpl; lia]).
    rewrite fwd_app. unfold kf. rewrite k0_done. reflexivity. }
  (* the blanks *)
  assert (Rb : run false (points BL) None (b ++ r ++ T) = length b).
  { apply run_exact_gen; [apply blanks_class; exact Hb2|].
    rewrite (head_is_ext _ (fun c => mem c BL)) by (intros c; apply chr_ok_points).
    destruct r; [contradiction|exact Hr3]. }
  assert (H2 : forall pr' p', m (Cat (Rep true 1 None (Chr false (points BL))) (Rep true 1 None (Chr true (points [10%N]))))
                 (mkst pr' (b ++ r ++ T) p' []) kf =
                 Done (mkst (rev r ++ rev b ++ pr') T (p' + length b + length r) [(1, (S p, p' + length b + length r))])).
  { intros pr' p'. rewrite m_Cat.
    assert (Hin : (fun s' : st => m (Rep true 1 None (Chr true (points [10%N]))) s' kf)
                  (fwd (length b) (mkst pr' (b ++ r ++ T) p' [])) =
                  Done (mkst (rev r ++ rev b ++ pr') T (p' + length b + length r) [(1, (S p, p' + length b + length r))]))
      by (cbv beta; rewrite fwd_app; apply H3).
    rewrite (m_rep_class_max false (points BL) 1 None); [|exact I|].
    - cbn [suf]. rewrite Rb. replace (1 <=? length b) with true
        by (symmetry; apply Nat.leb_le; destruct b; [contradiction|simpl; lia]).
      exact Hin.
    - cbn [suf]. rewrite Rb, Hin. discriminate. }
  (* the word *)
  assert (Rw : run false WC None (w ++ b ++ r ++ T) = length w).
  { apply run_exact_gen; [exact Hw2|]. destruct b as [|c b']; [contradiction|].
    cbn [app head_is]. simpl in Hb2. apply andb_true_iff in Hb2. destruct Hb2 as [Hc _].
    apply word_not_blank. exact Hc. }
  assert (Hin : (fun s' : st => m (Cat (Rep true 1 None (Chr false (points BL))) (Rep true 1 None (Chr true (points [10%N])))) s' kf)
                (fwd (length w) (mkst (35%N :: pr) (w ++ b ++ r ++ T) (S p) [])) =
                Done (mkst (rev r ++ rev b ++ rev w ++ 35%N :: pr) T (S p + length w + length b + length r)
                           [(1, (S p, S p + length w + length b + length r))]))
    by (cbv beta; rewrite fwd_app; apply H2).
  fold kf.
  rewrite (m_rep_class_max false WC 1 None); [|exact I|].
  - cbn [suf]. rewrite Rw. replace (1 <=? length w) with true
      by (symmetry; apply Nat.leb_le; destruct w; [contradiction|simpl; lia]).
    rewrite Hin. eexists. split; [reflexivity|]. cbn [pos caps]. split; [lia|].
    replace (S p) with (p + 1) by lia. reflexivity.
  - cbn [suf]. rewrite Rw, Hin. discriminate.
Qed.

Lemma omatch_pi : forall (a : str) w b r T,
  w <> [] -> is_word w = true -> b <> [] -> is_blanks b = true ->
  r <> [] -> no_nl r = true -> head_is (fun c => mem c BL) r = false -> tail_nl T ->
  omatch rx_inc_pi (a ++ 35%N :: w ++ b ++ r ++ T) (length a) =
  Some (mkres (length a) (length a + 1 + length w + length b + length r)
              [(1, (length a + 1, length a + 1 + length w + length b + length r))]).
Proof.
  intros a w b r T H1 H2 H3 H4 H5 H6 H7 H8.
  destruct (pi_match w b r T (rev a) (length a) H1 H2 H3 H4 H5 H6 H7 H8) as [s' [E1 [E2 E3]]].
  rewrite omatch_split, run_at_k0, E1, E2, E3. reflexivity.
Qed.
