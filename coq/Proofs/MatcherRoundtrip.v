(* C11_unique and C11_roundtrip for the grammar of the property: simple
   matchers whose variables are all bound, with stars in different segments
   and at most one double star (shape_ok), that compile. *)
From Coq Require Import NArith List Bool Arith Lia.
From CL Require Import Base.Sx Base.Res Base.Str Regex.Rx Regex.RxLemmas Regex.RxSem
  Model.Pattern Model.Matcher Proofs.MatcherBase Proofs.MatcherSpec Proofs.MatcherCompile
  Proofs.MatcherSound Proofs.MatcherExpand Proofs.MatcherComplete Proofs.PathUnique
  Proofs.MatcherUnique.
Import ListNotations.

Definition bound_var (e : env) (n : node) : Prop :=
  match n with NVar name _ => lookup name e <> None | _ => True end.

Definition in_grammar (M : matcher) : Prop :=
  simple M /\ compiles M /\
  Forall var_not_star (p_nodes (m_pat M)) /\
  Forall (bound_var (m_env M)) (p_nodes (m_pat M)) /\
  shape_ok (snd (shape_of (m_env M) (p_nodes (m_pat M)))).

Definition same_wildcards (P Q : matcher) : Prop :=
  filter is_wild (p_nodes (m_pat P)) = filter is_wild (p_nodes (m_pat Q)).

Definition no_final_newline (p : str) : Prop := forall q, p <> q ++ [nl].

Lemma upto_no_newline : forall whole consumed, no_final_newline whole ->
  upto_final_newline whole consumed -> whole = consumed.
Proof. intros w c Hn [H|H]; auto. exfalso. eapply Hn; eauto. Qed.

(* ---- list helpers ---------------------------------------------------------------------- *)
Lemma Forall2_in_l : forall {A B} (R : A -> B -> Prop) l1 l2 a,
  Forall2 R l1 l2 -> In a l1 -> exists b, In b l2 /\ R a b.
Proof.
  intros A B R l1 l2 a H. induction H as [|x y l1 l2 Hxy H IH]; intros Hin; [contradiction|].
  destruct Hin as [Hin|Hin].
  - subst. exists y. split; [left; auto|auto].
  - destruct (IH Hin) as [b [H1 H2]]. exists b. split; [right; auto|auto].
Qed.

Lemma build_pieces : forall {A B} (R : A -> B -> Prop) l,
  (forall a, In a l -> exists b, R a b) -> exists l2, Forall2 R l l2.
Proof.
  induction l as [|a l IH]; intros H.
  - exists []. constructor.
  - destruct (H a (or_introl eq_refl)) as [b Hb].
    destruct IH as [l2 Hl2]; [intros; apply H; right; auto|].
    exists (b :: l2). constructor; auto.
Qed.

Lemma Forall2_Forall_l : forall {A B} (R : A -> B -> Prop) (P : A -> Prop) (Q : A -> B -> Prop) l1 l2,
  Forall P l1 -> Forall2 R l1 l2 -> (forall a b, P a -> R a b -> Q a b) -> Forall2 Q l1 l2.
Proof.
  intros A B R P Q l1 l2 HP HR Himp. induction HR; constructor.
  - apply Himp; auto. inversion HP; auto.
  - apply IHHR. inversion HP; auto.
Qed.

Lemma in_filter_wild : forall n ns, In n ns -> is_wild n = true -> In n (filter is_wild ns).
Proof. intros. apply filter_In. auto. Qed.

Lemma wild_transfer : forall P Q n, same_wildcards P Q -> is_wild n = true ->
  In n (p_nodes (m_pat P)) -> In n (p_nodes (m_pat Q)).
Proof.
  intros P Q n Hs Hw Hin. apply in_filter_wild in Hin; auto. rewrite Hs in Hin.
  apply filter_In in Hin. tauto.
Qed.

(* ---- pieces of the grammar are pieces of the shape ------------------------------------- *)
Lemma piece_for_pfit : forall e d n p, simple_node e n = true -> bound_var e n ->
  piece_for e d n p -> pfit e n p.
Proof.
  intros e d n p Hs Hb [Hp Hf]. destruct n as [t|name rep|rep|k|k suffix]; simpl in *; auto.
  - unfold var_value in Hp. destruct (lookup name e); [auto|congruence].
  - destruct Hf as [Hf|[b [_ [_ Hf]]]]; [auto|right; eauto].
Qed.

Lemma dpiece_pfit : forall e d n p, simple_node e n = true -> bound_var e n ->
  consistent e d -> dpiece_ok d n p -> pfit e n p.
Proof.
  intros e d n p Hs Hb Hc Hp. destruct n as [t|name rep|rep|k|k suffix]; simpl in *; auto.
  - subst. reflexivity.
  - apply andb_true_iff in Hs. destruct Hs as [_ Hv].
    destruct (lookup name e) as [v|] eqn:El; [|congruence].
    destruct (value_text v) as [t|] eqn:Ev; [|discriminate].
    pose proof (Hc _ _ _ _ El Ev Hp) as H. inversion H; subst. reflexivity.
  - tauto.
  - destruct Hp as [[_ Hp]|[_ [b [_ [_ Hp]]]]]; [auto|right; eauto].
Qed.

Lemma pfit_of_piece_for : forall e d ns X,
  (forall n, In n ns -> simple_node e n = true) -> (forall n, In n ns -> bound_var e n) ->
  Forall2 (piece_for e d) ns X -> Forall2 (pfit e) ns X.
Proof.
  intros e d ns X Hs Hb HX. induction HX as [|n p ns X Hp HX IH]; constructor.
  - eapply piece_for_pfit; eauto; [apply Hs|apply Hb]; left; auto.
  - apply IH; intros; [apply Hs|apply Hb]; right; auto.
Qed.

Lemma pfit_of_dpiece : forall e d ns X, consistent e d ->
  (forall n, In n ns -> simple_node e n = true) -> (forall n, In n ns -> bound_var e n) ->
  Forall2 (dpiece_ok d) ns X -> Forall2 (pfit e) ns X.
Proof.
  intros e d ns X Hc Hs Hb HX. induction HX as [|n p ns X Hp HX IH]; constructor.
  - eapply dpiece_pfit; eauto; [apply Hs|apply Hb]; left; auto.
  - apply IH; intros; [apply Hs|apply Hb]; right; auto.
Qed.

(* C11_unique: two valuations of the wildcards that expand to the same path
   give every node the same piece *)
Theorem pieces_unique_grammar : forall M g g' X Y, in_grammar M ->
  Forall2 (piece_for (m_env M) g) (p_nodes (m_pat M)) X ->
  Forall2 (piece_for (m_env M) g') (p_nodes (m_pat M)) Y ->
  concat X = concat Y -> X = Y.
Proof.
  intros M g g' X Y [[Hs [Hr Hn]] [_ [_ [Hb Hshape]]]] HX HY Hc.
  rewrite forallb_forall in Hs. rewrite Forall_forall in Hb.
  eapply pieces_unique; eauto; eapply pfit_of_piece_for; eauto.
Qed.

(* ---- the wildcard values of one side serve the other ------------------------------------ *)
Lemma wild_piece_for : forall e d n p, is_wild n = true -> dpiece_ok d n p -> piece_for e d n p.
Proof.
  intros e d n p Hw Hp. destruct n as [t|name rep|rep|k|k suffix]; try discriminate; simpl in Hp.
  - destruct Hp as [H1 H2]. split; simpl; [rewrite H1; reflexivity|exact H2].
  - destruct Hp as [[H1 H2]|[H1 [b [Hb [Hnl H2]]]]]; split; simpl.
    + rewrite H1. subst. reflexivity.
    + left. auto.
    + rewrite H1. reflexivity.
    + right. exists b. auto.
Qed.

Lemma fixed_piece_for : forall e d n, simple_node e n = true -> bound_var e n ->
  is_wild n = false -> exists p, piece_for e d n p.
Proof.
  intros e d n Hs Hb Hw. destruct n as [t|name rep|rep|k|k suffix]; try discriminate; simpl in *.
  - exists t. split; simpl; auto.
  - apply andb_true_iff in Hs. destruct Hs as [_ Hv].
    destruct (lookup name e) as [v|] eqn:El; [|congruence].
    destruct (value_text v) as [t|] eqn:Ev; [|discriminate].
    exists t. split; simpl.
    + unfold var_value. rewrite El. exact Ev.
    + intro H. rewrite El in H. discriminate.
Qed.

Lemma node_piece_fun : forall e d n p q, piece_for e d n p -> piece_for e d n q -> p = q.
Proof. intros e d n p q [H1 _] [H2 _]. congruence. Qed.

(* C11_roundtrip *)
Theorem roundtrip : forall P Q path path',
  in_grammar P -> in_grammar Q -> same_wildcards P Q ->
  no_final_newline path -> no_final_newline path' ->
  sub P Q path = Ok (Some path') ->
  (exists d', match_ Q path' = Ok (Some d')) /\ sub Q P path' = Ok (Some path).
Proof.
  intros P Q path path' GP GQ Hsame Hnl Hnl' Hsub.
  pose proof GP as [SP [CP [VP [BP ShP]]]]. pose proof GQ as [SQ [CQ [VQ [BQ ShQ]]]].
  pose proof SP as [HsP [HrP HnP]]. pose proof SQ as [HsQ [HrQ HnQ]].
  (* 1. P matched the path *)
  unfold sub in Hsub. destruct (match_ P path) as [[d|]|] eqn:EmP; try discriminate. simpl in Hsub.
  destruct (expand_pattern (sub_env d (m_env Q)) false (m_pat Q)) as [pq|] eqn:EeQ; [|discriminate].
  simpl in Hsub. inversion Hsub; subst pq. clear Hsub.
  destruct (match_decompose P path d SP EmP) as [piecesP [HpathP [HFP [HdP HcP]]]].
  apply (upto_no_newline _ _ Hnl) in HpathP.
  (* 2. the pieces of Q under d *)
  assert (HXex : exists X, Forall2 (piece_for (m_env Q) d) (p_nodes (m_pat Q)) X).
  { apply build_pieces. intros n Hin.
    rewrite forallb_forall in HsQ. rewrite Forall_forall in BQ.
    destruct (is_wild n) eqn:Ew.
    - assert (HinP : In n (p_nodes (m_pat P))).
      { apply (wild_transfer Q P); auto. unfold same_wildcards in *. auto. }
      destruct (Forall2_in_l _ _ _ _ HFP HinP) as [p [_ Hp]].
      exists p. apply wild_piece_for; auto.
    - apply fixed_piece_for; auto. }
  destruct HXex as [X HX].
  assert (HeX : expand_pattern (sub_env d (m_env Q)) false (m_pat Q) = Ok (concat X)).
  { apply expand_pieces; auto. eapply Forall2_imp; [|exact HX]. intros n p [H _]. exact H. }
  rewrite HeX in EeQ. inversion EeQ; subst path'. clear EeQ.
  (* 3. Q matches it *)
  destruct (match_complete Q d X SQ CQ VQ HX) as [d' EmQ].
  split; [exists d'; exact EmQ|].
  (* 4. what Q matched *)
  destruct (match_decompose Q (concat X) d' SQ EmQ) as [Y [HpathQ [HFQ [HdQ HcQ]]]].
  apply (upto_no_newline _ _ Hnl') in HpathQ.
  (* 5. the same pieces *)
  assert (HXY : X = Y).
  { rewrite forallb_forall in HsQ. rewrite Forall_forall in BQ.
    eapply (pieces_unique (m_env Q)); eauto.
    - eapply pfit_of_piece_for; eauto.
    - eapply pfit_of_dpiece; eauto. }
  subst Y.
  (* 6. P re-expands with Q's dictionary to its own pieces *)
  assert (HPd' : Forall2 (fun n p => node_piece (m_env P) d' n = Some p) (p_nodes (m_pat P)) piecesP).
  { rewrite forallb_forall in HsP. rewrite Forall_forall in BP.
    assert (Hall : forall n p, In n (p_nodes (m_pat P)) -> dpiece_ok d n p ->
                               node_piece (m_env P) d' n = Some p).
    { intros n p Hin Hp. destruct (is_wild n) eqn:Ew.
      - assert (HinQ : In n (p_nodes (m_pat Q))) by (apply (wild_transfer P Q); auto).
        destruct (Forall2_in_l _ _ _ _ HX HinQ) as [q [Hq1 Hq]].
        assert (Hq' : exists q', piece_for (m_env Q) d n q' /\ dpiece_ok d' n q').
        { clear - HX HFQ HinQ. revert HFQ. induction HX as [|m x ms X Hm HX IH]; intros HFQ;
            [contradiction|]. inversion HFQ; subst. destruct HinQ as [E|Hin'].
          - subst m. eauto.
          - apply IH; auto. }
        destruct Hq' as [q' [Hq'1 Hq'2]].
        pose proof (wild_piece_for (m_env Q) d n p Ew Hp) as HpQ.
        pose proof (node_piece_fun _ _ _ _ _ HpQ Hq'1) as E. subst q'.
        destruct n as [t|name rep|rep|k|k suffix]; try discriminate; simpl in *.
        + destruct Hq'2 as [H _]. rewrite H. reflexivity.
        + destruct Hq'2 as [[H1 H2]|[H1 _]]; rewrite H1; subst; reflexivity.
      - destruct n as [t|name rep|rep|k|k suffix]; try discriminate; simpl in *.
        + subst. reflexivity.
        + pose proof (HsP _ Hin) as Hsn. simpl in Hsn.
          apply andb_true_iff in Hsn. destruct Hsn as [_ Hv].
          pose proof (BP _ Hin) as Hbn. simpl in Hbn.
          unfold var_value. destruct (lookup name (m_env P)) as [v|] eqn:El; [|congruence].
          destruct (value_text v) as [t|] eqn:Ev; [|discriminate].
          pose proof (HcP _ _ _ _ El Ev Hp) as H. inversion H; subst. reflexivity.
        + contradiction. }
    clear - HFP Hall. induction HFP as [|n p ns ps Hp HF IH]; constructor.
    - apply Hall; [left; auto|auto].
    - apply IH. intros m q Hin Hq. apply Hall; [right; auto|auto]. }
  unfold sub. rewrite EmQ. simpl.
  rewrite (expand_pieces P d' piecesP SP HdQ HPd'). simpl. rewrite HpathP. reflexivity.
Qed.
