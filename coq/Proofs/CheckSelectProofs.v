(* The selection logic of PropertiesChecker.check: which branch runs, and that
   the regex scans in it never run out of fuel. *)
From Coq Require Import NArith List Bool Arith.
From CL Require Import Base.Sx Base.Res Base.Str Regex.Rx Regex.RxLemmas
  Generated.RxC06 Generated.C06Facts Model.CheckProps Model.CheckPropsSpec Proofs.CheckPropsProofs.
Import ListNotations.

Lemma finditer_ok r s : exists ms, finditer r s = Ok ms.
Proof.
  unfold finditer. destruct (rfinditer r s) eqn:E; [eauto|].
  exfalso. exact (rfinditer_no_fuel _ _ E).
Qed.

(* the plural branch is taken iff the reference has a comment containing the
   literal, its key is not the excluded one, and its value is not all digits *)
Definition plural_selected (c : check_in) : Prop :=
  exists all, ref_comment c = Some all /\ contains lit_plural_comment all = true /\
              ref_key c <> lit_plural_rule_key /\ rmatch rx_digits_end (ref_val c) 0 = MNone.

Lemma is_plural_spec c : exists b, is_plural c = Ok b /\ (b = true <-> plural_selected c).
Proof.
  unfold is_plural, plural_selected. destruct (ref_comment c) as [all|].
  - destruct (contains lit_plural_comment all) eqn:E1.
    + destruct (str_eqb (ref_key c) lit_plural_rule_key) eqn:E2; cbn [negb andb].
      * exists false. split; [reflexivity|]. split; [discriminate|].
        intros (a & Ha & _ & Hk & _). apply str_eqb_eq in E2. contradiction.
      * assert (ref_key c <> lit_plural_rule_key) as Hk.
        { intros E. apply str_eqb_eq in E. congruence. }
        destruct (rmatch rx_digits_end (ref_val c) 0) eqn:E3.
        -- exists true. split; [reflexivity|]. split; [|reflexivity]. intros _. exists all. auto.
        -- exists false. split; [reflexivity|]. split; [discriminate|].
           intros (a & _ & _ & _ & Hm). discriminate.
        -- exfalso. exact (rmatch_no_fuel _ _ _ E3).
    + exists false. split; [reflexivity|]. split; [discriminate|].
      intros (a & Ha & Hc & _). inversion Ha; subst. congruence.
  - exists false. split; [reflexivity|]. split; [discriminate|]. intros (a & Ha & _). discriminate.
Qed.

Theorem check_selection : forall c,
  exists enc b, encoding_findings c = Ok enc /\ is_plural c = Ok b /\
    (b = true <-> plural_selected c) /\
    (b = true ->
       check c = match check_plural (locale c) (ref_val c) (l10n_val c) with
                 | Ok r => Ok (enc ++ r)
                 | Raise t => Raise t
                 end) /\
    (b = false ->
       exists escs, escape_findings (l10n_raw c) = Ok escs /\
         check c = match get_printf_specs (ref_val c) with
                   | Raise t => Raise t
                   | Ok (SOk ((_ :: _) as refSpecs)) =>
                       match check_printf refSpecs (l10n_val c) with
                       | Ok pf => Ok (enc ++ escs ++ pf)
                       | Raise t => Raise t
                       end
                   | Ok _ => Ok (enc ++ escs)
                   end).
Proof.
  intros c. destruct (is_plural_spec c) as (b & Hb & Hiff).
  assert (exists enc, encoding_findings c = Ok enc) as [enc Henc].
  { unfold encoding_findings. destruct (finditer_ok rx_mochibake (l10n_all c)) as [ms ->]. eauto. }
  exists enc, b. split; [exact Henc|]. split; [exact Hb|]. split; [exact Hiff|].
  unfold check. rewrite Henc, Hb. split.
  - intros ->. reflexivity.
  - intros ->.
    assert (exists escs, escape_findings (l10n_raw c) = Ok escs) as [escs Hesc].
    { unfold escape_findings. destruct (finditer_ok rx_c06_escape (l10n_raw c)) as [ms ->]. eauto. }
    exists escs. split; [exact Hesc|]. rewrite Hesc.
    destruct (get_printf_specs (ref_val c)) as [[p e|[|x r]]|t]; reflexivity.
Qed.
