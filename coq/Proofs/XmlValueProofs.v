(* value_ok on the value grammar: the replacement text of a grammar value is
   the grammar value with its character references replaced by (inert)
   characters, so both documents of DTDChecker.check are accepted. *)
From Coq Require Import NArith List Bool Arith Lia.
From CL Require Import Base.Str Regex.Rx Generated.C07Facts Model.XmlContent
  Proofs.XmlRejectProofs Proofs.XmlAcceptProofs.
Import ListNotations.

Local Arguments is_name_start : simpl never.
Local Arguments is_name_char : simpl never.
Local Arguments is_xml_char : simpl never.
Local Arguments is_ws : simpl never.
Local Arguments is_digit : simpl never.
Local Arguments is_hex : simpl never.
Local Arguments N.eqb : simpl never.
Local Arguments str_eqb : simpl never.
Local Arguments mem_str : simpl never.
Local Arguments N.mul : simpl never.
Local Arguments N.add : simpl never.

(* ---- character facts ------------------------------------------------------------- *)
Lemma name_char_xml : forall c, is_name_char c = true -> is_xml_char c = true.
Proof.
  intros c H. unfold is_name_char, in_ranges, name_char_ranges in H. cbn [existsb fst snd] in H.
  unfold is_xml_char.
  repeat (apply orb_true_iff in H; destruct H as [H|H]); try discriminate;
    apply andb_true_iff in H; destruct H as [H1 H2]; apply N.leb_le in H1, H2;
    rewrite !orb_true_iff, !andb_true_iff, !N.leb_le, !N.eqb_eq; lia.
Qed.

(* a character the entity-literal scanner copies *)
Definition copied (c : N) : bool :=
  is_xml_char c && negb (N.eqb c c_pct) && negb (N.eqb c c_amp).

Lemma name_char_copied : forall c, is_name_char c = true -> copied c = true.
Proof.
  intros c H. unfold copied. rewrite (name_char_xml _ H).
  replace (N.eqb c c_pct) with false by (symmetry; apply (neq_of is_name_char c c_pct); [exact H | reflexivity]).
  replace (N.eqb c c_amp) with false by (symmetry; apply (neq_of is_name_char c c_amp); [exact H | reflexivity]).
  reflexivity.
Qed.

Lemma copy_run : forall s out rest, forallb copied s = true ->
  ent_repl_from EText out (s ++ rest) = ent_repl_from EText (rev s ++ out) rest.
Proof.
  induction s as [|c s IH]; intros out rest H; [reflexivity|].
  cbn [forallb] in H. apply andb_true_iff in H. destruct H as [Hc Hs].
  unfold copied in Hc. repeat (apply andb_true_iff in Hc; destruct Hc as [Hc ?]).
  apply negb_true_iff in H, H0. cbn [app ent_repl_from]. rewrite H0, H, Hc.
  rewrite IH by exact Hs. cbn [rev]. rewrite <- app_assoc. reflexivity.
Qed.

Lemma name_copied : forall n, name_ok n = true -> forallb copied n = true.
Proof.
  intros [|c cs] H; [discriminate|]. cbn [name_ok] in H. apply andb_true_iff in H. destruct H as [Hc Hs].
  cbn [forallb]. rewrite (name_char_copied _ (name_start_is_char _ Hc)). cbn [andb].
  apply forallb_forall. intros x Hx. apply name_char_copied.
  rewrite forallb_forall in Hs. apply Hs. exact Hx.
Qed.

(* ---- replacement of the character references ------------------------------------------------ *)
Definition repl_part (p : apart) : apart :=
  match p with
  | ADec ds => AText [dec_value ds]
  | AHex ds => AText [hex_value ds]
  | _ => p
  end.

Definition repl_attr (a : str * list apart) : str * list apart := (fst a, map repl_part (snd a)).

Definition repl_tok (t : tok) : tok :=
  match t with
  | TPart p => TPart (repl_part p)
  | TOpen n attrs => TOpen n (map repl_attr attrs)
  | TEmpty n attrs => TEmpty n (map repl_attr attrs)
  | TClose n => TClose n
  end.

Lemma ent_name_repl : forall cs out rest, forallb is_name_char cs = true ->
  ent_repl_from EEnt out (cs ++ rest) = ent_repl_from EEnt (rev cs ++ out) rest.
Proof.
  induction cs as [|c cs IH]; intros out rest H; [reflexivity|].
  cbn [forallb] in H. apply andb_true_iff in H. destruct H as [Hc Hs].
  cbn [app ent_repl_from].
  replace (N.eqb c c_semi) with false by (symmetry; apply (neq_of is_name_char c c_semi); [exact Hc | reflexivity]).
  rewrite Hc. rewrite IH by exact Hs. cbn [rev]. rewrite <- app_assoc. reflexivity.
Qed.

Lemma dec_digits_repl : forall ds v out rest, forallb is_digit ds = true ->
  ent_repl_from (EDec v) out (ds ++ rest) =
  ent_repl_from (EDec (fold_left (fun v c => 10 * v + digit_val c)%N ds v)) out rest.
Proof.
  induction ds as [|c ds IH]; intros v out rest H; [reflexivity|].
  cbn [forallb] in H. apply andb_true_iff in H. destruct H as [Hc Hs].
  cbn [app ent_repl_from].
  replace (N.eqb c c_semi) with false by (symmetry; apply (neq_of is_digit c c_semi); [exact Hc | reflexivity]).
  rewrite Hc. rewrite IH by exact Hs. reflexivity.
Qed.

Lemma hex_digits_repl : forall ds v out rest, forallb is_hex ds = true ->
  ent_repl_from (EHex v) out (ds ++ rest) =
  ent_repl_from (EHex (fold_left (fun v c => 16 * v + hex_val c)%N ds v)) out rest.
Proof.
  induction ds as [|c ds IH]; intros v out rest H; [reflexivity|].
  cbn [forallb] in H. apply andb_true_iff in H. destruct H as [Hc Hs].
  cbn [app ent_repl_from].
  replace (N.eqb c c_semi) with false by (symmetry; apply (neq_of is_hex c c_semi); [exact Hc | reflexivity]).
  rewrite Hc. rewrite IH by exact Hs. reflexivity.
Qed.

Section Repl.
Variable refok : str -> bool.
Variable txt : N -> bool.
Hypothesis txt_not_amp : forall c, txt c = true -> is_xml_char c = true /\ N.eqb c c_amp = false.

Definition no_pct (s : str) : bool := forallb (fun c => negb (N.eqb c c_pct)) s.

Lemma no_pct_app : forall a b, no_pct (a ++ b) = no_pct a && no_pct b.
Proof. intros. unfold no_pct. apply forallb_app. Qed.

Lemma part_repl : forall p out rest,
  part_ok refok txt p = true -> no_pct (render_part p) = true ->
  ent_repl_from EText out (render_part p ++ rest) =
  ent_repl_from EText (rev (render_part (repl_part p)) ++ out) rest.
Proof.
  intros [s|n|ds|ds] out rest H Hp; cbn [part_ok render_part repl_part] in *.
  - apply copy_run. apply forallb_forall. intros c Hc. unfold copied.
    rewrite forallb_forall in H. destruct (txt_not_amp c (H c Hc)) as [H1 H2]. rewrite H1, H2.
    unfold no_pct in Hp. rewrite forallb_forall in Hp. rewrite (Hp c Hc). reflexivity.
  - apply andb_true_iff in H. destruct H as [Hn _]. destruct n as [|c cs]; [discriminate|].
    cbn [name_ok] in Hn. apply andb_true_iff in Hn. destruct Hn as [Hc Hs].
    cbn [app ent_repl_from].
    replace (N.eqb c_amp c_pct) with false by reflexivity.
    replace (N.eqb c_amp c_amp) with true by reflexivity.
    replace (N.eqb c c_hash) with false
      by (symmetry; apply (neq_of is_name_start c c_hash); [exact Hc | reflexivity]).
    rewrite Hc. rewrite <- app_assoc. rewrite ent_name_repl by exact Hs.
    cbn [app ent_repl_from]. replace (N.eqb c_semi c_semi) with true by reflexivity.
    f_equal. cbn [rev]. rewrite rev_app_distr. cbn [rev app]. rewrite <- !app_assoc. reflexivity.
  - apply andb_true_iff in H. destruct H as [H Hi]. apply andb_true_iff in H. destruct H as [Hn Hd].
    destruct ds as [|c ds]; [discriminate|].
    cbn [forallb] in Hd. apply andb_true_iff in Hd. destruct Hd as [Hc Hs].
    cbn [app ent_repl_from].
    replace (N.eqb c_amp c_pct) with false by reflexivity.
    replace (N.eqb c_amp c_amp) with true by reflexivity.
    replace (N.eqb c_hash c_hash) with true by reflexivity.
    replace (N.eqb c c_x) with false by (symmetry; apply (neq_of is_digit c c_x); [exact Hc | reflexivity]).
    rewrite Hc. rewrite <- app_assoc. rewrite dec_digits_repl by exact Hs. cbn [app ent_repl_from].
    replace (N.eqb c_semi c_semi) with true by reflexivity.
    unfold dec_value in *. cbn [fold_left] in *.
    replace (10 * 0 + digit_val c)%N with (digit_val c) in * by reflexivity.
    rewrite (inert_char _ Hi). reflexivity.
  - apply andb_true_iff in H. destruct H as [H Hi]. apply andb_true_iff in H. destruct H as [Hn Hd].
    destruct ds as [|c ds]; [discriminate|].
    cbn [forallb] in Hd. apply andb_true_iff in Hd. destruct Hd as [Hc Hs].
    cbn [app ent_repl_from].
    replace (N.eqb c_amp c_pct) with false by reflexivity.
    replace (N.eqb c_amp c_amp) with true by reflexivity.
    replace (N.eqb c_hash c_hash) with true by reflexivity.
    replace (N.eqb c_x c_x) with true by reflexivity.
    rewrite Hc. rewrite <- app_assoc. rewrite hex_digits_repl by exact Hs. cbn [app ent_repl_from].
    replace (N.eqb c_semi c_semi) with true by reflexivity.
    unfold hex_value in *. cbn [fold_left] in *.
    replace (16 * 0 + hex_val c)%N with (hex_val c) in * by reflexivity.
    rewrite (inert_char _ Hi). reflexivity.
Qed.

Lemma parts_repl : forall ps out rest,
  forallb (part_ok refok txt) ps = true -> no_pct (render_parts ps) = true ->
  ent_repl_from EText out (render_parts ps ++ rest) =
  ent_repl_from EText (rev (render_parts (map repl_part ps)) ++ out) rest.
Proof.
  induction ps as [|p ps IH]; intros out rest H Hp; [reflexivity|].
  cbn [forallb] in H. apply andb_true_iff in H. destruct H as [H1 H2].
  unfold render_parts in *. cbn [map concat] in *. rewrite no_pct_app in Hp.
  apply andb_true_iff in Hp. destruct Hp as [Hp1 Hp2].
  rewrite <- app_assoc, part_repl by assumption. rewrite IH by assumption.
  rewrite rev_app_distr, <- app_assoc. reflexivity.
Qed.
End Repl.

Lemma text_char_not_amp : forall c, text_char c = true -> is_xml_char c = true /\ N.eqb c c_amp = false.
Proof.
  unfold text_char. intros c H. repeat (apply andb_true_iff in H; destruct H as [H ?]).
  apply negb_true_iff in H1. auto.
Qed.

Lemma attr_char_not_amp : forall c, attr_char c = true -> is_xml_char c = true /\ N.eqb c c_amp = false.
Proof.
  unfold attr_char. intros c H. repeat (apply andb_true_iff in H; destruct H as [H ?]).
  apply negb_true_iff in H1. auto.
Qed.

(* ---- attributes and tokens -------------------------------------------------------------- *)
Section Tokens.
Variable refok : str -> bool.

Lemma attr_repl : forall a out rest,
  name_ok (fst a) = true -> forallb (part_ok refok attr_char) (snd a) = true ->
  no_pct (render_attr a) = true ->
  ent_repl_from EText out (render_attr a ++ rest) =
  ent_repl_from EText (rev (render_attr (repl_attr a)) ++ out) rest.
Proof.
  intros [an ps] out rest Hn Hp Hq. cbn [fst snd] in *. unfold render_attr, repl_attr in *. cbn [fst snd] in *.
  assert (E : forall ps', 32%N :: an ++ c_eq :: c_dq :: render_parts ps' ++ [c_dq] =
                     (32%N :: an ++ [c_eq; c_dq]) ++ render_parts ps' ++ [c_dq]).
  { intros. cbn [app]. rewrite <- app_assoc. reflexivity. }
  rewrite !E in *. rewrite !no_pct_app in Hq.
  apply andb_true_iff in Hq. destruct Hq as [_ Hq]. apply andb_true_iff in Hq. destruct Hq as [Hq _].
  rewrite <- !app_assoc.
  rewrite copy_run.
  2: { cbn [forallb]. replace (copied 32) with true by reflexivity. cbn [andb].
       rewrite forallb_app, (name_copied _ Hn). reflexivity. }
  rewrite (parts_repl refok attr_char attr_char_not_amp) by assumption.
  rewrite (copy_run [c_dq]) by reflexivity.
  f_equal. rewrite !rev_app_distr. rewrite <- !app_assoc. reflexivity.
Qed.

Lemma attrs_repl : forall attrs out rest,
  forallb (fun a => name_ok (fst a) && forallb (part_ok refok attr_char) (snd a)) attrs = true ->
  no_pct (render_attrs attrs) = true ->
  ent_repl_from EText out (render_attrs attrs ++ rest) =
  ent_repl_from EText (rev (render_attrs (map repl_attr attrs)) ++ out) rest.
Proof.
  induction attrs as [|a attrs IH]; intros out rest H Hq; [reflexivity|].
  cbn [forallb] in H. apply andb_true_iff in H. destruct H as [Ha H].
  apply andb_true_iff in Ha. destruct Ha as [Hn Hp].
  unfold render_attrs in *. cbn [map concat] in *. rewrite no_pct_app in Hq.
  apply andb_true_iff in Hq. destruct Hq as [Hq1 Hq2].
  rewrite <- app_assoc, attr_repl by assumption. rewrite IH by assumption.
  rewrite rev_app_distr, <- app_assoc. reflexivity.
Qed.

Lemma tok_repl : forall t out rest,
  tok_ok refok t = true -> no_pct (render_tok t) = true ->
  ent_repl_from EText out (render_tok t ++ rest) =
  ent_repl_from EText (rev (render_tok (repl_tok t)) ++ out) rest.
Proof.
  intros [p|n attrs|n attrs|n] out rest H Hq; cbn [tok_ok render_tok repl_tok] in *.
  - apply (part_repl refok text_char text_char_not_amp); assumption.
  - apply andb_true_iff in H. destruct H as [Hn Ha]. unfold attrs_ok in Ha.
    apply andb_true_iff in Ha. destruct Ha as [_ Ha].
    assert (E : forall x, c_lt :: n ++ render_attrs x ++ [c_gt] = (c_lt :: n) ++ render_attrs x ++ [c_gt])
      by reflexivity.
    rewrite !E in *. rewrite !no_pct_app in Hq.
    apply andb_true_iff in Hq. destruct Hq as [_ Hq]. apply andb_true_iff in Hq. destruct Hq as [Hq _].
    rewrite <- !app_assoc. rewrite copy_run.
    2: { cbn [forallb]. replace (copied c_lt) with true by reflexivity. apply name_copied. exact Hn. }
    rewrite attrs_repl by assumption. rewrite (copy_run [c_gt]) by reflexivity.
    f_equal. rewrite !rev_app_distr. rewrite <- !app_assoc. reflexivity.
  - apply andb_true_iff in H. destruct H as [Hn Ha]. unfold attrs_ok in Ha.
    apply andb_true_iff in Ha. destruct Ha as [_ Ha].
    assert (E : forall x, c_lt :: n ++ render_attrs x ++ [c_slash; c_gt] =
                          (c_lt :: n) ++ render_attrs x ++ [c_slash; c_gt]) by reflexivity.
    rewrite !E in *. rewrite !no_pct_app in Hq.
    apply andb_true_iff in Hq. destruct Hq as [_ Hq]. apply andb_true_iff in Hq. destruct Hq as [Hq _].
    rewrite <- !app_assoc. rewrite copy_run.
    2: { cbn [forallb]. replace (copied c_lt) with true by reflexivity. apply name_copied. exact Hn. }
    rewrite attrs_repl by assumption. rewrite (copy_run [c_slash; c_gt]) by reflexivity.
    f_equal. rewrite !rev_app_distr. rewrite <- !app_assoc. reflexivity.
  - assert (E : c_lt :: c_slash :: n ++ [c_gt] = (c_lt :: c_slash :: n) ++ [c_gt]) by reflexivity.
    rewrite E. rewrite <- app_assoc. rewrite copy_run.
    2: { cbn [forallb]. replace (copied c_lt) with true by reflexivity.
         replace (copied c_slash) with true by reflexivity. apply name_copied. exact H. }
    rewrite (copy_run [c_gt]) by reflexivity.
    f_equal. rewrite !rev_app_distr. rewrite <- !app_assoc. reflexivity.
Qed.

Lemma render_repl : forall ts out,
  forallb (tok_ok refok) ts = true -> no_pct (render ts) = true ->
  ent_repl_from EText out (render ts) = Some (rev out ++ render (map repl_tok ts)).
Proof.
  induction ts as [|t ts IH]; intros out H Hq.
  - cbn [render map concat ent_repl_from]. rewrite app_nil_r. reflexivity.
  - cbn [forallb] in H. apply andb_true_iff in H. destruct H as [Ht Hs].
    unfold render in *. cbn [map concat] in *. rewrite no_pct_app in Hq.
    apply andb_true_iff in Hq. destruct Hq as [Hq1 Hq2].
    rewrite tok_repl by assumption. rewrite IH by assumption.
    rewrite rev_app_distr, rev_involutive, <- app_assoc. reflexivity.
Qed.

(* ---- the replaced tokens are still well formed ------------------------------------------------- *)
Lemma inert_text : forall v, inert v = true -> text_char v = true /\ attr_char v = true.
Proof.
  unfold inert, text_char, attr_char. intros v H.
  rewrite !andb_true_iff in H. destruct H as [[[[[Hx Ha] Hl] Hg] Hd] Hs].
  rewrite Hx, Ha, Hl, Hg, Hd. auto.
Qed.

Lemma repl_part_ok : forall txt p, (forall v, inert v = true -> txt v = true) ->
  part_ok refok txt p = true -> part_ok refok txt (repl_part p) = true.
Proof.
  intros txt [s|n|ds|ds] Ht H; cbn [repl_part part_ok] in *; try exact H.
  - apply andb_true_iff in H. destruct H as [_ Hi]. cbn [forallb]. rewrite (Ht _ Hi). reflexivity.
  - apply andb_true_iff in H. destruct H as [_ Hi]. cbn [forallb]. rewrite (Ht _ Hi). reflexivity.
Qed.

Lemma repl_attrs_ok : forall attrs, attrs_ok refok attrs = true -> attrs_ok refok (map repl_attr attrs) = true.
Proof.
  intros attrs H. unfold attrs_ok in *. apply andb_true_iff in H. destruct H as [Hd Hf].
  apply andb_true_iff. split.
  - rewrite map_map. cbn [repl_attr fst]. exact Hd.
  - rewrite forallb_forall in *. intros a Ha. apply in_map_iff in Ha. destruct Ha as [a0 [<- Ha0]].
    specialize (Hf a0 Ha0). apply andb_true_iff in Hf. destruct Hf as [Hn Hp].
    cbn [repl_attr fst snd]. rewrite Hn. cbn [andb].
    rewrite forallb_forall in *. intros p Hp'. apply in_map_iff in Hp'. destruct Hp' as [p0 [<- Hp0]].
    apply repl_part_ok; [intros v Hv; apply (inert_text v Hv) | apply Hp; exact Hp0].
Qed.

Lemma repl_tok_ok : forall t, tok_ok refok t = true -> tok_ok refok (repl_tok t) = true.
Proof.
  intros [p|n attrs|n attrs|n] H; cbn [repl_tok tok_ok] in *; try exact H.
  - apply repl_part_ok; [intros v Hv; apply (inert_text v Hv) | exact H].
  - apply andb_true_iff in H. destruct H as [Hn Ha]. rewrite Hn, (repl_attrs_ok _ Ha). reflexivity.
  - apply andb_true_iff in H. destruct H as [Hn Ha]. rewrite Hn, (repl_attrs_ok _ Ha). reflexivity.
Qed.
End Tokens.

Lemma repl_bal : forall ts k, bal k (map repl_tok ts) = bal k ts.
Proof.
  induction ts as [|t ts IH]; intros k; [reflexivity|].
  destruct t; cbn [map repl_tok bal]; try apply IH.
  destruct k; [reflexivity|]. rewrite IH. reflexivity.
Qed.

Lemma part_ok_mono : forall (r1 r2 : str -> bool) txt p, (forall n, r1 n = true -> r2 n = true) ->
  part_ok r1 txt p = true -> part_ok r2 txt p = true.
Proof.
  intros r1 r2 txt [s|n|ds|ds] Hr H; cbn [part_ok] in *; try exact H.
  apply andb_true_iff in H. destruct H as [Hn H]. rewrite Hn, (Hr _ H). reflexivity.
Qed.

Lemma tok_ok_mono : forall (r1 r2 : str -> bool) t, (forall n, r1 n = true -> r2 n = true) ->
  tok_ok r1 t = true -> tok_ok r2 t = true.
Proof.
  assert (A : forall (r1 r2 : str -> bool) attrs, (forall n, r1 n = true -> r2 n = true) ->
              attrs_ok r1 attrs = true -> attrs_ok r2 attrs = true).
  { intros r1 r2 attrs Hr H. unfold attrs_ok in *. apply andb_true_iff in H. destruct H as [Hd Hf].
    rewrite Hd. cbn [andb]. rewrite forallb_forall in *. intros a Ha. specialize (Hf a Ha).
    apply andb_true_iff in Hf. destruct Hf as [Hn Hp]. rewrite Hn. cbn [andb].
    rewrite forallb_forall in *. intros p Hp'. eapply part_ok_mono; [exact Hr | apply Hp; exact Hp']. }
  intros r1 r2 [p|n attrs|n attrs|n] Hr H; cbn [tok_ok] in *; try exact H.
  - eapply part_ok_mono; eassumption.
  - apply andb_true_iff in H. destruct H as [Hn Ha]. rewrite Hn, (A _ _ _ Hr Ha). reflexivity.
  - apply andb_true_iff in H. destruct H as [Hn Ha]. rewrite Hn, (A _ _ _ Hr Ha). reflexivity.
Qed.

(* ---- the value grammar is accepted --------------------------------------------------------------------
   tokens well formed against the declared names (the entity's own name excepted),
   balanced, no '%': both documents of the check accept the value *)
Theorem grammar_value_ok : forall declared key ts,
  forallb (tok_ok (fun n => negb (str_eqb n key) && declared_ok declared n)) ts = true ->
  bal [] ts = true -> no_pct (render ts) = true ->
  value_ok declared key (render ts) = true.
Proof.
  intros declared key ts H Hb Hq. unfold value_ok, content_ok.
  assert (H1 : forallb (tok_ok (declared_ok declared)) ts = true).
  { rewrite forallb_forall in *. intros t Ht. eapply tok_ok_mono; [|apply H; exact Ht].
    intros n Hn. apply andb_true_iff in Hn. tauto. }
  rewrite (grammar_fragment _ _ H1), Hb. cbn [andb].
  unfold ent_repl. rewrite (render_repl _ ts [] H Hq). cbn [rev app].
  rewrite grammar_fragment.
  - rewrite repl_bal. exact Hb.
  - rewrite forallb_forall in *. intros t Ht. apply in_map_iff in Ht. destruct Ht as [t0 [<- Ht0]].
    apply repl_tok_ok. apply H. exact Ht0.
Qed.
