(* The end-to-end theorems of the comparison (C03) and of the linter (C19) take the
   .properties checker as a parameter and assume it silent.  Here the parameter is
   instantiated with the checker model of C06 (Model/CheckProps.v through the adapters
   of Model/CheckPlain.v), and the silence is PROVED for plain files
   (Proofs/CheckSilentProofs.v).

   Both pipelines consult the checker only on entities of the parsed files
   ([compare_ext], [lint_entities_ext]); on those the adapted checker is silent when
     comparison: no reference value has a per cent sign, the reference text does not
                 contain the Localization_and_Plurals literal, the localized text has no
                 U+FFFD and no backslash;
     lint:       the linted text has no per cent sign, no backslash, no U+FFFD and does
                 not contain the literal. *)
From Coq Require Import ZArith NArith List Bool Arith Lia.
From CL Require Import Base.Sx Base.Res Base.Str Regex.Rx Model.Entry Model.Parse
  Model.ParseFormats Model.Unescape Model.AddRemove Model.Compare Model.CompareText
  Model.Lint Model.LintProps Model.CheckProps Model.CheckPropsSpec Model.CheckPlain
  Generated.C06Facts Proofs.C02Props Proofs.CheckPropsProofs Proofs.CheckSilentProofs.
Import ListNotations.

(* ---- characters and literals of slices ----------------------------------------------------- *)
Lemma mem_N_firstn c : forall n (l : str), mem_N c l = false -> mem_N c (firstn n l) = false.
Proof.
  induction n as [|n IH]; intros [|y l] H; cbn in *; auto.
  apply orb_false_iff in H. destruct H as [-> H]. cbn. auto.
Qed.

Lemma mem_N_skipn c : forall n (l : str), mem_N c l = false -> mem_N c (skipn n l) = false.
Proof.
  induction n as [|n IH]; intros [|y l] H; cbn in *; auto.
  apply orb_false_iff in H. destruct H as [_ H]. auto.
Qed.

Lemma mem_N_slice c (s : str) a b : mem_N c s = false -> mem_N c (slice s a b) = false.
Proof. intros H. unfold slice. apply mem_N_firstn, mem_N_skipn, H. Qed.

Lemma starts_with_firstn p : forall n (l : str),
  starts_with p (firstn n l) = true -> starts_with p l = true.
Proof.
  induction p as [|x p IH]; intros n l H; [reflexivity|].
  destruct n as [|n]; destruct l as [|y l]; cbn in *; try discriminate.
  apply andb_true_iff in H. destruct H as [-> H]. cbn. eapply IH, H.
Qed.

Lemma contains_firstn p : forall n (l : str), contains p (firstn n l) = true -> contains p l = true.
Proof.
  induction n as [|n IH]; intros l H.
  - cbn [firstn] in H. destruct p; [destruct l; reflexivity|]. cbn in H. discriminate.
  - destruct l as [|y l]; [exact H|]. cbn [firstn contains] in *.
    apply orb_true_iff in H. apply orb_true_iff. destruct H as [H|H].
    + left. exact (starts_with_firstn p (S n) (y :: l) H).
    + right. apply IH, H.
Qed.

Lemma contains_skipn p : forall n (l : str), contains p (skipn n l) = true -> contains p l = true.
Proof.
  induction n as [|n IH]; intros l H; [exact H|].
  destruct l as [|y l]; [exact H|]. cbn [skipn] in H. cbn [contains].
  apply orb_true_iff. right. apply IH, H.
Qed.

Lemma contains_slice p (s : str) a b : contains p s = false -> contains p (slice s a b) = false.
Proof.
  intros H. destruct (contains p (slice s a b)) eqn:E; [|reflexivity].
  unfold slice in E. apply contains_firstn, contains_skipn in E. congruence.
Qed.

(* ---- what [aux_at] can return: slices of the text --------------------------------------------- *)
Lemma aux_at_plain text id :
  (mem_N c_fffd text = false -> mem_N c_fffd (x_all (aux_at text id)) = false) /\
  (mem_N c_backslash text = false -> mem_N c_backslash (x_raw (aux_at text id)) = false) /\
  (contains lit_plural_comment text = false ->
   match x_comment (aux_at text id) with
   | Some a => contains lit_plural_comment a = false
   | None => True
   end).
Proof.
  unfold aux_at. destruct (walk_properties text) as [es|t]; [|cbn; auto].
  destruct (find_entry id (filter is_localizable es)) as [e|]; [|cbn; auto].
  unfold aux_of_entry. cbn [x_all x_raw x_comment]. split; [|split].
  - intros H. apply mem_N_slice, H.
  - intros H. destruct (Entry.e_val e); [apply mem_N_slice, H|reflexivity].
  - intros H. destruct (Entry.e_pre e); cbn [option_map]; [apply contains_slice, H|exact I].
Qed.

(* ================================ the comparison ============================================== *)
Section CompareExt.
Context {K V : Type} (eqb : K -> K -> bool) (veq : V -> V -> bool) (keyname : K -> bool).
Context (flt : K -> verdict) (merge : bool) (ref l10n : list (@cent K V)).
Context (chk1 chk2 : @cent K V -> @cent K V -> list Compare.finding).
Hypothesis Hext : forall a b, In a ref -> In b l10n -> chk1 a b = chk2 a b.

Lemma getitem_In k (ents : list (@cent K V)) e : getitem eqb k ents = Ok e -> In e ents.
Proof.
  unfold getitem, kt_getitem. destruct (kt_index eqb c_key k ents) as [i|]; [|discriminate].
  destruct (nth_error ents i) eqn:E; [|discriminate]. intros H; inversion H; subst.
  eapply nth_error_In; eauto.
Qed.

Lemma iteration_ext skips x :
  iteration eqb veq keyname flt chk1 merge ref l10n skips x =
  iteration eqb veq keyname flt chk2 merge ref l10n skips x.
Proof.
  destruct x as [[| |] k]; cbn [iteration]; try reflexivity.
  destruct (getitem eqb k ref) as [a|t] eqn:Ea; [|reflexivity]. cbn [bind].
  destruct (getitem eqb k l10n) as [b|t] eqn:Eb; [|reflexivity]. cbn [bind].
  rewrite (Hext a b (getitem_In _ _ _ Ea) (getitem_In _ _ _ Eb)). reflexivity.
Qed.

Lemma run_ext : forall steps a,
  run eqb veq keyname flt chk1 merge ref l10n a steps =
  run eqb veq keyname flt chk2 merge ref l10n a steps.
Proof.
  induction steps as [|x steps IH]; intros a; cbn [run]; [reflexivity|].
  rewrite iteration_ext. destruct (iteration _ _ _ _ chk2 _ _ _ _ _); [apply IH|reflexivity].
Qed.

(* ContentComparer.compare consults the checker only on entities of the two files *)
Lemma compare_ext :
  compare eqb veq keyname flt chk1 merge ref l10n = compare eqb veq keyname flt chk2 merge ref l10n.
Proof. unfold compare. apply run_ext. Qed.
End CompareExt.

Lemma compare_properties_ext j0 flt chk1 chk2 merge tR tL :
  (forall R j1 L j2, parse_properties j0 tR = Ok (R, j1) -> parse_properties j1 tL = Ok (L, j2) ->
     forall a b, In a R -> In b L -> chk1 a b = chk2 a b) ->
  compare_properties j0 flt chk1 merge tR tL = compare_properties j0 flt chk2 merge tR tL.
Proof.
  intros H. unfold compare_properties, compare_texts.
  fold parse_properties.
  destruct (parse_properties j0 tR) as [[R j1]|t] eqn:ER; [|reflexivity]. cbn [bind fst snd].
  destruct (parse_properties j1 tL) as [[L j2]|t] eqn:EL; [|reflexivity]. cbn [bind fst snd].
  apply compare_ext. intros a b Ha Hb. exact (H R j1 L j2 eq_refl EL a b Ha Hb).
Qed.

(* the adapted checker on a pair whose reference value has no per cent sign, for plain texts *)
Lemma props_chk_silent locale tR tL a b :
  mem_N c_pct (c_val a) = false ->
  contains lit_plural_comment tR = false ->
  mem_N c_fffd tL = false -> mem_N c_backslash tL = false ->
  props_chk locale tR tL a b = [].
Proof.
  intros Hv Hm Hf Hb. unfold props_chk.
  rewrite check_plain_silent; [reflexivity|].
  unfold plain_in, cmp_check_in. cbv zeta. cbn [ref_val l10n_all l10n_raw].
  destruct (aux_at_plain tL (Z.to_nat (c_id b))) as (A1 & A2 & _).
  destruct (aux_at_plain tR (Z.to_nat (c_id a))) as (_ & _ & A3).
  specialize (A3 Hm).
  apply andb_true_iff; split; [apply andb_true_iff; split; [apply andb_true_iff; split|]|].
  - apply negb_true_iff. exact Hv.
  - apply negb_true_iff. exact (A1 Hf).
  - apply negb_true_iff. exact (A2 Hb).
  - destruct (x_comment (aux_at tR (Z.to_nat (c_id a)))) as [all|] eqn:Ex.
    + erewrite not_plural_no_marker; [reflexivity|exact Ex|exact A3].
    + rewrite not_plural_no_comment; [reflexivity|exact Ex].
Qed.

(* ================================== the linter ================================================ *)
Section LintExt.
Context {K : Type} (keqb : K -> K -> bool) {Msg : Type}.
Context (equals : @entity K -> @entity K -> result bool).
Context (kc : list (K * nat)) (ref : option (list (@entity K))).
Context (chk1 chk2 : @checker K Msg).

Lemma lint_entities_ext : forall l,
  (forall e, In e l -> e_junk e = false -> chk1 e e = chk2 e e) ->
  lint_entities keqb equals (mkLinter kc (Some chk1) ref) l =
  lint_entities keqb equals (mkLinter kc (Some chk2) ref) l.
Proof.
  intros l H. unfold lint_entities. f_equal.
  induction l as [|e l IH]; [reflexivity|]. cbn [Lint.mapM].
  assert (lint_entity keqb equals (mkLinter kc (Some chk1) ref) e =
          lint_entity keqb equals (mkLinter kc (Some chk2) ref) e) as ->.
  { unfold lint_entity, handle_junk. destruct (e_junk e) eqn:Ej.
    - destruct (e_position e 0); [|reflexivity]. cbn [bind].
      destruct (e_position e (-1)); reflexivity.
    - cbn [bind]. unfold lint_value. cbn [the_checker].
      rewrite (H e (or_introl eq_refl) Ej). reflexivity. }
  rewrite IH; [reflexivity|]. intros e' He'. apply H. right. exact He'.
Qed.
End LintExt.

(* a value without a backslash is its own meaning *)
Lemma props_val_plain raw : mem_N c_backslash raw = false -> props_val raw = Ok raw.
Proof.
  intros H.
  assert (toks_ok (map TPlain raw) = true /\ render_toks (map TPlain raw) = raw /\
          meaning_toks (map TPlain raw) = raw) as (H1 & H2 & H3).
  { induction raw as [|c raw IH]; [repeat split; reflexivity|].
    cbn [mem_N] in H. apply orb_false_iff in H. destruct H as [Hc H].
    destruct (IH H) as (I1 & I2 & I3). split; [|split].
    - cbn [map toks_ok tok_ok follows_ok]. rewrite I1, N.eqb_sym. unfold c_backslash in Hc.
      rewrite Hc. reflexivity.
    - unfold render_toks in *. cbn [map concat render_tok app]. rewrite I2. reflexivity.
    - unfold meaning_toks in *. cbn [map concat meaning_tok app]. rewrite I3. reflexivity. }
  rewrite <- H2 at 1. rewrite (unescape_properties _ H1), H3. reflexivity.
Qed.

(* the raw value of an entity object of a text is a slice of the text *)
Lemma fmt_entities_raw vp (s : str) : forall es j e,
  In e (fmt_entities vp s j es) ->
  exists a b, Lint.e_raw e = slice s a b \/ Lint.e_raw e = [].
Proof.
  induction es as [|x es IH]; intros j e H; [contradiction|]. cbn [fmt_entities] in H.
  destruct (Entry.e_kind x).
  - destruct H as [<-|H]; [|eauto]. cbn [Lint.e_raw]. unfold osp_text.
    destruct (Entry.e_val x) as [sp|]; [exists (fst sp), (snd sp); left; reflexivity|exists 0%nat, 0%nat; right; reflexivity].
  - eauto.
  - eauto.
  - destruct H as [<-|H]; [|eauto]. cbn [Lint.e_raw]. exists (fst (e_span x)), (snd (e_span x)). left. reflexivity.
  - eauto.
  - eauto.
Qed.

Lemma props_lint_chk_silent locale text (e e' : @entity str) :
  mem_N c_pct text = false -> mem_N c_backslash text = false -> mem_N c_fffd text = false ->
  contains lit_plural_comment text = false ->
  (exists a b, Lint.e_raw e = slice text a b \/ Lint.e_raw e = []) ->
  props_lint_chk locale text e e' = [].
Proof.
  intros Hp Hb Hf Hm (a & b & Hraw). unfold props_lint_chk, lint_check_in.
  assert (mem_N c_pct (Lint.e_raw e) = false /\ mem_N c_backslash (Lint.e_raw e) = false) as [R1 R2].
  { destruct Hraw as [-> | ->]; [split; apply mem_N_slice; assumption|split; reflexivity]. }
  rewrite (props_val_plain _ R2).
  destruct (aux_at_plain text (Lint.e_id e)) as (A1 & A2 & A3).
  rewrite check_plain_silent_self; auto. exact (A3 Hm).
Qed.

Lemma lint_properties_ext (chk1 chk2 : @checker str str) j0 text ref :
  (forall e, (exists a b, Lint.e_raw e = slice text a b \/ Lint.e_raw e = []) -> chk1 e e = chk2 e e) ->
  lint_properties j0 (Some chk1) text ref = lint_properties j0 (Some chk2) text ref.
Proof.
  intros H. unfold lint_properties, lint_text.
  destruct (match ref with
            | Some rt => _
            | None => _
            end) as [r|t]; [|reflexivity]. cbn [bind].
  destruct (walk_properties text) as [es|t]; [|reflexivity]. cbn [bind].
  unfold new_linter. apply lint_entities_ext. intros e He _. apply H.
  eapply fmt_entities_raw. exact He.
Qed.
