(* Wire encoding of regexes and match results (harness <-> model). *)
From Coq Require Import ZArith NArith List Bool Arith.
From CL Require Import Base.Sx Regex.Rx.
Import ListNotations.
Open Scope Z_scope.

Fixpoint rx_of_sx (x : sx) : rx :=
  match x with
  | L (A 0 :: _) => Eps
  | L [A 1; neg; rs] => Chr (to_bool neg) (to_list (to_pair to_N to_N) rs)
  | L [A 2; a; b] => Cat (rx_of_sx a) (rx_of_sx b)
  | L [A 3; a; b] => Alt (rx_of_sx a) (rx_of_sx b)
  | L [A 4; g; lo; hi; r] =>
      Rep (to_bool g) (to_nat lo) (to_option to_nat hi) (rx_of_sx r)
  | L [A 5; n; r] => Grp (to_nat n) (rx_of_sx r)
  | L [A 6; n] => Bref (to_nat n)
  | L [A 7; mu] => Bol (to_bool mu)
  | L [A 8; mu] => Eol (to_bool mu)
  | L (A 9 :: _) => EndStr
  | L [A 10; ah; ng; r] => Look (to_bool ah) (to_bool ng) (rx_of_sx r)
  | _ => Eps
  end.

Definition span_sx (sp : nat * nat) : sx := L [of_nat (fst sp); of_nat (snd sp)].

(* spans of groups 1..n *)
Definition groups_sx (n : nat) (r : mres) : sx :=
  of_list (fun g => of_option span_sx (group g r)) (seq 1 n).

Definition mres_sx (n : nat) (r : mres) : sx :=
  L [of_nat (m_start r); of_nat (m_end r); groups_sx n r].

Definition mr_sx (n : nat) (r : mr) : sx :=
  match r with
  | MNone => L []
  | MSome x => L [mres_sx n x]
  | MFuel => A (-9)
  end.

Definition finditer_sx (n : nat) (r : option (list mres)) : sx :=
  match r with
  | None => A (-9)
  | Some l => of_list (mres_sx n) l
  end.
