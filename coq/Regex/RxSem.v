(* A declarative reading of the regexes of Rx.v and its relation to the
   backtracking matcher:

     m_sem       (soundness)   whenever the matcher enters its continuation, the
                 state it hands over is related to the start state by [sem]:
                 the consumed text is in the language of the regex and the
                 captures are the ones [sem] records;
     m_complete  (completeness, for the fragment [plain]: no look-around,
                 repetitions of single characters without upper bound) if [sem]
                 relates s to s' and the continuation does not fail at s', the
                 matcher does not fail at s: backtracking explores every
                 alternative.

   Class-style consequences used by the path matcher proofs: a literal
   consumes itself, a repetition of a character class consumes a run of
   characters of that class, group-free regexes leave the captures alone. *)
From Coq Require Import NArith List Bool Arith Lia.
From CL Require Import Regex.Rx Regex.RxLemmas.
Import ListNotations.

Inductive iter (P : st -> st -> Prop) : nat -> st -> st -> Prop :=
| iter_0 : forall s, iter P 0 s s
| iter_S : forall n s1 s2 s3, P s1 s2 -> iter P n s2 s3 -> iter P (S n) s1 s3.

Inductive sem : rx -> st -> st -> Prop :=
| S_Eps : forall s, sem Eps s s
| S_Chr : forall neg rs s c t, suf s = c :: t -> chr_ok neg rs c = true ->
    sem (Chr neg rs) s (advance s c t)
| S_Cat : forall a b s1 s2 s3, sem a s1 s2 -> sem b s2 s3 -> sem (Cat a b) s1 s3
| S_AltL : forall a b s s', sem a s s' -> sem (Alt a b) s s'
| S_AltR : forall a b s s', sem b s s' -> sem (Alt a b) s s'
| S_Rep : forall g lo hi r n s s', iter (sem r) n s s' -> lo <= n ->
    sem (Rep g lo hi r) s s'
| S_Grp : forall n r s s', sem r s s' -> sem (Grp n r) s (set_cap n (pos s, pos s') s')
| S_Bref : forall n s a b s', get_cap n (caps s) = Some (a, b) ->
    lit (rev (firstn (b - a) (skipn (pos s - b) (pre s)))) s = Some s' ->
    sem (Bref n) s s'
| S_Bol : forall mu s, at_bol mu s = true -> sem (Bol mu) s s
| S_Eol : forall mu s, at_eol mu s = true -> sem (Eol mu) s s
| S_End : forall s, suf s = [] -> sem EndStr s s
| S_Look : forall ah ng r s, sem (Look ah ng r) s s.

(* ---- soundness -------------------------------------------------------------- *)
Lemma rep_loop_sem : forall body (P : st -> st -> Prop) g lo hi,
  (forall s k x, body s k = Done x -> exists s', P s s' /\ k s' = Done x) ->
  forall fuel count s k x, rep_loop body g lo hi fuel count s k = Done x ->
  exists n s', iter P n s s' /\ lo <= count + n /\ k s' = Done x.
Proof.
  intros body P g lo hi Hb. induction fuel as [|f IH]; intros count s k x H.
  - discriminate.
  - rewrite rep_loop_S in H. destruct (count <? lo) eqn:Hc.
    + apply Hb in H. destruct H as [s1 [P1 H]].
      apply IH in H. destruct H as [n [s2 [I2 [Hn H]]]].
      exists (S n), s2. split; [econstructor; eauto|]. split; [lia|auto].
    + apply Nat.ltb_ge in Hc. cbv zeta in H.
      assert (Hm : (if match hi with None => true | Some h => count <? h end then
                      body s (fun s' => if Nat.eqb (pos s') (pos s) then Fail
                                        else rep_loop body g lo hi f (S count) s' k)
                    else Fail) = Done x ->
                   exists n s', iter P n s s' /\ lo <= count + n /\ k s' = Done x).
      { intro Hm. destruct (match hi with None => true | Some h => count <? h end);
          [|discriminate].
        apply Hb in Hm. destruct Hm as [s1 [P1 Hm]].
        destruct (Nat.eqb (pos s1) (pos s)); [discriminate|].
        apply IH in Hm. destruct Hm as [n [s2 [I2 [Hn Hm]]]].
        exists (S n), s2. split; [econstructor; eauto|]. split; [lia|auto]. }
      destruct g; apply orelse_done in H; destruct H as [H|[_ H]]; auto;
        exists 0, s; (split; [constructor|split; [lia|exact H]]).
Qed.

Theorem m_sem : forall r s k x, m r s k = Done x ->
  exists s', sem r s s' /\ k s' = Done x.
Proof.
  induction r; intros s k x H; simpl in H.
  - exists s. split; [constructor|auto].
  - destruct (suf s) as [|c t] eqn:Hs; [discriminate|].
    destruct (chr_ok neg rs c) eqn:Hc; [|discriminate].
    exists (advance s c t). split; [constructor; auto|auto].
  - apply IHr1 in H. destruct H as [s1 [S1 H]].
    apply IHr2 in H. destruct H as [s2 [S2 H]].
    exists s2. split; [econstructor; eauto|auto].
  - apply orelse_done in H. destruct H as [H|[_ H]].
    + apply IHr1 in H. destruct H as [s1 [S1 H]]. exists s1. split; [apply S_AltL; auto|auto].
    + apply IHr2 in H. destruct H as [s1 [S1 H]]. exists s1. split; [apply S_AltR; auto|auto].
  - apply (rep_loop_sem _ (sem r) _ _ _ IHr) in H. destruct H as [n [s1 [I1 [Hn H]]]].
    exists s1. split; [econstructor; eauto; lia|auto].
  - apply IHr in H. destruct H as [s1 [S1 H]].
    exists (set_cap n (pos s, pos s1) s1). split; [constructor; auto|auto].
  - destruct (get_cap n (caps s)) as [[a b]|] eqn:Hg; [|discriminate].
    destruct (lit _ s) as [s1|] eqn:Hl; [|discriminate].
    exists s1. split; [econstructor; eauto|auto].
  - destruct (at_bol multi s) eqn:Hb; [|discriminate]. exists s. split; [constructor; auto|auto].
  - destruct (at_eol multi s) eqn:Hb; [|discriminate]. exists s. split; [constructor; auto|auto].
  - destruct (suf s) eqn:Hs; [|discriminate]. exists s. split; [constructor; auto|auto].
  - destruct ahead.
    + destruct (m r s Done); destruct neg; try discriminate;
        exists s; (split; [constructor|auto]).
    + destruct (pre s) as [|c p].
      * destruct neg; [|discriminate]. exists s. split; [constructor|auto].
      * match type of H with match ?e with _ => _ end = _ => destruct e end;
          destruct neg; try discriminate; exists s; (split; [constructor|auto]).
Qed.

(* ---- completeness on the plain fragment ---------------------------------------- *)
Fixpoint plain (r : rx) : bool :=
  match r with
  | Eps | Chr _ _ | Bref _ | Bol _ | Eol _ | EndStr => true
  | Cat a b | Alt a b => plain a && plain b
  | Rep _ _ hi r' => match hi, r' with None, Chr _ _ => true | _, _ => false end
  | Grp _ r' => plain r'
  | Look _ _ _ => false
  end.

Lemma m_chr_step : forall neg rs s c t (K : st -> out),
  suf s = c :: t -> chr_ok neg rs c = true -> m (Chr neg rs) s K = K (advance s c t).
Proof. intros. simpl. rewrite H, H0. reflexivity. Qed.

Lemma rep_chr_complete : forall neg rs g lo (k : st -> out) n s s',
  iter (sem (Chr neg rs)) n s s' -> k s' <> Fail ->
  forall fuel count, lo <= count + n ->
  rep_loop (m (Chr neg rs)) g lo None fuel count s k <> Fail.
Proof.
  intros neg rs g lo k n s s' HI Hk. induction HI as [s|n s1 s2 s3 H1 HI IH];
    intros fuel count Hlo.
  - destruct fuel as [|f]; [discriminate|]. rewrite rep_loop_S.
    assert (Hc : count <? lo = false) by (apply Nat.ltb_ge; lia). rewrite Hc. cbv zeta.
    destruct g.
    + intro H. destruct (m (Chr neg rs) s _); simpl in H; auto; discriminate.
    + intro H. destruct (k s); simpl in H; auto; discriminate.
  - destruct fuel as [|f]; [discriminate|]. rewrite rep_loop_S.
    inversion H1; subst. specialize (IH Hk).
    destruct (count <? lo) eqn:Hc.
    + rewrite (m_chr_step _ _ _ _ _ _ H2 H5). apply IH. lia.
    + cbv zeta. rewrite (m_chr_step _ _ _ _ _ _ H2 H5).
      assert (Hp : Nat.eqb (pos (advance s1 c t)) (pos s1) = false).
      { apply Nat.eqb_neq. simpl. lia. }
      rewrite Hp. specialize (IH f (S count)).
      destruct g.
      * intro H. destruct (rep_loop _ true lo None f (S count) (advance s1 c t) k) eqn:E;
          simpl in H; try discriminate. apply IH; auto. lia.
      * intro H. destruct (k s1); simpl in H; try discriminate.
        revert H. apply IH. lia.
Qed.

Theorem m_complete : forall r, plain r = true -> forall s s' k,
  sem r s s' -> k s' <> Fail -> m r s k <> Fail.
Proof.
  induction r; intros Hp s s' k HS Hk; simpl in Hp.
  - inversion HS; subst. simpl. auto.
  - inversion HS; subst. erewrite m_chr_step; eauto.
  - apply andb_true_iff in Hp. destruct Hp as [Hp1 Hp2].
    inversion HS; subst. simpl. eapply IHr1; eauto.
  - apply andb_true_iff in Hp. destruct Hp as [Hp1 Hp2]. simpl.
    inversion HS; subst.
    + intro H. destruct (m r1 s k) eqn:E; simpl in H; try discriminate.
      revert E. eapply IHr1; eauto.
    + intro H. destruct (m r1 s k) eqn:E; simpl in H; try discriminate.
      revert H. eapply IHr2; eauto.
  - destruct hi; [discriminate|]. destruct r; try discriminate.
    inversion HS; subst. simpl. eapply rep_chr_complete; eauto.
  - inversion HS; subst. simpl. eapply IHr; eauto.
  - inversion HS; subst. simpl.
    match goal with H : get_cap _ _ = _ |- _ => rewrite H end.
    match goal with H : lit _ _ = _ |- _ => rewrite H end. auto.
  - inversion HS; subst. simpl.
    match goal with H : at_bol _ _ = _ |- _ => rewrite H end. auto.
  - inversion HS; subst. simpl.
    match goal with H : at_eol _ _ = _ |- _ => rewrite H end. auto.
  - inversion HS; subst. simpl.
    match goal with H : suf _ = _ |- _ => rewrite H end. auto.
  - discriminate.
Qed.

(* ---- consequences for the API ------------------------------------------------- *)
Lemma rmatch_sem : forall r s res, rmatch r s 0 = MSome res ->
  exists s', sem r (st_at s 0) s' /\ res = mkres 0 (pos s') (caps s').
Proof.
  unfold rmatch, run_at. intros r s res H. simpl in H.
  destruct (m r (st_at s 0) _) as [|s1|] eqn:E; try discriminate.
  apply m_sem in E. destruct E as [s' [HS E]]. inversion E; subst s1.
  inversion H; subst. exists s'. auto.
Qed.

Lemma rmatch_complete : forall r s s', plain r = true ->
  sem r (st_at s 0) s' -> exists res, rmatch r s 0 = MSome res.
Proof.
  unfold rmatch, run_at. intros r s s' Hp HS. simpl.
  destruct (m r (st_at s 0) _) as [|s1|] eqn:E.
  - exfalso. revert E. eapply m_complete; eauto. discriminate.
  - eexists. reflexivity.
  - exfalso. revert E. apply m_no_fuel. discriminate.
Qed.

(* ---- structure of sem ----------------------------------------------------------- *)
Fixpoint no_grp (r : rx) : bool :=
  match r with
  | Grp _ _ => false
  | Cat a b | Alt a b => no_grp a && no_grp b
  | Rep _ _ _ r' => no_grp r'
  | _ => true
  end.

Lemma lit_caps : forall l s s', lit l s = Some s' -> caps s' = caps s.
Proof.
  induction l as [|c l IH]; intros s s' H; simpl in H.
  - inversion H; auto.
  - destruct (suf s) as [|d t]; [discriminate|]. destruct (N.eqb c d); [|discriminate].
    apply IH in H. simpl in H. auto.
Qed.

Lemma iter_caps : forall (P : st -> st -> Prop),
  (forall s s', P s s' -> caps s' = caps s) ->
  forall n s s', iter P n s s' -> caps s' = caps s.
Proof.
  intros P HP n s s' H. induction H as [|n s1 s2 s3 H1 HI IH]; auto.
  transitivity (caps s2); auto.
Qed.

Lemma sem_no_grp_caps : forall r, no_grp r = true -> forall s s', sem r s s' -> caps s' = caps s.
Proof.
  induction r; intros Hn s s' HS; simpl in Hn; inversion HS; subst; auto.
  - apply andb_true_iff in Hn. destruct Hn as [Ha Hb].
    transitivity (caps s2); eauto.
  - apply andb_true_iff in Hn. destruct Hn as [Ha Hb]. eauto.
  - apply andb_true_iff in Hn. destruct Hn as [Ha Hb]. eauto.
  - eapply iter_caps; [|eassumption]. intros; eapply IHr; eauto.
  - discriminate.
  - eapply lit_caps; eauto.
Qed.

Lemma lit_ext : forall l s s', lit l s = Some s' ->
  suf s = l ++ suf s' /\ pre s' = rev l ++ pre s /\ pos s' = pos s + length l.
Proof.
  induction l as [|c l IH]; intros s s' H; simpl in H.
  - inversion H; subst. simpl. repeat split. lia.
  - destruct (suf s) as [|d t] eqn:Hs; [discriminate|].
    destruct (N.eqb c d) eqn:Hc; [|discriminate]. apply N.eqb_eq in Hc. subst d.
    apply IH in H. simpl in H. destruct H as [H1 [H2 H3]].
    simpl. rewrite H1, H2, H3. repeat split; try lia.
    rewrite <- app_assoc. reflexivity.
Qed.

(* the text a step consumes *)
Definition consumed (s s' : st) (t : list N) : Prop :=
  suf s = t ++ suf s' /\ pre s' = rev t ++ pre s /\ pos s' = pos s + length t.

Lemma consumed_refl : forall s, consumed s s [].
Proof. intros s. unfold consumed. simpl. repeat split. lia. Qed.

Lemma consumed_trans : forall a b c t u, consumed a b t -> consumed b c u -> consumed a c (t ++ u).
Proof.
  intros a b c t u [H1 [H2 H3]] [H4 [H5 H6]]. unfold consumed.
  rewrite H1, H4, H5, H2, H6, H3, rev_app_distr, app_length, !app_assoc. repeat split. lia.
Qed.

Lemma consumed_set_cap : forall s s' t n sp, consumed s s' t -> consumed s (set_cap n sp s') t.
Proof. intros s s' t n sp H. exact H. Qed.

Lemma iter_consumed : forall (P : st -> st -> Prop),
  (forall s s', P s s' -> exists t, consumed s s' t) ->
  forall n s s', iter P n s s' -> exists t, consumed s s' t.
Proof.
  intros P HP n s s' H. induction H as [s|n s1 s2 s3 H1 HI IH].
  - exists []. apply consumed_refl.
  - apply HP in H1. destruct H1 as [t H1]. destruct IH as [u IH].
    exists (t ++ u). eapply consumed_trans; eauto.
Qed.

Lemma sem_consumed : forall r s s', sem r s s' -> exists t, consumed s s' t.
Proof.
  induction r; intros s s' HS; inversion HS; subst;
    try (exists []; apply consumed_refl).
  - exists [c]. unfold consumed. simpl.
    match goal with H : suf _ = _ |- _ => rewrite H end. repeat split. lia.
  - match goal with H : sem r1 _ _ |- _ => apply IHr1 in H; destruct H as [t Ht] end.
    match goal with H : sem r2 _ _ |- _ => apply IHr2 in H; destruct H as [u Hu] end.
    exists (t ++ u). eapply consumed_trans; eauto.
  - eauto.
  - eauto.
  - eapply iter_consumed; [|eassumption]. auto.
  - match goal with H : sem r _ _ |- _ => apply IHr in H; destruct H as [t Ht] end.
    exists t. exact Ht.
  - match goal with H : lit _ _ = _ |- _ => apply lit_ext in H end. eexists. eassumption.
Qed.

(* a sequence of single characters *)
Lemma iter_chr : forall neg rs n s s', iter (sem (Chr neg rs)) n s s' ->
  exists t, consumed s s' t /\ length t = n /\ Forall (fun c => chr_ok neg rs c = true) t /\
            caps s' = caps s.
Proof.
  intros neg rs n s s' H. induction H as [s|n s1 s2 s3 HP HI IH].
  - exists []. split; [apply consumed_refl|]. auto.
  - inversion HP; subst. destruct IH as [u [Hc [Hl [Hf Hcaps]]]].
    exists (c :: u). split; [|split; [simpl; lia|split; [constructor; auto|simpl in Hcaps; auto]]].
    change (c :: u) with ([c] ++ u). eapply consumed_trans; [|exact Hc].
    unfold consumed. simpl.
    match goal with H : suf _ = _ |- _ => rewrite H end. repeat split. lia.
Qed.

Lemma iter_chr_intro : forall neg rs t s, Forall (fun c => chr_ok neg rs c = true) t ->
  forall u, suf s = t ++ u ->
  exists s', iter (sem (Chr neg rs)) (length t) s s' /\ consumed s s' t /\ suf s' = u /\
             caps s' = caps s.
Proof.
  intros neg rs t. induction t as [|c t IH]; intros s Hf u Hs.
  - exists s. split; [constructor|]. split; [apply consumed_refl|]. auto.
  - inversion Hf; subst. simpl in Hs.
    destruct (IH (advance s c (t ++ u)) H2 u eq_refl) as [s' [HI [Hc [Hu Hcaps]]]].
    exists s'. split; [|split; [|split; auto]].
    + simpl. econstructor; [|exact HI]. constructor; auto.
    + change (c :: t) with ([c] ++ t). eapply consumed_trans; [|exact Hc].
      unfold consumed. simpl. rewrite Hs. repeat split. lia.
Qed.
