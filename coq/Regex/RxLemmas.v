(* Structural lemmas about the backtracking matcher of Rx.v: the continuation is
   only entered at forward extensions of the start state, captures stay inside
   the matched span, non-nullable regexes consume, fuel is always sufficient,
   and the API functions (match / search / finditer) return ordered spans
   inside the subject. *)
From Coq Require Import NArith List Bool Arith Lia.
From CL Require Import Regex.Rx.
Import ListNotations.

(* s' is s moved forward over [mid] (captures may differ) *)
Definition ext (s s' : st) : Prop :=
  exists mid, pre s' = rev mid ++ pre s /\ suf s = mid ++ suf s' /\ pos s' = pos s + length mid.

Definition wf (s : st) : Prop := pos s = length (pre s).

(* every recorded capture lies in [lo, hi] and is ordered *)
Definition caps_in (lo hi : nat) (cs : list (nat * (nat * nat))) : Prop :=
  Forall (fun c => lo <= fst (snd c) /\ fst (snd c) <= snd (snd c) /\ snd (snd c) <= hi) cs.

(* ---- ext ---------------------------------------------------------------- *)
Lemma ext_refl : forall s, ext s s.
Proof. intros s. exists []. simpl. repeat split. lia. Qed.

Lemma ext_trans : forall a b c, ext a b -> ext b c -> ext a c.
Proof.
  intros a b c [m1 [H1 [H2 H3]]] [m2 [H4 [H5 H6]]].
  exists (m1 ++ m2). split; [|split].
  - rewrite H4, H1, rev_app_distr, app_assoc. reflexivity.
  - rewrite H2, H5, app_assoc. reflexivity.
  - rewrite app_length. lia.
Qed.

Lemma ext_len : forall s s', ext s s' ->
  pos s <= pos s' /\ length (suf s) = (pos s' - pos s) + length (suf s').
Proof.
  intros s s' [mid [H1 [H2 H3]]]. rewrite H2, app_length. lia.
Qed.

Lemma ext_pos_le : forall s s', ext s s' -> pos s <= pos s'.
Proof. intros s s' H. apply ext_len in H. lia. Qed.

Lemma ext_wf : forall s s', wf s -> ext s s' -> wf s'.
Proof.
  unfold wf. intros s s' W [mid [H1 [H2 H3]]].
  rewrite H1, app_length, rev_length. lia.
Qed.

Lemma ext_advance : forall s c t, suf s = c :: t -> ext s (advance s c t).
Proof.
  intros s c t H. exists [c]. simpl. repeat split; auto. lia.
Qed.

Lemma caps_in_mono : forall lo hi hi' cs, hi <= hi' -> caps_in lo hi cs -> caps_in lo hi' cs.
Proof.
  unfold caps_in. intros lo hi hi' cs Hh H.
  eapply Forall_impl; [|exact H]. simpl. intros a Ha. lia.
Qed.

Lemma caps_in_nil : forall lo hi, caps_in lo hi [].
Proof. intros. constructor. Qed.

(* ---- the step relation -------------------------------------------------- *)
(* R b s s': s' extends s, captures recorded meanwhile stay between the two
   positions, and if b = false at least one character was consumed *)
Definition R (b : bool) (s s' : st) : Prop :=
  ext s s' /\
  (b = false -> pos s < pos s') /\
  (forall lo, lo <= pos s -> caps_in lo (pos s) (caps s) -> caps_in lo (pos s') (caps s')).

Lemma R_refl : forall s, R true s s.
Proof. intros s. split; [apply ext_refl|]. split; [discriminate|auto]. Qed.

Lemma R_trans : forall b1 b2 a b c, R b1 a b -> R b2 b c -> R (b1 && b2) a c.
Proof.
  intros b1 b2 a b c [E1 [P1 C1]] [E2 [P2 C2]].
  pose proof (ext_pos_le _ _ E1). pose proof (ext_pos_le _ _ E2).
  split; [eapply ext_trans; eauto|]. split.
  - intro Hb. apply andb_false_iff in Hb. destruct Hb as [Hb|Hb].
    + apply P1 in Hb. lia.
    + apply P2 in Hb. lia.
  - intros lo Hlo Hc. apply C2; [lia|]. apply C1; auto.
Qed.

Lemma R_weaken : forall b b' s s', (b' = false -> b = false) -> R b s s' -> R b' s s'.
Proof.
  intros b b' s s' Hb [E [P C]]. split; auto.
Qed.

Lemma R_ext : forall b s s', R b s s' -> ext s s'.
Proof. intros b s s' [E _]. exact E. Qed.

Lemma R_advance : forall s c t, suf s = c :: t -> R false s (advance s c t).
Proof.
  intros s c t H. split; [apply ext_advance; auto|]. split.
  - intros _. simpl. lia.
  - intros lo Hlo Hc. simpl. eapply caps_in_mono; [|exact Hc]. lia.
Qed.

Lemma R_set_cap : forall b n s s', R b s s' -> R b s (set_cap n (pos s, pos s') s').
Proof.
  intros b n s s' [E [P C]]. pose proof (ext_pos_le _ _ E) as Hle.
  split; [|split].
  - destruct E as [mid E]. exists mid. exact E.
  - exact P.
  - intros lo Hlo Hc. simpl. constructor.
    + simpl. lia.
    + apply C; auto.
Qed.

Lemma lit_R : forall l s s', lit l s = Some s' -> R true s s'.
Proof.
  induction l as [|c l IH]; intros s s' H; simpl in H.
  - inversion H; subst. apply R_refl.
  - destruct (suf s) as [|d t] eqn:Hs; [discriminate|].
    destruct (N.eqb c d); [|discriminate].
    apply IH in H. apply (R_trans false true _ _ _ (R_advance s d t Hs)) in H.
    eapply R_weaken; [|exact H]. discriminate.
Qed.

(* ---- orelse ------------------------------------------------------------- *)
Lemma orelse_done : forall a b x, orelse a b = Done x ->
  a = Done x \/ (a = Fail /\ b tt = Done x).
Proof. intros [] b x H; simpl in H; auto; discriminate. Qed.

Lemma orelse_nofuel : forall a b, orelse a b = NoFuel ->
  a = NoFuel \/ (a = Fail /\ b tt = NoFuel).
Proof. intros [] b H; simpl in H; auto; discriminate. Qed.

(* ---- the master lemma --------------------------------------------------- *)
Lemma rep_loop_S : forall body g lo hi f count s k,
  rep_loop body g lo hi (S f) count s k =
  if count <? lo then
    body s (fun s' => rep_loop body g lo hi f (S count) s' k)
  else
    let more (_ : unit) :=
      if match hi with None => true | Some h => count <? h end then
        body s (fun s' => if Nat.eqb (pos s') (pos s) then Fail
                          else rep_loop body g lo hi f (S count) s' k)
      else Fail in
    if g then orelse (more tt) (fun _ => k s)
    else orelse (k s) more.
Proof. reflexivity. Qed.

Lemma rep_loop_R : forall body b g lo hi,
  (forall s k x, body s k = Done x -> exists s', R b s s' /\ k s' = Done x) ->
  forall fuel count s k x, rep_loop body g lo hi fuel count s k = Done x ->
  exists s', R (if count <? lo then b else true) s s' /\ k s' = Done x.
Proof.
  intros body b g lo hi Hb. induction fuel as [|f IH]; intros count s k x H.
  - discriminate.
  - rewrite rep_loop_S in H. destruct (count <? lo) eqn:Hc.
    + apply Hb in H. destruct H as [s1 [R1 H]].
      apply IH in H. destruct H as [s2 [R2 H]].
      exists s2. split; auto.
      eapply R_weaken; [|eapply R_trans; eauto].
      intro Hf. rewrite Hf. reflexivity.
    + cbv zeta in H.
      assert (Hm : (if match hi with None => true | Some h => count <? h end then
                      body s (fun s' => if Nat.eqb (pos s') (pos s) then Fail
                                        else rep_loop body g lo hi f (S count) s' k)
                    else Fail) = Done x ->
                   exists s', R true s s' /\ k s' = Done x).
      { intro Hm. destruct (match hi with None => true | Some h => count <? h end);
          [|discriminate].
        apply Hb in Hm. destruct Hm as [s1 [R1 Hm]].
        destruct (Nat.eqb (pos s1) (pos s)); [discriminate|].
        apply IH in Hm. destruct Hm as [s2 [R2 Hm]].
        exists s2. split; auto.
        eapply R_weaken; [|eapply R_trans; eauto]. discriminate. }
      destruct g; apply orelse_done in H; destruct H as [H|[_ H]]; auto;
        exists s; (split; [apply R_refl|exact H]).
Qed.

Lemma m_R : forall r s k x, m r s k = Done x ->
  exists s', R (nullable r) s s' /\ k s' = Done x.
Proof.
  induction r; intros s k x H; simpl in H.
  - (* Eps *) exists s. split; [apply R_refl|auto].
  - (* Chr *)
    destruct (suf s) as [|c t] eqn:Hs; [discriminate|].
    destruct (chr_ok neg rs c); [|discriminate].
    exists (advance s c t). split; [apply R_advance; auto|auto].
  - (* Cat *)
    apply IHr1 in H. destruct H as [s1 [R1 H]].
    apply IHr2 in H. destruct H as [s2 [R2 H]].
    exists s2. split; auto. simpl. eapply R_trans; eauto.
  - (* Alt *)
    apply orelse_done in H. destruct H as [H|[_ H]].
    + apply IHr1 in H. destruct H as [s1 [R1 H]]. exists s1. split; auto.
      simpl. eapply R_weaken; [|exact R1]. intro Hf. apply orb_false_iff in Hf. tauto.
    + apply IHr2 in H. destruct H as [s1 [R1 H]]. exists s1. split; auto.
      simpl. eapply R_weaken; [|exact R1]. intro Hf. apply orb_false_iff in Hf. tauto.
  - (* Rep *)
    apply (rep_loop_R _ (nullable r) _ _ _ IHr) in H. destruct H as [s1 [R1 H]].
    exists s1. split; auto. simpl.
    eapply R_weaken; [|exact R1]. intro Hf. apply orb_false_iff in Hf.
    destruct Hf as [Hl Hn]. destruct lo; [discriminate|]. simpl. exact Hn.
  - (* Grp *)
    apply IHr in H. destruct H as [s1 [R1 H]].
    exists (set_cap n (pos s, pos s1) s1). split; auto. simpl. apply R_set_cap; auto.
  - (* Bref *)
    destruct (get_cap n (caps s)) as [[a b]|]; [|discriminate].
    destruct (lit _ s) as [s1|] eqn:Hl; [|discriminate].
    exists s1. split; auto. simpl. eapply lit_R; eauto.
  - (* Bol *) destruct (at_bol multi s); [|discriminate]. exists s. split; [apply R_refl|auto].
  - (* Eol *) destruct (at_eol multi s); [|discriminate]. exists s. split; [apply R_refl|auto].
  - (* EndStr *) destruct (suf s); [|discriminate]. exists s. split; [apply R_refl|auto].
  - (* Look *)
    destruct ahead.
    + destruct (m r s Done); destruct neg; try discriminate;
        exists s; (split; [apply R_refl|auto]).
    + destruct (pre s) as [|c p].
      * destruct neg; [|discriminate]. exists s. split; [apply R_refl|auto].
      * match type of H with match ?e with _ => _ end = _ => destruct e end;
          destruct neg; try discriminate; exists s; (split; [apply R_refl|auto]).
Qed.

(* 1 *)
Lemma m_ext : forall r s k x, m r s k = Done x -> exists s', ext s s' /\ k s' = Done x.
Proof.
  intros r s k x H. apply m_R in H. destruct H as [s' [HR H]].
  exists s'. split; auto. eapply R_ext; eauto.
Qed.

(* 2 *)
Lemma m_caps_in : forall r s k x, wf s -> caps_in 0 (pos s) (caps s) -> m r s k = Done x ->
  exists s', ext s s' /\ k s' = Done x /\ wf s' /\
    forall lo, lo <= pos s -> caps_in lo (pos s) (caps s) -> caps_in lo (pos s') (caps s').
Proof.
  intros r s k x W _ H. apply m_R in H. destruct H as [s' [[E [P C]] H]].
  exists s'. repeat split; auto. eapply ext_wf; eauto.
Qed.

Lemma m_nonnull : forall r s k x, nullable r = false -> m r s k = Done x ->
  exists s', ext s s' /\ pos s < pos s' /\ k s' = Done x.
Proof.
  intros r s k x Hn H. apply m_R in H. destruct H as [s' [[E [P C]] H]].
  exists s'. repeat split; auto.
Qed.

(* ---- 4a: fuel is sufficient for the matcher ------------------------------ *)
Lemma rep_loop_nf : forall body g lo hi,
  (forall s k, (forall s', ext s s' -> k s' <> NoFuel) -> body s k <> NoFuel) ->
  forall fuel count s k, (lo - count) + length (suf s) < fuel ->
  (forall s', ext s s' -> k s' <> NoFuel) ->
  rep_loop body g lo hi fuel count s k <> NoFuel.
Proof.
  intros body g lo hi Hb. induction fuel as [|f IH]; intros count s k Hf Hk.
  - lia.
  - rewrite rep_loop_S. destruct (count <? lo) eqn:Hc.
    + apply Nat.ltb_lt in Hc. apply Hb. intros s1 E1. apply IH.
      * apply ext_len in E1. lia.
      * intros s2 E2. apply Hk. eapply ext_trans; eauto.
    + apply Nat.ltb_ge in Hc. cbv zeta.
      assert (Hm : (if match hi with None => true | Some h => count <? h end then
                      body s (fun s' => if Nat.eqb (pos s') (pos s) then Fail
                                        else rep_loop body g lo hi f (S count) s' k)
                    else Fail) <> NoFuel).
      { destruct (match hi with None => true | Some h => count <? h end);
          [|discriminate].
        apply Hb. intros s1 E1. destruct (Nat.eqb (pos s1) (pos s)) eqn:Hp; [discriminate|].
        apply Nat.eqb_neq in Hp. apply IH.
        - apply ext_len in E1. lia.
        - intros s2 E2. apply Hk. eapply ext_trans; eauto. }
      pose proof (Hk s (ext_refl s)) as Hks.
      destruct g; intro H; apply orelse_nofuel in H; destruct H as [H|[_ H]]; auto.
Qed.

Lemma m_no_fuel_ext : forall r s k, (forall s', ext s s' -> k s' <> NoFuel) -> m r s k <> NoFuel.
Proof.
  induction r; intros s k Hk; simpl.
  - apply Hk, ext_refl.
  - destruct (suf s) as [|c t] eqn:Hs; [discriminate|].
    destruct (chr_ok neg rs c); [|discriminate]. apply Hk, ext_advance; auto.
  - apply IHr1. intros s1 E1. apply IHr2. intros s2 E2. apply Hk. eapply ext_trans; eauto.
  - intro H. apply orelse_nofuel in H. destruct H as [H|[_ H]]; revert H.
    + apply IHr1; auto.
    + apply IHr2; auto.
  - apply rep_loop_nf; auto. lia.
  - apply IHr. intros s1 E1. apply Hk. destruct E1 as [mid E1]. exists mid. exact E1.
  - destruct (get_cap n (caps s)) as [[a b]|]; [|discriminate].
    destruct (lit _ s) as [s1|] eqn:Hl; [|discriminate].
    apply Hk. apply lit_R in Hl. eapply R_ext; eauto.
  - destruct (at_bol multi s); [|discriminate]. apply Hk, ext_refl.
  - destruct (at_eol multi s); [|discriminate]. apply Hk, ext_refl.
  - destruct (suf s); [|discriminate]. apply Hk, ext_refl.
  - pose proof (Hk s (ext_refl s)) as Hks. destruct ahead.
    + destruct (m r s Done) eqn:E; destruct neg; try discriminate; auto.
      * exfalso. revert E. apply IHr. discriminate.
      * exfalso. revert E. apply IHr. discriminate.
    + destruct (pre s) as [|c p].
      * destruct neg; [auto|discriminate].
      * match goal with |- match ?e with _ => _ end <> _ => destruct e eqn:E end;
          destruct neg; try discriminate; auto;
          exfalso; revert E; apply IHr; intros s1 _; destruct (Nat.eqb (pos s1) (pos s)); discriminate.
Qed.

(* 4 *)
Theorem m_no_fuel : forall r s k, (forall s', k s' <> NoFuel) -> m r s k <> NoFuel.
Proof. intros r s k Hk. apply m_no_fuel_ext. intros s' _. apply Hk. Qed.

(* ---- the API ------------------------------------------------------------- *)
Lemma st_at_wf : forall s off, off <= length s -> wf (st_at s off).
Proof.
  intros s off H. unfold wf, st_at. simpl. rewrite rev_length, firstn_length. lia.
Qed.

Lemma st_at_suf_len : forall s off, length (suf (st_at s off)) = length s - off.
Proof. intros. simpl. apply skipn_length. Qed.

Lemma run_at_some : forall r z acc res, run_at r z acc = MSome res ->
  exists s', R (nullable r) z s' /\ acc s' = true /\ res = mkres (pos z) (pos s') (caps s').
Proof.
  unfold run_at. intros r z acc res H.
  destruct (m r z _) as [|s1|] eqn:E; try discriminate.
  apply m_R in E. destruct E as [s' [HR E]].
  destruct (acc s') eqn:Ha; [|discriminate].
  inversion E; subst s1. inversion H; subst res. exists s'. auto.
Qed.

Lemma run_at_no_fuel : forall r z acc, run_at r z acc <> MFuel.
Proof.
  unfold run_at. intros r z acc.
  destruct (m r z _) eqn:E; try discriminate.
  exfalso. revert E. apply m_no_fuel. intros s'. destruct (acc s'); discriminate.
Qed.

Lemma run_at_span : forall r z acc res, run_at r z acc = MSome res ->
  m_start res = pos z /\ pos z <= m_end res /\ m_end res <= pos z + length (suf z) /\
  (nullable r = false -> pos z < m_end res) /\
  (caps z = [] -> caps_in (pos z) (m_end res) (m_caps res)) /\
  exists s', acc s' = true /\ pos s' = m_end res.
Proof.
  intros r z acc res H. apply run_at_some in H.
  destruct H as [s' [[E [P C]] [Ha Hr]]]. subst res. simpl.
  apply ext_len in E. repeat split; try lia; auto.
  - intro Hc. apply C; auto. rewrite Hc. apply caps_in_nil.
  - exists s'. auto.
Qed.

Theorem rmatch_span : forall r s off res, rmatch r s off = MSome res ->
  m_start res = off /\ off <= m_end res /\ m_end res <= length s /\
  caps_in off (m_end res) (m_caps res).
Proof.
  unfold rmatch. intros r s off res H.
  destruct (length s <? off) eqn:Hl; [discriminate|]. apply Nat.ltb_ge in Hl.
  apply run_at_span in H. rewrite st_at_suf_len in H. simpl in H.
  destruct H as [H1 [H2 [H3 [_ [H5 _]]]]]. repeat split; auto. lia.
Qed.

Theorem rmatch_progress : forall r s off res, nullable r = false ->
  rmatch r s off = MSome res -> off < m_end res.
Proof.
  unfold rmatch. intros r s off res Hn H.
  destruct (length s <? off) eqn:Hl; [discriminate|].
  apply run_at_span in H. simpl in H. destruct H as [_ [_ [_ [H4 _]]]]. auto.
Qed.

Theorem rmatch_no_fuel : forall r s off, rmatch r s off <> MFuel.
Proof.
  unfold rmatch. intros r s off. destruct (length s <? off); [discriminate|].
  apply run_at_no_fuel.
Qed.

Lemma search_from_S : forall r f z ne,
  search_from r (S f) z ne =
  match run_at r z (fun s' => match ne with
                              | Some p => negb (Nat.eqb (pos z) p && Nat.eqb (pos s') p)
                              | None => true
                              end) with
  | MNone => match suf z with
             | [] => MNone
             | c :: t => search_from r f (advance z c t) ne
             end
  | x => x
  end.
Proof. reflexivity. Qed.

Lemma search_from_some : forall r fuel z ne x, search_from r fuel z ne = MSome x ->
  pos z <= m_start x /\ m_start x <= m_end x /\ m_end x <= pos z + length (suf z) /\
  (nullable r = false -> m_start x < m_end x) /\
  (forall p, ne = Some p -> ~ (m_start x = p /\ m_end x = p)) /\
  (caps z = [] -> caps_in (m_start x) (m_end x) (m_caps x)).
Proof.
  intros r. induction fuel as [|f IH]; intros z ne x H.
  - discriminate.
  - rewrite search_from_S in H.
    destruct (run_at r z _) as [|res|] eqn:E.
    + destruct (suf z) as [|c t] eqn:Hs; [discriminate|].
      apply IH in H. simpl in H. destruct H as [H1 [H2 [H3 [H4 [H5 H6]]]]].
      split; [lia|]. split; [lia|]. split; [simpl; lia|]. auto.
    + inversion H; subst res. apply run_at_span in E.
      destruct E as [H1 [H2 [H3 [H4 [H5 [s' [Ha Hp]]]]]]]. rewrite H1.
      split; [lia|]. split; [lia|]. split; [lia|]. split; [auto|]. split; [|auto].
      intros p Hne [Hs He]. subst ne.
      rewrite Hp, He, Hs, Nat.eqb_refl in Ha. discriminate.
    + discriminate.
Qed.

Lemma search_from_no_fuel : forall r fuel z ne, length (suf z) < fuel ->
  search_from r fuel z ne <> MFuel.
Proof.
  intros r. induction fuel as [|f IH]; intros z ne Hf.
  - lia.
  - rewrite search_from_S.
    destruct (run_at r z _) as [|res|] eqn:E; try discriminate.
    + destruct (suf z) as [|c t] eqn:Hs; [discriminate|].
      apply IH. simpl in *. lia.
    + exfalso. revert E. apply run_at_no_fuel.
Qed.

Theorem rsearch_span : forall r s off res, rsearch r s off = MSome res ->
  off <= m_start res /\ m_start res <= m_end res /\ m_end res <= length s /\
  caps_in (m_start res) (m_end res) (m_caps res).
Proof.
  unfold rsearch. intros r s off res H.
  destruct (length s <? off) eqn:Hl; [discriminate|]. apply Nat.ltb_ge in Hl.
  apply search_from_some in H. rewrite st_at_suf_len in H. simpl in H.
  destruct H as [H1 [H2 [H3 [_ [_ H6]]]]]. repeat split; auto. lia.
Qed.

Theorem rsearch_progress : forall r s off res, nullable r = false ->
  rsearch r s off = MSome res -> m_start res < m_end res.
Proof.
  unfold rsearch. intros r s off res Hn H.
  destruct (length s <? off) eqn:Hl; [discriminate|].
  apply search_from_some in H. destruct H as [_ [_ [_ [H4 _]]]]. auto.
Qed.

Theorem rsearch_end_span : forall r s off e res, rsearch_end r s off e = MSome res ->
  off <= m_start res /\ m_start res <= m_end res /\ m_end res <= length s /\ m_end res <= e.
Proof.
  unfold rsearch_end. intros r s off e res H. apply rsearch_span in H.
  rewrite firstn_length in H. destruct H as [H1 [H2 [H3 _]]]. repeat split; lia.
Qed.

Theorem rsearch_no_fuel : forall r s off, rsearch r s off <> MFuel.
Proof.
  unfold rsearch. intros r s off. destruct (length s <? off); [discriminate|].
  apply search_from_no_fuel. rewrite st_at_suf_len. lia.
Qed.

(* ---- finditer ------------------------------------------------------------ *)
Lemma fwd_spec : forall n z, n <= length (suf z) ->
  pos (fwd n z) = pos z + n /\ length (suf (fwd n z)) = length (suf z) - n.
Proof.
  induction n as [|n IH]; intros z H; simpl.
  - lia.
  - destruct (suf z) as [|c t] eqn:Hs; simpl in H; [lia|].
    destruct (IH (advance z c t)) as [H1 H2]; simpl; [lia|].
    rewrite H1, H2. simpl. lia.
Qed.

Lemma finditer_from_S : forall r f z ne,
  finditer_from r (S f) z ne =
  match search_from r (S (length (suf z))) z ne with
  | MFuel => None
  | MNone => Some []
  | MSome x =>
      match finditer_from r f
              (fwd (m_end x - pos z) (mkst (pre z) (suf z) (pos z) []))
              (if Nat.eqb (m_start x) (m_end x) then Some (m_end x) else None) with
      | Some rest => Some (x :: rest)
      | None => None
      end
  end.
Proof. reflexivity. Qed.

(* results lie in [lo, hi], each is ordered, and they do not overlap *)
Fixpoint ordered_from (lo hi : nat) (l : list mres) : Prop :=
  match l with
  | [] => True
  | x :: l' => lo <= m_start x /\ m_start x <= m_end x /\ m_end x <= hi /\
               ordered_from (m_end x) hi l'
  end.

Lemma finditer_from_ordered : forall r fuel z ne l, finditer_from r fuel z ne = Some l ->
  ordered_from (pos z) (pos z + length (suf z)) l.
Proof.
  intros r. induction fuel as [|f IH]; intros z ne l H.
  - discriminate.
  - rewrite finditer_from_S in H.
    destruct (search_from r _ z ne) as [|x|] eqn:E; try discriminate.
    + inversion H; subst l. exact I.
    + apply search_from_some in E. destruct E as [H1 [H2 [H3 _]]].
      destruct (finditer_from r f _ _) as [rest|] eqn:F; [|discriminate].
      inversion H; subst l. apply IH in F.
      destruct (fwd_spec (m_end x - pos z) (mkst (pre z) (suf z) (pos z) [])) as [P1 P2];
        simpl; [lia|]. simpl in P1, P2.
      rewrite P1, P2 in F. simpl. repeat split; auto.
      replace (pos z + (m_end x - pos z)) with (m_end x) in F by lia.
      replace (m_end x + (length (suf z) - (m_end x - pos z))) with (pos z + length (suf z)) in F by lia.
      exact F.
Qed.

Lemma finditer_from_no_fuel : forall r fuel z ne,
  2 * length (suf z) +
    (match ne with Some p => if Nat.eqb p (pos z) then 0 else 1 | None => 1 end) < fuel ->
  finditer_from r fuel z ne <> None.
Proof.
  intros r. induction fuel as [|f IH]; intros z ne Hf.
  - lia.
  - rewrite finditer_from_S.
    destruct (search_from r _ z ne) as [|x|] eqn:E; try discriminate.
    + pose proof E as E'. apply search_from_some in E'.
      destruct E' as [H1 [H2 [H3 [_ [H5 _]]]]].
      destruct (finditer_from r f _ _) as [rest|] eqn:F; [discriminate|].
      exfalso. revert F. apply IH.
      destruct (fwd_spec (m_end x - pos z) (mkst (pre z) (suf z) (pos z) [])) as [P1 P2];
        simpl; [lia|]. simpl in P1, P2. rewrite P1, P2.
      destruct (Nat.eq_dec (m_end x) (pos z)) as [He|He].
      * (* empty match at the current position: only allowed when not forbidden *)
        assert (Hs : m_start x = pos z) by lia.
        rewrite Hs, He, Nat.eqb_refl.
        replace (pos z + (pos z - pos z)) with (pos z) by lia. rewrite Nat.eqb_refl.
        destruct ne as [p|].
        -- destruct (Nat.eqb p (pos z)) eqn:Hp.
           ++ apply Nat.eqb_eq in Hp. exfalso. apply (H5 p eq_refl). lia.
           ++ lia.
        -- lia.
      * assert (2 * (length (suf z) - (m_end x - pos z)) + 1 < f).
        { destruct ne as [p|]; [destruct (Nat.eqb p (pos z))|]; lia. }
        destruct (Nat.eqb (m_start x) (m_end x)); [destruct (Nat.eqb _ _)|]; lia.
    + exfalso. revert E. apply search_from_no_fuel. lia.
Qed.

Theorem rfinditer_no_fuel : forall r s, rfinditer r s <> None.
Proof.
  unfold rfinditer. intros r s. apply finditer_from_no_fuel.
  rewrite st_at_suf_len. lia.
Qed.

Lemma ordered_from_Forall : forall l lo hi, ordered_from lo hi l ->
  Forall (fun x => lo <= m_start x /\ m_start x <= m_end x /\ m_end x <= hi) l.
Proof.
  induction l as [|x l IH]; intros lo hi H; simpl in H.
  - constructor.
  - destruct H as [H1 [H2 [H3 H4]]]. constructor; auto.
    apply IH in H4. eapply Forall_impl; [|exact H4]. simpl. intros a Ha. lia.
Qed.

Lemma ordered_from_nth : forall l lo hi d i, ordered_from lo hi l -> S i < length l ->
  m_end (nth i l d) <= m_start (nth (S i) l d).
Proof.
  induction l as [|x l IH]; intros lo hi d i H Hi; simpl in Hi.
  - lia.
  - destruct H as [H1 [H2 [H3 H4]]]. destruct i.
    + destruct l as [|y l]; simpl in *; [lia|]. tauto.
    + change (m_end (nth i l d) <= m_start (nth (S i) l d)).
      eapply IH; eauto. lia.
Qed.

Lemma rfinditer_ordered : forall r s l, rfinditer r s = Some l ->
  ordered_from 0 (length s) l.
Proof.
  unfold rfinditer. intros r s l H. apply finditer_from_ordered in H.
  rewrite st_at_suf_len in H. simpl in H. rewrite Nat.sub_0_r in H. exact H.
Qed.

(* 5 *)
Theorem rfinditer_spans : forall r s l, rfinditer r s = Some l ->
  Forall (fun x => m_start x <= m_end x /\ m_end x <= length s) l.
Proof.
  intros r s l H. apply rfinditer_ordered, ordered_from_Forall in H.
  eapply Forall_impl; [|exact H]. simpl. tauto.
Qed.

(* consecutive results do not overlap *)
Theorem rfinditer_no_overlap : forall r s l d i, rfinditer r s = Some l ->
  S i < length l -> m_end (nth i l d) <= m_start (nth (S i) l d).
Proof.
  intros r s l d i H Hi. apply rfinditer_ordered in H. eapply ordered_from_nth; eauto.
Qed.

