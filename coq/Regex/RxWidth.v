(* Minimum widths: a match of r consumes at least [min_width r] characters, and
   every capture recorded for group n is at least as wide as the narrowest
   [Grp n _] subterm of r.  [grp_wide w n r] is the decidable syntactic check
   "every Grp n body in r has min_width body >= w". *)
From Coq Require Import NArith List Bool Arith Lia.
From CL Require Import Regex.Rx Regex.RxLemmas.
Import ListNotations.

Fixpoint min_width (r : rx) : nat :=
  match r with
  | Chr _ _ => 1
  | Cat a b => min_width a + min_width b
  | Alt a b => Nat.min (min_width a) (min_width b)
  | Rep _ lo _ r' => lo * min_width r'
  | Grp _ r' => min_width r'
  | _ => 0
  end.

Fixpoint grp_wide (w n : nat) (r : rx) : bool :=
  match r with
  | Cat a b | Alt a b => grp_wide w n a && grp_wide w n b
  | Rep _ _ _ r' | Look _ _ r' => grp_wide w n r'
  | Grp k r' => (negb (Nat.eqb k n) || (w <=? min_width r')) && grp_wide w n r'
  | _ => true
  end.

Section Width.
Variables (w n : nat).

(* every recorded capture of group n is at least w wide *)
Definition capsw (cs : list (nat * (nat * nat))) : Prop :=
  Forall (fun c => fst c = n -> fst (snd c) + w <= snd (snd c)) cs.

(* s' is at least d further than s, and the capture invariant is kept *)
Definition W (d : nat) (s s' : st) : Prop :=
  pos s + d <= pos s' /\ (capsw (caps s) -> capsw (caps s')).

Lemma W_refl : forall s, W 0 s s.
Proof. intros s. split; [lia|auto]. Qed.

Lemma W_trans : forall d1 d2 a b c, W d1 a b -> W d2 b c -> W (d1 + d2) a c.
Proof. intros d1 d2 a b c [P1 C1] [P2 C2]. split; [lia|auto]. Qed.

Lemma W_weaken : forall d d' s s', d' <= d -> W d s s' -> W d' s s'.
Proof. intros d d' s s' H [P C]. split; [lia|auto]. Qed.

Lemma W_advance : forall s c t, W 1 s (advance s c t).
Proof. intros s c t. split; simpl; [lia|auto]. Qed.

Lemma lit_W : forall l s s', lit l s = Some s' -> W 0 s s'.
Proof.
  induction l as [|c l IH]; intros s s' H; simpl in H.
  - inversion H; subst. apply W_refl.
  - destruct (suf s) as [|d t] eqn:Hs; [discriminate|].
    destruct (N.eqb c d); [|discriminate].
    apply IH in H. eapply W_weaken; [|eapply W_trans; [apply (W_advance s d t)|exact H]]. lia.
Qed.

Lemma rep_loop_W : forall body d g lo hi,
  (forall s k x, body s k = Done x -> exists s', W d s s' /\ k s' = Done x) ->
  forall fuel count s k x, rep_loop body g lo hi fuel count s k = Done x ->
  exists s', W ((lo - count) * d) s s' /\ k s' = Done x.
Proof.
  intros body d g lo hi Hb. induction fuel as [|f IH]; intros count s k x H.
  - discriminate.
  - rewrite rep_loop_S in H. destruct (count <? lo) eqn:Hc.
    + apply Nat.ltb_lt in Hc.
      apply Hb in H. destruct H as [s1 [W1 H]].
      apply IH in H. destruct H as [s2 [W2 H]].
      exists s2. split; auto.
      eapply W_weaken; [|eapply W_trans; eauto].
      replace (lo - count) with (S (lo - S count)) by lia. simpl. lia.
    + apply Nat.ltb_ge in Hc. replace (lo - count) with 0 by lia. simpl.
      cbv zeta in H.
      assert (Hm : (if match hi with None => true | Some h => count <? h end then
                      body s (fun s' => if Nat.eqb (pos s') (pos s) then Fail
                                        else rep_loop body g lo hi f (S count) s' k)
                    else Fail) = Done x ->
                   exists s', W 0 s s' /\ k s' = Done x).
      { intro Hm. destruct (match hi with None => true | Some h => count <? h end);
          [|discriminate].
        apply Hb in Hm. destruct Hm as [s1 [W1 Hm]].
        destruct (Nat.eqb (pos s1) (pos s)); [discriminate|].
        apply IH in Hm. destruct Hm as [s2 [W2 Hm]].
        exists s2. split; auto.
        eapply W_weaken; [|eapply W_trans; eauto]. lia. }
      destruct g; apply orelse_done in H; destruct H as [H|[_ H]]; auto;
        exists s; (split; [apply W_refl|exact H]).
Qed.

Lemma m_W : forall r, grp_wide w n r = true ->
  forall s k x, m r s k = Done x ->
  exists s', W (min_width r) s s' /\ k s' = Done x.
Proof.
  induction r; intros Hg s k x H; simpl in H; simpl in Hg.
  - (* Eps *) exists s. split; [apply W_refl|auto].
  - (* Chr *)
    destruct (suf s) as [|c t] eqn:Hs; [discriminate|].
    destruct (chr_ok neg rs c); [|discriminate].
    exists (advance s c t). split; [apply W_advance|auto].
  - (* Cat *)
    apply andb_true_iff in Hg. destruct Hg as [G1 G2].
    apply (IHr1 G1) in H. destruct H as [s1 [W1 H]].
    apply (IHr2 G2) in H. destruct H as [s2 [W2 H]].
    exists s2. split; auto. simpl. eapply W_trans; eauto.
  - (* Alt *)
    apply andb_true_iff in Hg. destruct Hg as [G1 G2].
    apply orelse_done in H. destruct H as [H|[_ H]].
    + apply (IHr1 G1) in H. destruct H as [s1 [W1 H]]. exists s1. split; auto.
      simpl. eapply W_weaken; [|exact W1]. lia.
    + apply (IHr2 G2) in H. destruct H as [s1 [W1 H]]. exists s1. split; auto.
      simpl. eapply W_weaken; [|exact W1]. lia.
  - (* Rep *)
    apply (rep_loop_W _ (min_width r) _ _ _ (IHr Hg)) in H. destruct H as [s1 [W1 H]].
    exists s1. split; auto. simpl. rewrite Nat.sub_0_r in W1. exact W1.
  - (* Grp *)
    apply andb_true_iff in Hg. destruct Hg as [G1 G2].
    apply (IHr G2) in H. destruct H as [s1 [[P1 C1] H]].
    exists (set_cap n0 (pos s, pos s1) s1). split; auto. simpl. split; simpl; [exact P1|].
    intro Hc. constructor; [|exact (C1 Hc)]. simpl. intro Hn. subst n0.
    rewrite Nat.eqb_refl in G1. simpl in G1. apply Nat.leb_le in G1. lia.
  - (* Bref *)
    destruct (get_cap n0 (caps s)) as [[a b]|]; [|discriminate].
    destruct (lit _ s) as [s1|] eqn:Hl; [|discriminate].
    exists s1. split; auto. simpl. eapply lit_W; eauto.
  - (* Bol *) destruct (at_bol multi s); [|discriminate]. exists s. split; [apply W_refl|auto].
  - (* Eol *) destruct (at_eol multi s); [|discriminate]. exists s. split; [apply W_refl|auto].
  - (* EndStr *) destruct (suf s); [|discriminate]. exists s. split; [apply W_refl|auto].
  - (* Look *)
    destruct ahead.
    + destruct (m r s Done); destruct neg; try discriminate;
        exists s; (split; [apply W_refl|auto]).
    + destruct (pre s) as [|c p].
      * destruct neg; [|discriminate]. exists s. split; [apply W_refl|auto].
      * match type of H with match ?e with _ => _ end = _ => destruct e end;
          destruct neg; try discriminate; exists s; (split; [apply W_refl|auto]).
Qed.

Lemma run_at_W : forall r z acc res, grp_wide w n r = true -> capsw (caps z) ->
  run_at r z acc = MSome res ->
  pos z + min_width r <= m_end res /\ capsw (m_caps res).
Proof.
  unfold run_at. intros r z acc res Hg Hc H.
  destruct (m r z _) as [|s1|] eqn:E; try discriminate.
  apply (m_W r Hg) in E. destruct E as [s' [[P C] E]].
  destruct (acc s'); [|discriminate].
  inversion E; subst s1. inversion H; subst res. simpl. auto.
Qed.

Theorem rmatch_group_wide : forall r s off res sp, grp_wide w n r = true ->
  rmatch r s off = MSome res -> group n res = Some sp -> fst sp + w <= snd sp.
Proof.
  unfold rmatch, group. intros r s off res sp Hg H Hsp.
  destruct (length s <? off); [discriminate|].
  apply run_at_W in H; auto; [|constructor]. destruct H as [_ H].
  assert (Hin : forall cs, get_cap n cs = Some sp -> In (n, sp) cs).
  { induction cs as [|[m0 sp0] cs IH]; simpl; intro Hq; [discriminate|].
    destruct (Nat.eqb n m0) eqn:E.
    - apply Nat.eqb_eq in E. inversion Hq; subst. left. reflexivity.
    - right. auto. }
  apply Hin in Hsp. unfold capsw in H. rewrite Forall_forall in H.
  apply H in Hsp; [|reflexivity]. simpl in Hsp. exact Hsp.
Qed.

End Width.
