(* A backtracking matcher with CPython `re` priority semantics.

   One engine serves every regular expression of the package; the regex ASTs
   themselves are generated from the source on every run (tr/rx2coq.py walks
   CPython's own parse tree).  The matcher is continuation-passing over a
   zipper (reversed prefix, suffix, position, captures) so that ^, $, \Z,
   one-character look-behind and matching at an offset inside a longer string
   see the real neighbouring characters, as pattern.match(s, pos) does.

   Declared deviations (enforced by the translator, see DESIGN 2.2):
   a repetition with upper bound > 1 must have a non-nullable body; optional
   items (upper bound 1) are translated to alternations; look-behind has
   width 1; flags other than M, S, U are rejected. *)
From Coq Require Import NArith List Bool Arith.
Import ListNotations.

Definition cset := list (N * N).          (* inclusive ranges *)

Inductive rx :=
| Eps
| Chr (neg : bool) (rs : cset)             (* one character in / not in the ranges *)
| Cat (a b : rx)
| Alt (a b : rx)                           (* a first, then b *)
| Rep (greedy : bool) (lo : nat) (hi : option nat) (r : rx)
| Grp (n : nat) (r : rx)                   (* capturing group n >= 1 *)
| Bref (n : nat)                           (* back-reference *)
| Bol (multi : bool)                       (* ^ *)
| Eol (multi : bool)                       (* $ *)
| EndStr                                   (* \Z *)
| Look (ahead neg : bool) (r : rx).        (* (?=r) (?!r) (?<=r) (?<!r), behind: width 1 *)

Record st := mkst {
  pre : list N;                            (* characters before the position, reversed *)
  suf : list N;                            (* characters from the position on *)
  pos : nat;                               (* = length pre *)
  caps : list (nat * (nat * nat))          (* group -> span, latest first *)
}.

Inductive out :=
| Fail
| Done (s : st)
| NoFuel.

Definition in_ranges (c : N) (rs : cset) : bool :=
  existsb (fun r => N.leb (fst r) c && N.leb c (snd r)) rs.

Definition chr_ok (neg : bool) (rs : cset) (c : N) : bool := xorb neg (in_ranges c rs).

Definition advance (s : st) (c : N) (t : list N) : st :=
  mkst (c :: pre s) t (S (pos s)) (caps s).

Fixpoint get_cap (n : nat) (cs : list (nat * (nat * nat))) : option (nat * nat) :=
  match cs with
  | [] => None
  | (m, sp) :: cs' => if Nat.eqb n m then Some sp else get_cap n cs'
  end.

Definition set_cap (n : nat) (sp : nat * nat) (s : st) : st :=
  mkst (pre s) (suf s) (pos s) ((n, sp) :: caps s).

Definition orelse (a : out) (b : unit -> out) : out :=
  match a with Fail => b tt | _ => a end.

(* consume the literal l *)
Fixpoint lit (l : list N) (s : st) : option st :=
  match l with
  | [] => Some s
  | c :: l' =>
      match suf s with
      | d :: t => if N.eqb c d then lit l' (advance s d t) else None
      | [] => None
      end
  end.

(* the repetition loop: [body] is the matcher of the repeated regex.
   count iterations done so far; an iteration beyond lo that consumes nothing
   is refused *)
Fixpoint rep_loop (body : st -> (st -> out) -> out) (greedy : bool)
         (lo : nat) (hi : option nat) (fuel count : nat) (s : st) (k : st -> out)
         {struct fuel} : out :=
  match fuel with
  | O => NoFuel
  | S f =>
      if count <? lo then
        body s (fun s' => rep_loop body greedy lo hi f (S count) s' k)
      else
        let more (_ : unit) :=
          if match hi with None => true | Some h => count <? h end then
            body s (fun s' => if Nat.eqb (pos s') (pos s) then Fail
                              else rep_loop body greedy lo hi f (S count) s' k)
          else Fail in
        if greedy then orelse (more tt) (fun _ => k s)
        else orelse (k s) more
  end.

Definition nlc : N := 10%N.

Definition at_bol (multi : bool) (s : st) : bool :=
  match pre s with
  | [] => true
  | c :: _ => multi && N.eqb c nlc
  end.

Definition at_eol (multi : bool) (s : st) : bool :=
  match suf s with
  | [] => true
  | c :: t => N.eqb c nlc && (multi || match t with [] => true | _ => false end)
  end.

Fixpoint m (r : rx) (s : st) (k : st -> out) {struct r} : out :=
  match r with
  | Eps => k s
  | Chr neg rs =>
      match suf s with
      | c :: t => if chr_ok neg rs c then k (advance s c t) else Fail
      | [] => Fail
      end
  | Cat a b => m a s (fun s' => m b s' k)
  | Alt a b => orelse (m a s k) (fun _ => m b s k)
  | Rep greedy lo hi r' =>
      rep_loop (m r') greedy lo hi (lo + S (length (suf s))) 0 s k
  | Grp n r' => m r' s (fun s' => k (set_cap n (pos s, pos s') s'))
  | Bref n =>
      match get_cap n (caps s) with
      | None => Fail
      | Some (a, b) =>
          (* the captured text, read back from the reversed prefix *)
          let txt := rev (firstn (b - a) (skipn (pos s - b) (pre s))) in
          match lit txt s with Some s' => k s' | None => Fail end
      end
  | Bol multi => if at_bol multi s then k s else Fail
  | Eol multi => if at_eol multi s then k s else Fail
  | EndStr => match suf s with [] => k s | _ => Fail end
  | Look true neg r' =>
      match m r' s Done with
      | Done _ => if neg then Fail else k s
      | Fail => if neg then k s else Fail
      | NoFuel => NoFuel
      end
  | Look false neg r' =>
      match pre s with
      | [] => if neg then k s else Fail
      | c :: p =>
          let back := mkst p (c :: suf s) (pos s - 1) (caps s) in
          match m r' back (fun s' => if Nat.eqb (pos s') (pos s) then Done s' else Fail) with
          | Done _ => if neg then Fail else k s
          | Fail => if neg then k s else Fail
          | NoFuel => NoFuel
          end
      end
  end.

(* ---- the API the package uses ------------------------------------------ *)
Record mres := mkres {
  m_start : nat;
  m_end : nat;
  m_caps : list (nat * (nat * nat))
}.

Definition group (n : nat) (r : mres) : option (nat * nat) := get_cap n (m_caps r).

Definition st_at (s : list N) (off : nat) : st :=
  mkst (rev (firstn off s)) (skipn off s) off [].

Inductive mr :=                 (* match result *)
| MNone
| MSome (r : mres)
| MFuel.

Definition run_at (r : rx) (z : st) (accept : st -> bool) : mr :=
  match m r z (fun s' => if accept s' then Done s' else Fail) with
  | Fail => MNone
  | Done s' => MSome (mkres (pos z) (pos s') (caps s'))
  | NoFuel => MFuel
  end.

(* pattern.match(s, off) *)
Definition rmatch (r : rx) (s : list N) (off : nat) : mr :=
  if length s <? off then MNone else run_at r (st_at s off) (fun _ => true).

(* pattern.fullmatch-like: match that must end at the end of the string *)
Definition rmatch_end (r : rx) (s : list N) (off : nat) : mr :=
  if length s <? off then MNone
  else run_at r (st_at s off) (fun s' => match suf s' with [] => true | _ => false end).

(* leftmost search from a zipper state; [nonempty_at p] demands that a match
   starting at p be non-empty (CPython's rule after an empty match) *)
Fixpoint search_from (r : rx) (fuel : nat) (z : st) (nonempty_at : option nat) : mr :=
  match fuel with
  | O => MFuel
  | S f =>
      let accept s' :=
        match nonempty_at with
        | Some p => negb (Nat.eqb (pos z) p && Nat.eqb (pos s') p)
        | None => true
        end in
      match run_at r z accept with
      | MNone =>
          match suf z with
          | [] => MNone
          | c :: t => search_from r f (advance z c t) nonempty_at
          end
      | x => x
      end
  end.

(* pattern.search(s, off) *)
Definition rsearch (r : rx) (s : list N) (off : nat) : mr :=
  if length s <? off then MNone
  else search_from r (S (length s - off)) (st_at s off) None.

(* pattern.search(s, off, endpos): the subject is truncated at endpos *)
Definition rsearch_end (r : rx) (s : list N) (off endpos : nat) : mr :=
  rsearch r (firstn endpos s) off.

(* move the zipper n characters forward *)
Fixpoint fwd (n : nat) (z : st) : st :=
  match n with
  | O => z
  | S n' => match suf z with
            | c :: t => fwd n' (advance z c t)
            | [] => z
            end
  end.

(* pattern.finditer(s): after an empty match at p the scanner stays at p but
   demands a non-empty match there *)
Fixpoint finditer_from (r : rx) (fuel : nat) (z : st) (nonempty_at : option nat)
  : option (list mres) :=
  match fuel with
  | O => None
  | S f =>
      match search_from r (S (length (suf z))) z nonempty_at with
      | MFuel => None
      | MNone => Some []
      | MSome x =>
          let z' := fwd (m_end x - pos z) (mkst (pre z) (suf z) (pos z) []) in
          let ne := if Nat.eqb (m_start x) (m_end x) then Some (m_end x) else None in
          match finditer_from r f z' ne with
          | Some rest => Some (x :: rest)
          | None => None
          end
      end
  end.

Definition rfinditer (r : rx) (s : list N) : option (list mres) :=
  finditer_from r (2 * length s + 2) (st_at s 0) None.

(* ---- decidable syntactic facts used by the proofs ---------------------- *)
Fixpoint nullable (r : rx) : bool :=
  match r with
  | Eps => true
  | Chr _ _ => false
  | Cat a b => nullable a && nullable b
  | Alt a b => nullable a || nullable b
  | Rep _ lo _ r' => Nat.eqb lo 0 || nullable r'
  | Grp _ r' => nullable r'
  | Bref _ => true
  | Bol _ | Eol _ | EndStr => true
  | Look _ _ _ => true
  end.

(* every repetition body is non-nullable: the engine's empty-iteration rule
   is never exercised, so it coincides with sre on this regex *)
Fixpoint rep_ok (r : rx) : bool :=
  match r with
  | Cat a b | Alt a b => rep_ok a && rep_ok b
  | Rep _ _ _ r' => negb (nullable r') && rep_ok r'
  | Grp _ r' | Look _ _ r' => rep_ok r'
  | _ => true
  end.
