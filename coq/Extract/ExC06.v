From Coq Require Import ZArith NArith List Bool.
From CL Require Import Base.Sx Base.Res Base.Str Model.Difflib Model.CheckProps Model.CheckPropsSpec.
From CL Require Model.Compare Model.CompareText Model.Lint Model.LintProps Model.CheckPlain.
Import ListNotations.
Open Scope Z_scope.

Definition finding_sx (f : finding) : sx :=
  L [of_str (f_sev f); of_nat (f_pos f); of_bool (f_entpos f); of_str (f_msg f); of_str (f_cat f)].

Definition perr_code (e : perr) : Z :=
  match e with PESingle => 0 | PEMixed => 1 | PEMissing => 2 end.

Definition sres_sx (r : sres) : sx :=
  match r with
  | SErr p e => L [A 1; of_nat p; A (perr_code e); of_str (perr_msg e)]
  | SOk l => L [A 0; of_list (of_option of_str) l]
  end.

Definition optag_code (t : optag) : Z :=
  match t with Replace => 0 | Delete => 1 | Insert => 2 | Equal => 3 end.

Definition opcode_sx (o : opcode) : sx :=
  L [A (optag_code (o_tag o)); of_nat (o_i1 o); of_nat (o_i2 o); of_nat (o_j1 o); of_nat (o_j2 o)].

Definition width_of (x : sx) : width :=
  match to_Z (nth_sx 0 x) with
  | 0 => WNone
  | 1 => WStar
  | _ => WNum (to_str (nth_sx 1 x))
  end.

Definition prec_of (x : sx) : prec :=
  match to_Z (nth_sx 0 x) with
  | 0 => PNone
  | 1 => PDot
  | 2 => PDotStar
  | _ => PDotNum (to_str (nth_sx 1 x))
  end.

Definition tok_of (x : sx) : tok :=
  match to_Z (nth_sx 0 x) with
  | 0 => TText (to_str (nth_sx 1 x))
  | 1 => TPct
  | 2 => TLone
  | _ => TSpec (to_option to_str (nth_sx 1 x)) (width_of (nth_sx 2 x)) (prec_of (nth_sx 3 x))
               (to_N (nth_sx 4 x))
  end.

Definition in_of (x : sx) : check_in :=
  mkin (to_option to_str (nth_sx 0 x)) (to_str (nth_sx 1 x)) (to_str (nth_sx 2 x))
       (to_str (nth_sx 3 x)) (to_str (nth_sx 4 x)) (to_str (nth_sx 5 x)) (to_str (nth_sx 6 x))
       (to_option to_str (nth_sx 7 x)).

(* the checker behind the interfaces of the end-to-end models (Model/CheckPlain.v) *)
Definition lint_finding_sx (f : @Lint.finding str str) : sx :=
  L [A (Lint.f_lineno f); A (Lint.f_column f);
     A (match Lint.f_level f with Lint.LError => 1 | Lint.LWarning => 0 end);
     match Lint.f_message f with
     | Lint.MDuplicate k => L [A 0; of_str k]
     | Lint.MChanged k => L [A 1; of_str k]
     | Lint.MJunk _ _ _ => L [A 2]
     | Lint.MCheck m => L [A 3; of_str m]
     end].

Definition dispatch (f : Z) (x : sx) : sx :=
  match f with
  | 0 => (* check [ref comment?; ref key; ref val; l10n key; l10n all; l10n val; l10n raw; locale?] *)
      of_result (of_list finding_sx) (check (in_of x))
  | 1 => (* get_opcodes [a; b] over integers *)
      of_option (of_list opcode_sx)
                (get_opcodes Nat.eqb (to_list to_nat (nth_sx 0 x)) (to_list to_nat (nth_sx 1 x)))
  | 2 => (* get_plural [locale?] *)
      of_result (of_option (of_list of_str)) (get_plural (to_option to_str (nth_sx 0 x)))
  | 3 => (* getPrintfSpecs [val] *)
      of_result sres_sx (get_printf_specs (to_str (nth_sx 0 x)))
  | 4 => (* token list: [clean; rendering; argument model; getPrintfSpecs of the rendering] *)
      let toks := to_list tok_of (nth_sx 0 x) in
      L [of_bool (clean toks); of_str (render toks); sres_sx (argmodel toks);
         of_result sres_sx (get_printf_specs (render toks))]
  | 5 => (* the comparison part of checkPrintf [refSpecs; l10nSpecs] *)
      of_result (of_list finding_sx)
                (compare_specs (to_list (to_option to_str) (nth_sx 0 x))
                               (to_list (to_option to_str) (nth_sx 1 x)))
  | 6 => (* compare_properties with props_chk [locale?; ref text; l10n text] -> summary *)
      let loc := to_option to_str (nth_sx 0 x) in
      let tR := to_str (nth_sx 1 x) in
      let tL := to_str (nth_sx 2 x) in
      of_result (fun r => of_list of_nat (Compare.summary (fun _ => Compare.VError) r))
                (CompareText.compare_properties 0 (fun _ => Compare.VError)
                   (CheckPlain.props_chk loc tR tL) false tR tL)
  | 7 => (* lint_properties with props_lint_chk [locale?; text; ref text?] -> findings *)
      let loc := to_option to_str (nth_sx 0 x) in
      let t := to_str (nth_sx 1 x) in
      of_result (of_list lint_finding_sx)
                (@LintProps.lint_properties str 0 (Some (CheckPlain.props_lint_chk loc t)) t
                   (to_option to_str (nth_sx 2 x)))
  | _ => sx_err
  end.

Require Extraction.
Require ExtrOcamlBasic.
Extraction Language OCaml.
Extraction "../ocaml/C06/model.ml" dispatch.
