From Coq Require Import ZArith NArith List Bool.
From CL Require Import Base.Sx Base.Res Base.Str Model.CSS Model.XmlContent Model.CheckDTD.
Import ListNotations.
Open Scope Z_scope.

Definition errors_of_sx (x : sx) : list css_error :=
  to_list (fun e => (to_nat (nth_sx 0 e),
                     if Z.eqb (to_Z (nth_sx 1 e)) 0 then CssBadContent else CssMissingSemicolon)) x.

Definition verdict_sx (v : xverdict) : sx :=
  match v with XOk => A 0 | XBad => A 1 | XUnsupported => A 2 end.

Definition dispatch (f : Z) (x : sx) : sx :=
  match f with
  | 0 => (* DTDChecker.check:
            [cache; reference; android; refEnt; l10nEnt; sax table; unicode_escape table] *)
      let sax := table_sax (to_list sax_entry_of_sx (nth_sx 5 x)) in
      let uesc := table_uesc (to_list uesc_entry_of_sx (nth_sx 6 x)) in
      of_result (fun r => L [of_list issue_sx (fst r); of_option names_sx (snd r)])
        (check sax uesc (to_option names_of_sx (nth_sx 0 x)) (to_option names_of_sx (nth_sx 1 x))
               (to_bool (nth_sx 2 x)) (entity_of_sx (nth_sx 3 x)) (entity_of_sx (nth_sx 4 x)))
  | 1 => (* entities_for_value: [value] *)
      of_result names_sx (entities_for_value (to_str (nth_sx 0 x)))
  | 2 => (* parse_css_spec: [val] *)
      of_result css_result_sx (parse_css_spec (to_str (nth_sx 0 x)))
  | 3 => (* check_style: [ref_map; l10n_map or []; errors or []] *)
      of_list issue_sx
        (check_style (cmap_of_sx (nth_sx 0 x)) (to_option cmap_of_sx (nth_sx 1 x))
                     (to_option errors_of_sx (nth_sx 2 x)))
  | 4 => (* maybe_style: [ref value; l10n value] *)
      of_result (of_list issue_sx) (maybe_style (to_str (nth_sx 0 x)) (to_str (nth_sx 1 x)))
  | 5 => (* processAndroidContent: [val; unicode_escape table] *)
      of_result (of_list issue_sx)
        (process_android (table_uesc (to_list uesc_entry_of_sx (nth_sx 1 x))) (to_str (nth_sx 0 x)))
  | 6 => (* XmlContent on a whole document: [doc] *)
      verdict_sx (xml_doc (to_str (nth_sx 0 x)))
  | 7 => (* XmlContent on a value: [declared; key; value] -> [content_ok; value_ok] *)
      let d := names_of_sx (nth_sx 0 x) in
      L [of_bool (content_ok d (to_str (nth_sx 2 x)));
         of_bool (value_ok d (to_str (nth_sx 1 x)) (to_str (nth_sx 2 x)))]
  | 8 => (* the four documents: [cache; reference; refEnt; l10nEnt] *)
      of_result (of_list of_str)
        (documents (to_option names_of_sx (nth_sx 0 x)) (to_option names_of_sx (nth_sx 1 x))
                   (entity_of_sx (nth_sx 2 x)) (entity_of_sx (nth_sx 3 x)))
  | 9 => (* value_position, tuple arm: [base line; base col; line_pos; col_pos] *)
      let r := value_position_tuple (to_Z (nth_sx 0 x), to_Z (nth_sx 1 x))
                                    (to_Z (nth_sx 2 x)) (to_Z (nth_sx 3 x)) in
      L [A (fst r); A (snd r)]
  | _ => sx_err
  end.

Require Extraction.
Require ExtrOcamlBasic.
Extraction Language OCaml.
Extraction "../ocaml/C07/model.ml" dispatch.
