From Coq Require Import ZArith List Bool.
From CL Require Import Base.Sx Model.History Model.HistoryWire.
Import ListNotations.
Open Scope Z_scope.

Definition dispatch (f : Z) (x : sx) : sx :=
  match f with
  | 0 => (* [tables; probes; history] -> [[output; state] per operation; entries re-observed at the end] *)
      wire_history x
  | 1 => (* junk key rendering: [id; a; b] -> "_junk_<id>_<a>-<b>" *)
      of_str (render (KJunk (to_nat (nth_sx 0 x)) (to_nat (nth_sx 1 x)) (to_nat (nth_sx 2 x))))
  | _ => sx_err
  end.

Require Extraction.
Require ExtrOcamlBasic.
Extraction Language OCaml.
Extraction "../ocaml/C18/model.ml" dispatch.
