From Coq Require Import ZArith List Bool.
From CL Require Import Base.Sx Model.History Model.HistoryWire.
Import ListNotations.
Open Scope Z_scope.

Definition dispatch (f : Z) (x : sx) : sx :=
  match f with
  | 0 => (* [tables; probes; history] -> [[output; state] per operation; entries re-observed at the end] *)
      wire_history x
  | 1 => (* junk key rendering: [id; a; b] -> "_junk_<id>_<a>-<b>" *)
      of_str (render (KJunk (to_nat (nth_sx 0 x)) (to_nat (nth_sx 1 x)) (to_nat (nth_sx 2 x))))
  | 2 => (* observer accumulation: [contributions; locales; files] -> [summaries; details] *)
      let cs := to_list (fun c => Contrib nat (to_nat (nth_sx 0 c)) (to_nat (nth_sx 1 c))
                                          (to_list to_nat (nth_sx 2 c)) (to_list to_nat (nth_sx 3 c)))
                        (nth_sx 0 x) in
      let o := run_files nat cs in
      L [of_list (fun l => of_list of_nat (o_summary nat o l)) (to_list to_nat (nth_sx 1 x));
         of_list (fun f => of_list of_nat (o_details nat o f)) (to_list to_nat (nth_sx 2 x))]
  | _ => sx_err
  end.

Require Extraction.
Require ExtrOcamlBasic.
Extraction Language OCaml.
Extraction "../ocaml/C18/model.ml" dispatch.
