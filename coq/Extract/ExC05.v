From Coq Require Import ZArith NArith List Bool.
From CL Require Import Base.Sx Base.Res Base.Str Model.Robust.
Import ListNotations.
Open Scope Z_scope.

Definition of_finding (f : finding) : sx :=
  L [of_bool (f_error f);
     match f_pos f with EntPos n => L [A 1; of_nat n] | ValPos z => L [A 0; A z] end;
     of_str (f_msg f); of_str (f_cat f)].

Definition to_ent (x : sx) : ent :=
  mk_ent (to_nat (nth_sx 0 x)) (to_nat (nth_sx 1 x), to_nat (nth_sx 2 x))
         (to_pair to_nat to_nat (nth_sx 3 x))
         (to_option (to_pair to_nat to_nat) (nth_sx 4 x)).

Definition of_entry (e : entry) : sx :=
  L [of_bool (d_error e); of_nat (d_line e); of_nat (d_col e); of_str (d_msg e)].

Definition dispatch (f : Z) (x : sx) : sx :=
  match f with
  | 0 => (* Checker.check [all; key] *)
      of_result (of_list of_finding)
        (encoding_findings (to_str (nth_sx 0 x)) (to_str (nth_sx 1 x)))
  | 1 => (* formatting branch [contents; shared entities; every entity] *)
      let s := to_str (nth_sx 0 x) in
      of_result (fun p => L [of_list (of_pair of_bool of_str) (fst p); of_list of_entry (snd p)])
        (do a <- compare_details s (to_list to_ent (nth_sx 1 x));
         do b <- lint_details s (to_list to_ent (nth_sx 2 x));
         Ok (a, b))
  | 2 => (* compare skeleton [has_parser; read_ref; parse_ref; read_l10n; parse_l10n] *)
      A (outcome_code (compare_skeleton (to_bool (nth_sx 0 x)) (to_bool (nth_sx 1 x))
                         (to_bool (nth_sx 2 x)) (to_bool (nth_sx 3 x)) (to_bool (nth_sx 4 x))))
  | 3 => (* add skeleton [has_parser; read; parse] *)
      A (outcome_code (add_skeleton (to_bool (nth_sx 0 x)) (to_bool (nth_sx 1 x)) (to_bool (nth_sx 2 x))))
  | 4 => (* lint skeleton [has_ref; read_ref; parse_ref; read; parse] *)
      A (outcome_code (lint_skeleton (to_bool (nth_sx 0 x)) (to_bool (nth_sx 1 x))
                         (to_bool (nth_sx 2 x)) (to_bool (nth_sx 3 x)) (to_bool (nth_sx 4 x))))
  | 5 => (* skips.sort for strings.xml [shared strings with an error-level result; junk entries] *)
      of_result (fun _ => L [])
        (sort_skips (android_skip_keys (to_nat (nth_sx 0 x)) (to_nat (nth_sx 1 x))))
  | _ => sx_err
  end.

Require Extraction.
Require ExtrOcamlBasic.
Extraction Language OCaml.
Extraction "../ocaml/C05/model.ml" dispatch.
