From Coq Require Import ZArith NArith List Bool.
From CL Require Import Base.Sx Base.Res Base.Str Model.Merge Generated.C04Facts.
Import ListNotations.
Open Scope Z_scope.

(* [[start?]; [end?]; key; junk] *)
Definition skip_of (s : sx) : skip (K := str) :=
  mkskip (to_option to_nat (nth_sx 0 s), to_option to_nat (nth_sx 1 s))
         (to_str (nth_sx 2 s)) (to_bool (nth_sx 3 s)).

(* capabilities: [0; n] the number itself, [1; class name] looked up in the
   generated dispatch table *)
Definition caps_of (s : sx) : option N :=
  match to_Z (nth_sx 0 s) with
  | 0 => Some (to_N (nth_sx 1 s))
  | _ => caps_of_class (to_str (nth_sx 1 s)) parser_caps
  end.

Definition dispatch (f : Z) (x : sx) : sx :=
  match f with
  | 0 => (* merge [merge_file; caps; contents; skips; missing; refs] *)
      match caps_of (nth_sx 1 x) with
      | None => sx_err
      | Some caps =>
          of_result action_sx
            (merge str_eqb (to_bool (nth_sx 0 x)) caps (to_str (nth_sx 2 x))
                   (to_list skip_of (nth_sx 3 x))
                   (to_list to_str (nth_sx 4 x))
                   (to_list (to_pair to_str to_str) (nth_sx 5 x)))
      end
  | 1 => of_result action_sx (remove_file str_eqb (to_bool (nth_sx 0 x)))
  | 2 => of_result action_sx (compare_unknown str_eqb (to_bool (nth_sx 0 x)))
  | 3 => (* add [merge_file; [] | [caps]; trigger] *)
      match to_option caps_of (nth_sx 1 x) with
      | Some None => sx_err
      | Some (Some c) =>
          of_result action_sx (add_file str_eqb (to_bool (nth_sx 0 x)) (Some c) (to_str (nth_sx 2 x)))
      | None =>
          of_result action_sx (add_file str_eqb (to_bool (nth_sx 0 x)) None (to_str (nth_sx 2 x)))
      end
  | 4 => (* the generated table: capabilities of a parser class *)
      of_option of_N (caps_of_class (to_str x) parser_caps)
  | 5 => L [of_N can_none; of_N can_copy; of_N can_skip; of_N can_merge; of_N caps_default]
  | 6 => L [of_str (remove_spans (to_str (nth_sx 0 x))
                      (to_list (fun s => (to_option to_nat (nth_sx 0 s), to_option to_nat (nth_sx 1 s)))
                               (nth_sx 1 x)));
            of_str (ensure_newline (to_str (nth_sx 0 x)))]
  | 7 => (* the specification of C04_splice: characters outside every span *)
      of_str (uncovered (to_str (nth_sx 0 x)) (to_list (to_pair to_nat to_nat) (nth_sx 1 x)))
  | _ => sx_err
  end.

Require Extraction.
Require ExtrOcamlBasic.
Extraction Language OCaml.
Extraction "../ocaml/C04/model.ml" dispatch.
