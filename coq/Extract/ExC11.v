From CL Require Import Base.Sx Model.MatcherWire.

Definition dispatch := MatcherWire.dispatch.

Require Extraction.
Require ExtrOcamlBasic.
Extraction Language OCaml.
Extraction "../ocaml/C11/model.ml" dispatch.
