From Coq Require Import ZArith NArith List Bool.
From CL Require Import Base.Sx Regex.Rx Regex.RxSx Generated.Regexes.
Import ListNotations.
Open Scope Z_scope.

(* request: [regex; ngroups; string; offset] ; regex is an sx-encoded AST or
   (A i) = the i-th generated regex *)
Definition the_rx (x : sx) : rx :=
  match x with
  | A i => nth (Z.to_nat i) all_regexes Eps
  | _ => rx_of_sx x
  end.

Definition dispatch (f : Z) (x : sx) : sx :=
  let r := the_rx (nth_sx 0 x) in
  let n := to_nat (nth_sx 1 x) in
  let s := to_str (nth_sx 2 x) in
  let off := to_nat (nth_sx 3 x) in
  match f with
  | 0 => mr_sx n (rmatch r s off)
  | 1 => mr_sx n (rsearch r s off)
  | 2 => finditer_sx n (rfinditer r s)
  | 3 => mr_sx n (rsearch_end r s off (to_nat (nth_sx 4 x)))
  | 4 => L [of_bool (nullable r); of_bool (rep_ok r)]
  | _ => sx_err
  end.

Require Extraction.
Require ExtrOcamlBasic.
Extraction Language OCaml.
Extraction "../ocaml/RX/model.ml" dispatch.
