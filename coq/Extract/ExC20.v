From Coq Require Import ZArith List Bool.
From CL Require Import Base.Sx Base.Res Model.AddRemove.
Import ListNotations.
Open Scope Z_scope.

Definition ent_of (s : sx) : Z * Z := to_pair to_Z to_Z s.

Definition dispatch (f : Z) (x : sx) : sx :=
  match f with
  | 0 => (* addremove [l; r] *)
      let l := to_list to_Z (nth_sx 0 x) in
      let r := to_list to_Z (nth_sx 1 x) in
      of_list (fun p => L [A (label_code (fst p)); A (snd p)]) (addremove Z.eqb l r)
  | 1 => (* spec [l; r] *)
      let l := to_list to_Z (nth_sx 0 x) in
      let r := to_list to_Z (nth_sx 1 x) in
      of_list (fun p => L [A (label_code (fst p)); A (snd p)]) (spec Z.eqb l r)
  | 2 => (* keyed tuple: [items; key] -> [contains; getitem] *)
      let items := to_list ent_of (nth_sx 0 x) in
      let k := to_Z (nth_sx 1 x) in
      L [of_bool (kt_contains Z.eqb fst k items);
         of_result (of_pair A A) (kt_getitem Z.eqb fst k items)]
  | 3 => (* positional: [items; i] *)
      let items := to_list ent_of (nth_sx 0 x) in
      of_result (of_pair A A) (kt_getpos (to_Z (nth_sx 1 x)) items)
  | 4 => (* keys / iteration order: [items] *)
      let items := to_list ent_of (nth_sx 0 x) in
      L [of_list A (kt_keys fst items); of_list (of_pair A A) items]
  | _ => sx_err
  end.

Require Extraction.
Require ExtrOcamlBasic.
Extraction Language OCaml.
Extraction "../ocaml/C20/model.ml" dispatch.
