From Coq Require Import ZArith NArith List Bool.
From CL Require Import Base.Sx Base.Res Base.Str Model.Ftl Model.CheckFluent.
Import ListNotations.
Open Scope Z_scope.

(* wire format of the AST (harness/props/c08.py ast_sx):
   expr    [0 v] [1 v] [2 id] [3 pos id attr?] [4 pos id attr? args?] [5 id (args)]
           [6 sel (variants)] [7 e]         (x? = () or (x))
   variant [keykind keytext kpos default (pattern)]
   pattern list of [0 text] | [1 expr]
   The decoders recurse on a depth bound computed from the request. *)
Fixpoint sx_depth (s : sx) : nat :=
  match s with
  | A _ => 1
  | L l => S ((fix go (l : list sx) : nat :=
                 match l with [] => O | x :: l' => Nat.max (sx_depth x) (go l') end) l)
  end.

Definition ostr_of (s : sx) : option str := to_option to_str s.

Fixpoint to_expr (n : nat) (s : sx) {struct n} : expr :=
  match n with
  | O => EStr []
  | S n' =>
      let exprs_of := fix f (l : list sx) : exprs :=
        match l with [] => ENil | x :: l' => ECons (to_expr n' x) (f l') end in
      let pattern_of := fix f (l : list sx) : pattern :=
        match l with
        | [] => PNil
        | x :: l' =>
            if Z.eqb (to_Z (nth_sx 0 x)) 0 then PText (to_str (nth_sx 1 x)) (f l')
            else PPlace (to_expr n' (nth_sx 1 x)) (f l')
        end in
      let variants_of := fix f (l : list sx) : variants :=
        match l with
        | [] => VNil
        | x :: l' =>
            VCons (if Z.eqb (to_Z (nth_sx 0 x)) 0 then KId (to_str (nth_sx 1 x))
                   else KNum (to_str (nth_sx 1 x)))
                  (to_nat (nth_sx 2 x)) (to_bool (nth_sx 3 x))
                  (pattern_of (to_list (fun y => y) (nth_sx 4 x))) (f l')
        end in
      let items (x : sx) := to_list (fun y => y) x in
      match to_Z (nth_sx 0 s) with
      | 0 => EStr (to_str (nth_sx 1 s))
      | 1 => ENum (to_str (nth_sx 1 s))
      | 2 => EVar (to_str (nth_sx 1 s))
      | 3 => EMsg (to_nat (nth_sx 1 s)) (to_str (nth_sx 2 s)) (ostr_of (nth_sx 3 s))
      | 4 => ETerm (to_nat (nth_sx 1 s)) (to_str (nth_sx 2 s)) (ostr_of (nth_sx 3 s))
                   (match nth_sx 4 s with
                    | L [a] => Some (exprs_of (items a))
                    | _ => None
                    end)
      | 5 => EFun (to_str (nth_sx 1 s)) (exprs_of (items (nth_sx 2 s)))
      | 6 => ESel (to_expr n' (nth_sx 1 s)) (variants_of (items (nth_sx 2 s)))
      | _ => EPlace (to_expr n' (nth_sx 1 s))
      end
  end.

Definition to_pattern (n : nat) (s : sx) : pattern :=
  (fix f (l : list sx) : pattern :=
     match l with
     | [] => PNil
     | x :: l' =>
         if Z.eqb (to_Z (nth_sx 0 x)) 0 then PText (to_str (nth_sx 1 x)) (f l')
         else PPlace (to_expr n (nth_sx 1 x)) (f l')
     end) (to_list (fun y => y) s).

(* entry [is_term pos value? (attrs)], value = [vpos (pattern)], attr = [name pos (pattern)] *)
Definition to_entry (s : sx) : entry :=
  let n := sx_depth s in
  mkentry (to_bool (nth_sx 0 s)) (to_nat (nth_sx 1 s))
          (match nth_sx 2 s with
           | L [v] => Some (to_nat (nth_sx 0 v), to_pattern n (nth_sx 1 v))
           | _ => None
           end)
          (to_list (fun a => mkattr (to_str (nth_sx 0 a)) (to_nat (nth_sx 1 a))
                                    (to_pattern n (nth_sx 2 a))) (nth_sx 3 s)).

Definition issue_sx (i : issue) : sx :=
  L [of_bool (i_err i); L [of_bool (i_entitypos i); A (i_pos i)]; of_str (i_text i); of_str (i_cat i)].

Definition msg_sx (m : msg) : sx := L [of_bool (m_err m); of_nat (m_pos m); of_str (m_text m)].

Definition cssmap_sx (m : option cssmap) : sx :=
  of_option (of_list (of_pair of_str (of_option of_str))) m.
Definition csserrs_sx (e : option css_errs) : sx :=
  of_option (of_list (of_pair of_nat (fun c => A (match c with BadContent => 0 | MissingSemicolon => 1 end)))) e.

Definition dispatch (f : Z) (x : sx) : sx :=
  match f with
  | 0 => (* FluentChecker.check: [locale?; ref entry; l10n entry; all; key] *)
      of_result (of_list issue_sx)
        (check (ostr_of (nth_sx 0 x)) (to_entry (nth_sx 1 x)) (to_entry (nth_sx 2 x))
               (to_str (nth_sx 3 x)) (to_str (nth_sx 4 x)))
  | 1 => (* parse_css_spec: [val] *)
      let r := parse_css_spec (to_str (nth_sx 0 x)) in
      L [cssmap_sx (fst r); csserrs_sx (snd r)]
  | 2 => (* plurals.get_plural: [locale?] *)
      of_result (of_option (of_list of_str)) (get_plural (ostr_of (nth_sx 0 x)))
  | 3 => (* check_style(parse(ref) map or {}, *parse(l10n)): [ref; l10n] -> [msgs; ref map afterwards] *)
      let r := parse_css_spec (to_str (nth_sx 0 x)) in
      let l := parse_css_spec (to_str (nth_sx 1 x)) in
      let o := check_style (or_nil (fst r)) (fst l) (snd l) in
      L [of_list msg_sx (fst o); cssmap_sx (Some (snd o))]
  | _ => sx_err
  end.

Require Extraction.
Require ExtrOcamlBasic.
Extraction Language OCaml.
Extraction "../ocaml/C08/model.ml" dispatch.
