From Coq Require Import ZArith NArith List Bool.
From CL Require Import Base.Sx Base.Res Base.Str Regex.Rx Model.LineCol Model.Lint Model.LintProps
                       Generated.C19Facts.
Import ListNotations.
Open Scope Z_scope.

(* wire -> model.  Keys and messages are integers (ids given by the harness);
   Entity.equals, the parse, isfile and the checker's results are tables. *)
Definition ent := @entity Z.
Definition to_span (s : sx) : span := to_pair to_Z to_Z s.

(* [id; key; junk; class; span; val_span?]   class: 0 Entry/Junk, 1 DTDEntity,
   2 FluentEntity, 3 AndroidEntity/XMLJunk *)
Definition to_entity (contents : list N) (s : sx) : ent :=
  let sp := to_span (nth_sx 4 s) in
  let vs := to_option to_span (nth_sx 5 s) in
  let cls := to_Z (nth_sx 3 s) in
  mkEntity (to_nat (nth_sx 0 s)) (to_Z (nth_sx 1 s)) (to_bool (nth_sx 2 s)) []
    (if cls =? 3 then android_position else entry_position contents sp)
    (if cls =? 3 then android_value_position
     else if cls =? 2 then fluent_value_position contents sp
     else if cls =? 1 then dtd_value_position contents vs
     else entry_value_position contents vs).

(* [level; kind; a; b; msg; cat]   kind: 0 EntityPos(a), 1 int a, 2 tuple (a, b) *)
Definition to_cres (s : sx) : @cres Z :=
  let k := to_Z (nth_sx 1 s) in
  let a := to_Z (nth_sx 2 s) in
  let b := to_Z (nth_sx 3 s) in
  mkCres (if to_Z (nth_sx 0 s) =? 0 then LError else LWarning)
         (if k =? 0 then EntityPos a else if k =? 1 then ValuePos (VOff a)
          else ValuePos (VTuple a b))
         (to_Z (nth_sx 4 s)) (to_Z (nth_sx 5 s)).

Definition of_level (l : level) : sx := A (match l with LError => 0 | LWarning => 1 end).
Definition of_message (m : @message Z Z) : sx :=
  match m with
  | MDuplicate k => L [A 0; A k]
  | MChanged k => L [A 1; A k]
  | MJunk id p q => L [A 2; of_nat id; A (fst p); A (snd p); A (fst q); A (snd q)]
  | MCheck c => L [A 3; A c]
  end.
Definition of_finding (f : @finding Z Z) : sx :=
  L [A (f_lineno f); A (f_column f); of_level (f_level f); of_message (f_message f)].

Fixpoint assoc {T} (eqb : T -> T -> bool) {V} (k : T) (m : list (T * V)) : option V :=
  match m with
  | [] => None
  | (k', v) :: m' => if eqb k k' then Some v else assoc eqb k m'
  end.

Definition pair_eqb (a b : nat * nat) : bool :=
  Nat.eqb (fst a) (fst b) && Nat.eqb (snd a) (snd b).

(* Entity.equals from the list of (id, id) pairs that are equal *)
Definition equals_of (eqs : list (nat * nat)) (a b : ent) : result bool :=
  Ok (existsb (pair_eqb (e_id a, e_id b)) eqs).

(* checker.check(e, e) from the table id -> results *)
Definition checker_of (res : list (nat * list (@cres Z))) : @checker Z Z :=
  fun e _ => match assoc Nat.eqb (e_id e) res with Some l => l | None => [] end.

Definition to_results (s : sx) : list (nat * list (@cres Z)) :=
  to_list (fun x => (to_nat (nth_sx 0 x), to_list to_cres (nth_sx 1 x))) s.

Definition to_eqs (s : sx) : list (nat * nat) := to_list (to_pair to_nat to_nat) s.

Definition of_findings (r : result (list (@finding Z Z))) : sx :=
  of_result (of_list of_finding) r.

Definition of_path_findings (r : result (list (path * @finding Z Z))) : sx :=
  of_result (of_list (fun pf => L [of_str (fst pf); of_finding (snd pf)])) r.

(* environment of lint_file / lint:
   [parses; files; eqs; checkers; results]
   parses   : list of [p; f; contents; entities]   (file f read with the parser of p)
   files    : paths for which os.path.isfile holds
   checkers : list of [p; checker?]  with checker? = [] | [needs_reference] *)
Definition str_pair_eqb (a b : path * path) : bool :=
  str_eqb (fst a) (fst b) && str_eqb (snd a) (snd b).

Definition parse_of (s : sx) (p f : path) : list ent :=
  match assoc str_pair_eqb (p, f)
          (to_list (fun x => ((to_str (nth_sx 0 x), to_str (nth_sx 1 x)),
                              to_list (to_entity (to_str (nth_sx 2 x))) (nth_sx 3 x))) s) with
  | Some l => l
  | None => []
  end.

Definition get_checker_of (s : sx) (res : list (nat * list (@cres Z)))
           (p : path) (_ : option Z) : option (@checker_obj Z Z) :=
  match assoc str_eqb p (to_list (fun x => (to_str (nth_sx 0 x), nth_sx 1 x)) s) with
  | Some c => match to_option to_bool c with
              | Some nr => Some (mkChecker nr (fun _ => checker_of res))
              | None => None
              end
  | None => None
  end.

Definition no_plugins (_ : path) : bool := false.

(* findings of the text-level .properties lint: keys are strings *)
Definition of_message_s (m : @message str Z) : sx :=
  match m with
  | MDuplicate k => L [A 0; of_str k]
  | MChanged k => L [A 1; of_str k]
  | MJunk id p q => L [A 2; of_nat id; A (fst p); A (snd p); A (fst q); A (snd q)]
  | MCheck c => L [A 3; A c]
  end.
Definition of_finding_s (f : @finding str Z) : sx :=
  L [A (f_lineno f); A (f_column f); of_level (f_level f); of_message_s (f_message f)].

Definition dispatch (f : Z) (x : sx) : sx :=
  match f with
  | 0 => (* EntityLinter: [cur_contents; ref_contents; cur; ref?; eqs; checker?] *)
      let cur := to_list (to_entity (to_str (nth_sx 0 x))) (nth_sx 2 x) in
      let ref := to_option (to_list (to_entity (to_str (nth_sx 1 x)))) (nth_sx 3 x) in
      let chk := to_option (fun s => checker_of (to_results s)) (nth_sx 5 x) in
      of_findings (lint_entities Z.eqb (equals_of (to_eqs (nth_sx 4 x)))
                                 (new_linter Z.eqb cur chk ref) cur)
  | 1 => (* lint_file: [env; p; ref?; extra?] *)
      let env := nth_sx 0 x in
      let res := to_results (nth_sx 4 env) in
      of_path_findings
        (lint_file Z.eqb (equals_of (to_eqs (nth_sx 2 env))) parser_dispatch no_plugins
           (parse_of (nth_sx 0 env))
           (fun p => existsb (str_eqb p) (to_list to_str (nth_sx 1 env)))
           Z (get_checker_of (nth_sx 3 env) res)
           (to_str (nth_sx 1 x)) (to_option to_str (nth_sx 2 x)) (to_option to_Z (nth_sx 3 x)))
  | 2 => (* lint: [env; files; table of [p; ref?; extra?]] *)
      let env := nth_sx 0 x in
      let res := to_results (nth_sx 4 env) in
      let tbl := to_list (fun r => (to_str (nth_sx 0 r),
                                    (to_option to_str (nth_sx 1 r), to_option to_Z (nth_sx 2 r))))
                         (nth_sx 2 x) in
      of_path_findings
        (lint Z.eqb (equals_of (to_eqs (nth_sx 2 env))) parser_dispatch no_plugins
           (parse_of (nth_sx 0 env))
           (fun p => existsb (str_eqb p) (to_list to_str (nth_sx 1 env)))
           Z (get_checker_of (nth_sx 3 env) res)
           (to_list to_str (nth_sx 1 x))
           (fun p => match assoc str_eqb p tbl with Some r => r | None => (None, None) end))
  | 3 => (* hasParser / index of the parser: path -> [has; index?] *)
      let p := to_str x in
      L [of_bool (has_parser parser_dispatch no_plugins p);
         of_option of_nat (table_index parser_dispatch p 0)]
  | 4 => (* position methods: [contents; class; span; val_span?; kind; a; b] *)
      let e := to_entity (to_str (nth_sx 0 x))
                 (L [A 0; A 0; A 0; nth_sx 1 x; nth_sx 2 x; nth_sx 3 x]) in
      let k := to_Z (nth_sx 4 x) in
      let a := to_Z (nth_sx 5 x) in
      let b := to_Z (nth_sx 6 x) in
      of_result (of_pair A A)
        (if k =? 0 then e_position e a
         else if k =? 1 then e_value_position e (VOff a)
         else e_value_position e (VTuple a b))
  | 5 => (* text-level lint: [j0; text; ref_text?; checker?; format]  checker = results by
            start offset; format 0 .properties, 1 .ini, 2 .dtd with the table raw -> html.unescape(raw)
            as sixth element *)
      let res := to_option to_results (nth_sx 3 x) in
      let chk := option_map (fun r => (fun (e : @entity str) (_ : @entity str) =>
                                 match assoc Nat.eqb (e_id e) r with Some l => l | None => [] end)) res in
      let j0 := to_nat (nth_sx 0 x) in
      let text := to_str (nth_sx 1 x) in
      let ref := to_option to_str (nth_sx 2 x) in
      of_result (of_list of_finding_s)
        (if to_Z (nth_sx 4 x) =? 1 then lint_ini j0 chk text ref
         else if to_Z (nth_sx 4 x) =? 2 then
           let tbl := to_list (to_pair to_str to_str) (nth_sx 5 x) in
           lint_dtd (fun raw => match assoc str_eqb raw tbl with Some u => u | None => raw end)
                    j0 chk text ref
         else lint_properties j0 chk text ref)
  | _ => sx_err
  end.

Require Extraction.
Require ExtrOcamlBasic.
Extraction Language OCaml.
Extraction "../ocaml/C19/model.ml" dispatch.
