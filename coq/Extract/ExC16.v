From Coq Require Import ZArith List Bool.
From CL Require Import Base.Sx Base.Res Base.Str Model.Channels Model.Serializer.
Import ListNotations.
Open Scope Z_scope.

Definition new_data_of_sx (s : sx) : new_data_t :=
  to_list (fun p => (to_str (nth_sx 0 p), to_option to_str (nth_sx 1 p))) s.

Definition wraps_of_sx (s : sx) : list (nat * wrapinfo) :=
  to_list (fun p => (to_nat (nth_sx 0 p), wrapinfo_of_sx (nth_sx 1 p))) s.

Definition dispatch (f : Z) (x : sx) : sx :=
  match f with
  | 0 => (* serialize [name; contents; reference; wraps; old; new_data] -> result text *)
      let wrap := wrap_by_id (to_str (nth_sx 1 x)) (wraps_of_sx (nth_sx 3 x)) in
      of_result of_str
        (serialize wrap (to_str (nth_sx 0 x)) (to_list centry_of_sx (nth_sx 2 x))
                   (to_list centry_of_sx (nth_sx 4 x)) (new_data_of_sx (nth_sx 5 x)))
  | 1 => (* entity.wrap(raw): [contents; wrapinfo; key; raw] -> result [key; raw_val; all] *)
      of_result (fun e => L [of_str (c_key e); of_str (c_val e); of_str (c_text e)])
        (apply_wrap (to_str (nth_sx 0 x)) (wrapinfo_of_sx (nth_sx 1 x))
                    (to_str (nth_sx 2 x)) (to_str (nth_sx 3 x)))
  | 2 => (* s[a:b] *)
      of_str (pyslice (to_str (nth_sx 0 x)) (to_Z (nth_sx 1 x)) (to_Z (nth_sx 2 x)))
  | 3 => (* serialize_entries: [contents; reference; wraps; old; new_data] -> result entries *)
      let wrap := wrap_by_id (to_str (nth_sx 0 x)) (wraps_of_sx (nth_sx 2 x)) in
      of_result (of_list (fun e => L [A (ckind_code (c_kind e)); of_str (c_key e); of_str (c_text e)]))
        (serialize_entries wrap (to_list centry_of_sx (nth_sx 1 x))
                   (to_list centry_of_sx (nth_sx 3 x)) (new_data_of_sx (nth_sx 4 x)))
  | _ => sx_err
  end.

Require Extraction.
Require ExtrOcamlBasic.
Extraction Language OCaml.
Extraction "../ocaml/C16/model.ml" dispatch.
