From Coq Require Import ZArith NArith List Bool Arith.
From CL Require Import Base.Sx Base.Res Base.Str Regex.Rx Regex.RxSx Generated.FilterFacts
  Model.Filter Model.FilterSpec Model.FilterCompare Model.Pattern Model.Matcher Model.FilterE2E.
Import ListNotations.
Open Scope Z_scope.

(* The extracted instance: a locale and a file are indices into the harness's
   universe; a matcher IS its truth table, the list of the (locale, file)
   triples on which the real Matcher, with the locale bound by with_env,
   matched, with the size of the dictionary it returned; re.compile of the user's expressions is a table pattern -> AST
   (translated by tr/rx2coq.py at run time; no entry / empty = re.error). *)
Definition matcher := list (nat * nat * nat).
Definition pmatch (m : matcher) (l f : nat) : option nat :=
  match find (fun p => Nat.eqb (fst (fst p)) l && Nat.eqb (snd (fst p)) f) m with
  | Some p => Some (snd p)
  | None => None
  end.
(* `match(...) is not None` *)
Definition matches : matcher -> nat -> nat -> bool := doc_matches _ _ _ pmatch.

Definition retable := list (str * option rx).
Fixpoint lookup_re (t : retable) (p : str) : option rx :=
  match t with
  | [] => None
  | (q, r) :: t' => if str_eqb p q then r else lookup_re t' p
  end.

Definition cfg := config matcher nat.
Definition rawcfg := rawconfig matcher nat.

(* ---- decoders (None = ill-typed request) -------------------------------- *)
Definition omap {A} (f : sx -> option A) (x : sx) : option (list A) :=
  match x with
  | A _ => None
  | L l => fold_right (fun y acc => match f y, acc with
                                    | Some v, Some vs => Some (v :: vs)
                                    | _, _ => None
                                    end) (Some []) l
  end.

Definition to_action (x : sx) : option action :=
  find (fun a => str_eqb (action_name a) (to_str x)) all_actions.

Definition to_matcher (x : sx) : matcher :=
  to_list (fun e => (to_nat (nth_sx 0 e), to_nat (nth_sx 1 e), to_nat (nth_sx 2 e))) x.
Definition to_locs (x : sx) : option (list nat) := to_option (to_list to_nat) x.
Definition to_pathd (x : sx) : pathd matcher nat :=
  mkpath _ _ (to_matcher (nth_sx 0 x)) (to_locs (nth_sx 1 x)).

Fixpoint to_rawkey (x : sx) : rawkey :=
  match x with
  | L [A 0; s] => RK (to_str s)
  | L [A 1; L l] => RKs (map to_rawkey l)
  | _ => RKs []
  end.

Definition to_rawpath (x : sx) : rawpath matcher :=
  match x with
  | L [A 0; m] => RPone _ (to_matcher m)
  | L [A 1; ms] => RPlist _ (to_list to_matcher ms)
  | _ => RPlist _ []
  end.

Definition to_rawrule (x : sx) : option (rawrule matcher) :=
  match to_action (nth_sx 2 x) with
  | Some a => Some (mkraw _ (to_rawpath (nth_sx 0 x)) (to_option to_rawkey (nth_sx 1 x)) a)
  | None => None
  end.

Fixpoint to_rawcfg (x : sx) : option rawcfg :=
  match x with
  | L [locs; paths; rules; L children; L excludes] =>
      let kids := fix go (l : list sx) : option (list rawcfg) :=
                    match l with
                    | [] => Some []
                    | y :: l' => match to_rawcfg y, go l' with
                                 | Some v, Some vs => Some (v :: vs)
                                 | _, _ => None
                                 end
                    end in
      match omap to_rawrule rules, kids children, kids excludes with
      | Some rs, Some cs, Some es =>
          Some (mkrawc _ _ (to_locs locs) (to_list to_pathd paths) rs cs es)
      | _, _, _ => None
      end
  | _ => None
  end.

Definition to_retable (x : sx) : retable :=
  to_list (fun e => (to_str (nth_sx 0 e), to_option rx_of_sx (nth_sx 1 e))) x.

Definition to_cpath (x : sx) : cpath :=
  to_list (fun s => (to_bool (nth_sx 0 s), to_nat (nth_sx 1 s))) x.

Definition to_ent (x : sx) : option str := to_option to_str x.

Definition to_op (x : sx) : option (op matcher nat nat) :=
  match to_Z (nth_sx 0 x) with
  | 0 => Some (OQuery _ _ _ (to_nat (nth_sx 1 x)) (to_nat (nth_sx 2 x)) (to_ent (nth_sx 3 x)))
  | 1 => match omap to_rawrule (nth_sx 2 x) with
         | Some rs => Some (OAddRules _ _ _ (to_cpath (nth_sx 1 x)) rs)
         | None => None
         end
  | 2 => Some (OSetLocales _ _ _ (to_cpath (nth_sx 1 x)) (to_list to_nat (nth_sx 2 x)))
  | 3 => Some (OAddPaths _ _ _ (to_cpath (nth_sx 1 x)) (to_list to_pathd (nth_sx 2 x)))
  | _ => None
  end.

Definition of_action (a : action) : sx := of_str (action_name a).

(* a filter as a function: default verdict and exceptions by key *)
Definition to_fun (x : sx) : option (str -> action) :=
  match to_action (nth_sx 0 x),
        omap (fun e => match to_action (nth_sx 1 e) with
                       | Some a => Some (to_str (nth_sx 0 e), a)
                       | None => None
                       end) (nth_sx 1 x) with
  | Some d, Some tbl =>
      Some (fun k => match find (fun e => str_eqb (fst e) k) tbl with
                     | Some e => snd e
                     | None => d
                     end)
  | _, _ => None
  end.

Definition of_observer (o : observer) : sx :=
  L [of_list of_str (o_details o); L [of_nat (fst (o_summary o)); of_nat (snd (o_summary o))]].

(* ---- configurations with pattern texts (Model/FilterE2E.v) ------------------------ *)
Definition to_tpath (x : sx) : rawpath str :=
  match x with
  | L [A 0; t] => RPone _ (to_str t)
  | L [A 1; ts] => RPlist _ (to_list to_str ts)
  | _ => RPlist _ []
  end.

Definition to_trule (x : sx) : option (rawrule str) :=
  match to_action (nth_sx 2 x) with
  | Some a => Some (mkraw _ (to_tpath (nth_sx 0 x)) (to_option to_rawkey (nth_sx 1 x)) a)
  | None => None
  end.

Definition to_slocs (x : sx) : option (list str) := to_option (to_list to_str) x.

(* [kv; root; locales; paths; rules; children; excludes] *)
Fixpoint to_tconfig (x : sx) : option tconfig :=
  match x with
  | L [kv; root; locs; paths; rules; L children; L excludes] =>
      let kids := fix go (l : list sx) : option (list tconfig) :=
                    match l with
                    | [] => Some []
                    | y :: l' => match to_tconfig y, go l' with
                                 | Some v, Some vs => Some (v :: vs)
                                 | _, _ => None
                                 end
                    end in
      match omap to_trule rules, kids children, kids excludes with
      | Some rs, Some cs, Some es =>
          Some (mktc (to_list (to_pair to_str to_str) kv) (to_option to_str root) (to_slocs locs)
                     (to_list (fun p => (to_str (nth_sx 0 p), to_slocs (nth_sx 1 p))) paths)
                     rs cs es)
      | _, _, _ => None
      end
  | _ => None
  end.

Definition dispatch (f : Z) (x : sx) : sx :=
  match f with
  | 0 => (* session: [retable; rawconfig; ops] -> Ok [[stateful; cache-free] per query] *)
      let cre := lookup_re (to_retable (nth_sx 0 x)) in
      match to_rawcfg (nth_sx 1 x), omap to_op (nth_sx 2 x) with
      | Some raw, Some ops =>
          of_result (of_list (fun p => L [of_action (fst p); of_action (snd p)]))
                    (do c <- build _ _ cre raw;
                     run_ops _ _ _ Nat.eqb matches cre c ops)
      | _, _ => sx_err
      end
  | 1 => (* [retable; rawconfig; queries [loc; file; ent]] ->
            Ok [[cache-free; spec; excludes_error_only] per query; no_exclude_rules] *)
      let cre := lookup_re (to_retable (nth_sx 0 x)) in
      match to_rawcfg (nth_sx 1 x) with
      | Some raw =>
          of_result (fun c =>
            L [of_list (fun q =>
                 let loc := to_nat (nth_sx 0 q) in
                 let fl := to_nat (nth_sx 1 q) in
                 let ent := to_ent (nth_sx 2 q) in
                 L [of_action (filter_pure _ _ _ Nat.eqb matches c loc fl ent);
                    of_action (spec _ _ _ Nat.eqb matches cre raw loc fl ent);
                    of_bool (excludes_error_only _ _ _ Nat.eqb matches cre raw loc fl)])
                 (to_list (fun q => q) (nth_sx 2 x));
               of_bool (no_exclude_rules _ _ raw)])
            (build _ _ cre raw)
      | None => sx_err
      end
  | 2 => (* _compile_rule: [retable; rules; probes] ->
            Ok [[matcher; [] | [[key.match(probe) ...]]; action] per compiled rule] *)
      let cre := lookup_re (to_retable (nth_sx 0 x)) in
      let probes := to_list to_str (nth_sx 2 x) in
      match omap to_rawrule (nth_sx 1 x) with
      | Some rs =>
          of_result (of_list (fun r : rule matcher =>
                       L [of_list (fun t => L [of_nat (fst (fst t)); of_nat (snd (fst t)); of_nat (snd t)]) (r_path _ r);
                          of_option (fun k => of_list (fun e => of_bool (key_match k e)) probes)
                                    (r_key _ r);
                          of_action (r_action _ r)]))
                    (compile_rules _ cre rs)
      | None => sx_err
      end
  | 3 => (* in-file: [shown; filters ([] | [[default; [[key; action]]]]); keys] *)
      match omap (fun e => match e with
                           | L [] => Some None
                           | L [g] => match to_fun g with Some h => Some (Some h) | None => None end
                           | _ => None
                           end) (nth_sx 1 x) with
      | Some fs =>
          let r := compare_missing (to_bool (nth_sx 0 x)) fs (to_list to_str (nth_sx 2 x)) in
          L [of_list of_str (c_missings r); of_nat (c_missing r); of_nat (c_report r);
             of_list of_observer (c_obs r); of_observer (c_own r)]
      | None => sx_err
      end
  | 4 => (* end to end: [retable; tconfig; queries [locale; path; ent]] ->
            Ok [Ok verdict | Raise per query] (the configuration is compiled and built once) *)
      let cre := lookup_re (to_retable (nth_sx 0 x)) in
      match to_tconfig (nth_sx 1 x) with
      | Some t =>
          of_result (fun c =>
            of_list (fun q =>
              of_result of_action
                (e2e_filter_cfg c (to_str (nth_sx 0 q)) (to_str (nth_sx 1 q)) (to_ent (nth_sx 2 q))))
              (to_list (fun q => q) (nth_sx 2 x)))
            (do raw <- t_compile t; build Matcher.matcher str cre raw)
      | None => sx_err
      end
  | _ => sx_err
  end.

Require Extraction.
Require ExtrOcamlBasic.
Extraction Language OCaml.
Extraction "../ocaml/C14/model.ml" dispatch.
