From Coq Require Import ZArith NArith List Bool.
From CL Require Import Base.Sx Base.Res Base.Str Regex.Rx Model.Entry Model.Parse
  Model.ParseFormats Model.ParseFluent.
Import ListNotations.
Open Scope Z_scope.

Definition walk_by (f : Z) (s : str) : result (list entry) :=
  match f with
  | 0 => walk_properties s
  | 1 => walk_dtd s
  | 2 => walk_ini s
  | 3 => walk_defines s
  | _ => walk_po s
  end.

Definition fkind_of (z : Z) : fkind :=
  match z with 0 => FMessage | 1 => FTerm | 2 => FJunk | 3 => FComment | _ => FOther end.

Definition fentry_of (x : sx) : fentry :=
  mkf (fkind_of (to_Z (nth_sx 0 x))) (to_pair to_nat to_nat (nth_sx 1 x))
      (to_pair to_nat to_nat (nth_sx 2 x)) (to_option (to_pair to_nat to_nat) (nth_sx 3 x))
      (to_str (nth_sx 4 x)).

(* request: (format, [s]) -> Ok [entries; localizable entries]
   format 5 = Fluent: [s; body] *)
Definition dispatch (f : Z) (x : sx) : sx :=
  let s := to_str (nth_sx 0 x) in
  match f with
  | 5 =>
      let body := to_list fentry_of (nth_sx 1 x) in
      L [A 0; L [of_list entry_sx (walk_fluent_gen false s body);
                 of_list entry_sx (walk_fluent_gen true s body)]]
  | _ =>
      of_result (fun es => L [of_list entry_sx es; of_list entry_sx (filter is_localizable es)])
                (walk_by f s)
  end.

Require Extraction.
Require ExtrOcamlBasic.
Extraction Language OCaml.
Extraction "../ocaml/C01/model.ml" dispatch.
