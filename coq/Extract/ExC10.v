From Coq Require Import ZArith NArith List Bool.
From CL Require Import Base.Sx Base.Res Base.Str Model.Tree Model.Observer Model.Summaries.
Import ListNotations.
Open Scope Z_scope.

(* ---- wire decoding ------------------------------------------------------ *)
Definition to_key (s : sx) : key := to_list to_N s.

(* leaf: [0; [] | [module segs]; file segs]  |  [1; path segs] *)
Definition to_leaf (s : sx) : leafkind :=
  if Z.eqb (to_Z (nth_sx 0 s)) 0
  then LFile (to_option to_key (nth_sx 1 s)) (to_key (nth_sx 2 s))
  else LStr (to_key (nth_sx 1 s)).

(* data: [] None | [0; id] str | [1; id] tuple *)
Definition to_data (s : sx) : data :=
  match s with
  | L [A k; A n] => if Z.eqb k 0 then DStr (Z.to_N n) else DTup (Z.to_N n)
  | _ => DNone
  end.
Definition of_data (d : data) : sx :=
  match d with DNone => L [] | DStr n => L [A 0; of_N n] | DTup n => L [A 1; of_N n] end.

(* verdict: 0 error, 1 warning, 2 ignore, 3 + n other *)
Definition to_verdict (s : sx) : verdict :=
  let z := to_Z s in
  if Z.eqb z 0 then VError else if Z.eqb z 1 then VWarning
  else if Z.eqb z 2 then VIgnore else VOther (Z.to_N (z - 3)).
Definition of_verdict (v : verdict) : sx :=
  match v with VError => A 0 | VWarning => A 1 | VIgnore => A 2 | VOther n => A (3 + Z.of_N n) end.

(* file: [id; locale; leaf] *)
Definition to_file (s : sx) : file :=
  {| f_id := to_N (nth_sx 0 s); f_locale := to_N (nth_sx 1 s); f_leaf := to_leaf (nth_sx 2 s) |}.

(* filter: [] None | [[default; [[file id; data; verdict] ...]]] a verdict table *)
Definition table_filter (dflt : verdict) (tbl : list (N * data * verdict)) : filter_t :=
  fun f d =>
    match find (fun e => N.eqb (fst (fst e)) (f_id f) && data_eqb (snd (fst e)) d) tbl with
    | Some e => snd e
    | None => dflt
    end.
Definition to_filter (s : sx) : option filter_t :=
  to_option (fun t =>
    table_filter (to_verdict (nth_sx 0 t))
      (to_list (fun e => (to_N (nth_sx 0 e), to_data (nth_sx 1 e), to_verdict (nth_sx 2 e)))
               (nth_sx 1 t))) s.
Definition to_conf (s : sx) : oconf :=
  {| c_quiet := to_nat (nth_sx 0 s); c_filter := to_filter (nth_sx 1 s) |}.

(* event: [0; category name; file; data] | [1; file; [[key name; n] ...]] *)
Definition to_event (s : sx) : event :=
  if Z.eqb (to_Z (nth_sx 0 s)) 0
  then ENotify (classify (to_str (nth_sx 1 s))) (to_file (nth_sx 2 s)) (to_data (nth_sx 3 s))
  else EStats (to_file (nth_sx 1 s))
              (to_list (fun kv => (to_str (nth_sx 0 kv), to_nat (nth_sx 1 kv))) (nth_sx 2 s)).

(* ---- wire encoding ------------------------------------------------------ *)
Definition of_key (k : key) : sx := of_list of_N k.

Fixpoint of_json {V} (fv : V -> sx) (j : json V) : sx :=
  match j with
  | JVal l => L [A 0; of_list fv l]
  | JDict d => L [A 1; L (map (fun kc => L [of_key (fst kc); of_json fv (snd kc)]) d)]
  end.

Definition of_row {V} (fv : V -> sx) (r : row V) : sx :=
  match r with
  | RValue depth v => L [of_nat depth; A 0; of_list fv v]
  | RKey depth k => L [of_nat depth; A 1; of_key k]
  end.

Definition of_flat {V} (fv : V -> sx) (l : list (key * list V)) : sx :=
  of_list (fun pv => L [of_key (fst pv); of_list fv (snd pv)]) l.

(* item: [category index 0..5 in the order of the facts; payload] *)
Definition of_item (it : item) : sx :=
  match it with
  | IFile missing rv => L [A (if missing then 0 else 1); of_verdict rv]
  | IEntity missing d => L [A (if missing then 2 else 3); of_data d]
  | IMsg is_err d => L [A (if is_err then 4 else 5); of_data d]
  end.

Definition of_outcome (o : outcome) : sx :=
  match o with
  | OVerdict v => L [A 0; of_verdict v]
  | ONone => L [A 1]
  | ORaise t => L [A 2; A (tag_code t)]
  end.

Definition of_summary (s : summary_t) : sx :=
  of_list (fun lc => L [of_N (fst lc);
                        of_list (fun kv => L [of_str (fst kv); of_nat (snd kv)]) (snd lc)]) s.

(* Observer.toJSON plus the error flag *)
Definition of_ostate (st : ostate) : sx :=
  L [of_summary (o_summary st); of_json of_item (toJSON (o_details st)); of_bool (o_error st)].

Definition of_sline (l : sline) : sx :=
  match l with
  | SKeyLine indent k => L [of_nat indent; A 0; of_key k]
  | SItem indent kind d => L [of_nat indent; A (1 + Z.of_nat kind); of_data d]
  | SBlank => L []
  end.

(* serializeSummaries: [0; locale id] | [1; text] *)
Definition of_sumline (l : sumline) : sx :=
  match l with
  | SLocale loc => L [A 0; of_N loc]
  | SText s => L [A 1; of_str s]
  end.

(* ---- entry points ------------------------------------------------------- *)
(* tree ops: [[locale; leaf; xs] ...]  (plain Tree(list) holding integers) *)
Fixpoint run_ops (t : tree Z) (ops : list (key * list Z)) : result (tree Z) :=
  match ops with
  | [] => Ok t
  | (p, xs) :: r => do t' <- tree_getitem t p xs; run_ops t' r
  end.

Definition dispatch (f : Z) (x : sx) : sx :=
  match f with
  | 0 => (* TREE: ops -> [toJSON; getContent; flatten] *)
      let ops := to_list (fun o => (leaf_parts (to_N (nth_sx 0 o)) (to_leaf (nth_sx 1 o)),
                                    to_list to_Z (nth_sx 2 o))) x in
      of_result (fun t => L [of_json A (toJSON t);
                             of_list (of_row A) (getContent t 0);
                             of_flat A (flatten t)])
                (run_ops empty_tree ops)
  | 1 => (* OBSERVER: [quiet; confs; events] *)
      let q := to_nat (nth_sx 0 x) in
      let confs := to_list to_conf (nth_sx 1 x) in
      let h := to_list to_event (nth_sx 2 x) in
      let (st, outs) := lrun q (init_list confs) h in
      L [of_list of_outcome outs;
         of_ostate (l_own st);
         of_list (fun cs => of_ostate (snd cs)) (l_obs st);
         of_result (of_list of_sline) (serialize_details st);
         L [A (exit_code false st); A (exit_code true st)];
         of_flat of_item (flatten (o_details (l_own st)));
         of_result (of_list of_sumline) (serialize_summaries st)]
  | 2 => (* classify a category name *)
      of_nat (match classify (to_str x) with
              | MissingFile => 0 | ObsoleteFile => 1 | MissingEntity => 2
              | ObsoleteEntity => 3 | CError => 4 | CWarning => 5 | COther => 6 end)
  | _ => sx_err
  end.

Require Extraction.
Require ExtrOcamlBasic.
Extraction Language OCaml.
Extraction "../ocaml/C10/model.ml" dispatch.
