From Coq Require Import ZArith NArith List Bool.
From CL Require Import Base.Sx Base.Res Base.Str Model.CheckAndroid.
Import ListNotations.
Open Scope Z_scope.

Definition pmap_sx (m : pmap) : sx := of_list (of_pair of_nat of_str) m.
Definition pmap_of_sx (x : sx) : pmap := to_list (to_pair to_nat to_str) x.

Definition pstate_sx (st : pstate) : sx :=
  L [pmap_sx (ps_params st); of_nat (ps_count st);
     of_list (of_pair of_str of_nat) (ps_errors st)].

Definition dispatch (f : Z) (x : sx) : sx :=
  match f with
  | 0 => (* AndroidChecker.check: [refEntity; l10nEntity] *)
      of_result (of_list issue_sx)
        (check (entity_of_sx (nth_sx 0 x)) (entity_of_sx (nth_sx 1 x)))
  | 1 => (* check_apostrophes: [string] *)
      of_result (of_list issue_sx) (check_apostrophes (to_str (nth_sx 0 x)))
  | 2 => (* get_params([string]): (params, count, errors) *)
      of_result pstate_sx (get_params (to_str (nth_sx 0 x)))
  | 3 => (* check_params: [params; count; string] *)
      of_result (of_list issue_sx)
        (check_params (pmap_of_sx (nth_sx 0 x)) (to_nat (nth_sx 1 x)) (to_str (nth_sx 2 x)))
  | 4 => (* node: [textContent; non_simple_data] *)
      let n := node_of_sx (nth_sx 0 x) in
      L [of_str (text_content n); of_bool (non_simple_data n)]
  | _ => sx_err
  end.

Require Extraction.
Require ExtrOcamlBasic.
Extraction Language OCaml.
Extraction "../ocaml/C09/model.ml" dispatch.
