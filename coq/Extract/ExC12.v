From CL Require Import Base.Sx Model.MatcherWire.

Definition dispatch := MatcherWire.dispatch.

Require Extraction.
Require ExtrOcamlBasic.
Extraction Language OCaml.
Extraction "../ocaml/C12/model.ml" dispatch.
