From Coq Require Import ZArith NArith List Bool.
From CL Require Import Base.Sx Base.Res Model.LineCol Model.LineColDtd.
Import ListNotations.
Open Scope Z_scope.

Definition dispatch (f : Z) (x : sx) : sx :=
  match f with
  | 0 => (* linecol [s; p] *)
      of_option (of_pair of_nat of_nat) (linecol (to_str (nth_sx 0 x)) (to_nat (nth_sx 1 x)))
  | 1 => (* position [s; [a; b]; off] *)
      of_option (of_pair of_nat of_nat)
        (position (to_str (nth_sx 0 x)) (to_pair to_nat to_nat (nth_sx 1 x)) (to_Z (nth_sx 2 x)))
  | 2 => (* all offsets of one text: [s; n] -> linecol s 0 .. linecol s n *)
      let s := to_str (nth_sx 0 x) in
      of_list (fun p => of_option (of_pair of_nat of_nat) (linecol s p))
              (seq 0 (S (to_nat (nth_sx 1 x))))
  | 3 => (* DTD tuple arm: [s; val_start; line_pos; col_pos] *)
      of_option (of_pair of_nat of_nat)
        (dtd_value_position (to_str (nth_sx 0 x)) (to_nat (nth_sx 1 x))
                            (to_nat (nth_sx 2 x)) (to_nat (nth_sx 3 x)))
  | _ => sx_err
  end.

Require Extraction.
Require ExtrOcamlBasic.
Extraction Language OCaml.
Extraction "../ocaml/C17/model.ml" dispatch.
