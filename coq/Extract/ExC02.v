From Coq Require Import ZArith NArith List Bool.
From CL Require Import Base.Sx Base.Res Base.Str Regex.Rx Model.Entry Model.Parse
  Model.ParseFormats Model.ParseFluent Model.Unescape.
Import ListNotations.
Open Scope Z_scope.

Definition vfmt_of (f : Z) : vfmt :=
  match f with 0 => VProps | 1 => VDtd | 2 => VIni | 3 => VInc | _ => VPo end.

(* the html_unescape oracle as the table the harness computed with CPython's
   html.unescape for every raw value of the case; a value missing from the table
   maps to an impossible code point *)
Fixpoint table_lookup (t : list (str * str)) (raw : str) : str :=
  match t with
  | [] => [1114112%N]
  | (k, v) :: t' => if str_eqb k raw then v else table_lookup t' raw
  end.

Definition fkind_of (z : Z) : fkind :=
  match z with 0 => FMessage | 1 => FTerm | 2 => FJunk | 3 => FComment | _ => FOther end.

Definition fentry_of (x : sx) : fentry :=
  mkf (fkind_of (to_Z (nth_sx 0 x))) (to_pair to_nat to_nat (nth_sx 1 x))
      (to_pair to_nat to_nat (nth_sx 2 x)) (to_option (to_pair to_nat to_nat) (nth_sx 3 x))
      (to_str (nth_sx 4 x)).

Definition ntype_of (z : Z) : ntype :=
  match z with 0 => NText | 1 => NCdata | 2 => NComment | 3 => NElement | _ => NOther end.

Definition anode_of (x : sx) : anode :=
  mknode (ntype_of (to_Z (nth_sx 0 x))) (to_str (nth_sx 1 x)) (to_str (nth_sx 2 x))
         (to_str (nth_sx 3 x)) (to_option to_str (nth_sx 4 x))
         (to_list (fun c => (ntype_of (to_Z (nth_sx 0 c)), to_str (nth_sx 1 c))) (nth_sx 5 x)).

Definition dispatch (f : Z) (x : sx) : sx :=
  match f with
  | 5 => (* Fluent: [s; body] *)
      of_list view_sx (fluent_views (to_str (nth_sx 0 x)) (to_list fentry_of (nth_sx 1 x)))
  | 6 => (* Android: [children] *)
      of_result (of_list view_sx) (android_views (to_list anode_of (nth_sx 0 x)))
  | 7 => of_result of_str (props_val (to_str (nth_sx 0 x)))
  | 8 => of_result of_str (po_line (to_str (nth_sx 0 x)))
  | 9 => of_result of_str (eval_stringlist (to_list to_str (nth_sx 0 x)))
  | 10 => of_str (comment_val_of (vfmt_of (to_Z (nth_sx 0 x))) (to_str (nth_sx 1 x)))
  | 11 => of_result of_str (normalize (to_str (nth_sx 0 x)))
  | _ => (* text formats: [s; html table] *)
      let table := to_list (to_pair to_str to_str) (nth_sx 1 x) in
      of_result (of_list view_sx) (views (table_lookup table) (vfmt_of f) (to_str (nth_sx 0 x)))
  end.

Require Extraction.
Require ExtrOcamlBasic.
Extraction Language OCaml.
Extraction "../ocaml/C02/model.ml" dispatch.
