From Coq Require Import ZArith NArith List Bool.
From CL Require Import Base.Sx Base.Res Base.Str Model.AddRemove Model.Compare Model.CountWords
  Model.CompareText.
Import ListNotations.
Open Scope Z_scope.

(* keys: [0; str] or [1; msgid; [] | [msgctxt]] *)
Definition key_of (x : sx) : pykey :=
  match to_Z (nth_sx 0 x) with
  | 0 => KS (to_str (nth_sx 1 x))
  | _ => KT (to_str (nth_sx 1 x)) (to_option to_str (nth_sx 2 x))
  end.

Definition key_sx (k : pykey) : sx :=
  match k with
  | KS s => L [A 0; of_str s]
  | KT i c => L [A 1; of_str i; of_option of_str c]
  end.

(* entity: [key; value class; words; junk; id] *)
Definition cent_of (x : sx) : @cent pykey Z :=
  mkcent (key_of (nth_sx 0 x)) (to_Z (nth_sx 1 x)) (to_nat (nth_sx 2 x))
         (to_bool (nth_sx 3 x)) (to_Z (nth_sx 4 x)).

Definition verdict_of (z : Z) : verdict :=
  match z with 0 => VError | 1 => VIgnore | _ => VWarning end.

(* filter table: [[key; verdict] ...], "error" for keys not listed (no filter) *)
Fixpoint flt_of (tbl : list (pykey * verdict)) (k : pykey) : verdict :=
  match tbl with
  | [] => VError
  | (k', v) :: tbl' => if pykey_eqb k k' then v else flt_of tbl' k
  end.

(* checker table: [[ref id; l10n id; [[error?; message id] ...]] ...], no findings otherwise *)
Fixpoint chk_of {V : Type} (tbl : list (Z * Z * list finding)) (a b : @cent pykey V) : list finding :=
  match tbl with
  | [] => []
  | (ra, lb, fs) :: tbl' =>
      if (c_id a =? ra) && (c_id b =? lb) then fs else chk_of tbl' a b
  end.

Definition finding_of (x : sx) : finding :=
  mkfinding (to_bool (nth_sx 0 x)) (to_Z (nth_sx 1 x)).

Definition note_sx (n : @note pykey) : sx :=
  match n with
  | NDup b k c => L [A 0; of_bool b; key_sx k; of_nat c]
  | NRefJunk => L [A 1]
  | NMissing k => L [A 2; key_sx k]
  | NObsolete k => L [A 3; key_sx k]
  | NJunk i => L [A 4; A i]
  | NCheck e m => L [A 5; of_bool e; A m]
  end.

Definition dispatch (f : Z) (x : sx) : sx :=
  match f with
  | 0 => (* compare: [filter table; ref; l10n; checker table; merge] *)
      let flt := flt_of (to_list (fun p => (key_of (nth_sx 0 p), verdict_of (to_Z (nth_sx 1 p))))
                                 (nth_sx 0 x)) in
      let ref := to_list cent_of (nth_sx 1 x) in
      let l10n := to_list cent_of (nth_sx 2 x) in
      let chk := chk_of (to_list (fun p => (to_Z (nth_sx 0 p), to_Z (nth_sx 1 p),
                                            to_list finding_of (nth_sx 2 p))) (nth_sx 3 x)) in
      let merge := to_bool (nth_sx 4 x) in
      of_result
        (fun a => L [of_list of_nat (stats_fields (a_stats a));
                     of_list note_sx (a_notes a);
                     of_list key_sx (a_missings a);
                     of_list A (a_skips a);
                     of_list note_sx (details flt a);
                     of_list of_nat (summary flt a)])
        (compare pykey_eqb Z.eqb py_keyname flt chk merge ref l10n)
  | 1 => (* ContentComparer.add: [verdict for missingFile; entities] *)
      of_option (fun p => L [of_nat (fst p); of_nat (snd p)])
                (add_file (verdict_of (to_Z (nth_sx 0 x))) (to_list cent_of (nth_sx 1 x)))
  | 2 => (* isinstance(k, str) and keyRE.search(k) *)
      of_bool (py_keyname (key_of x))
  | 4 => (* ContentComparer.compare on two .properties TEXTS:
            [filter table; reference text; l10n text; checker table (by span start); merge; junkid] *)
      let flt := flt_of (to_list (fun p => (key_of (nth_sx 0 p), verdict_of (to_Z (nth_sx 1 p))))
                                 (nth_sx 0 x)) in
      let chk := chk_of (to_list (fun p => (to_Z (nth_sx 0 p), to_Z (nth_sx 1 p),
                                            to_list finding_of (nth_sx 2 p))) (nth_sx 3 x)) in
      of_result
        (fun a => L [of_list of_nat (stats_fields (a_stats a));
                     of_list note_sx (a_notes a);
                     of_list key_sx (a_missings a);
                     of_list A (a_skips a);
                     of_list note_sx (details flt a);
                     of_list of_nat (summary flt a)])
        (compare_properties (to_nat (nth_sx 5 x)) flt chk (to_bool (nth_sx 4 x))
                            (to_str (nth_sx 1 x)) (to_str (nth_sx 2 x)))
  | 5 => (* the same for two .dtd TEXTS; html.unescape is an oracle, passed as the table
            [[raw value; unescaped] ...] (identity elsewhere) at index 6 *)
      let flt := flt_of (to_list (fun p => (key_of (nth_sx 0 p), verdict_of (to_Z (nth_sx 1 p))))
                                 (nth_sx 0 x)) in
      let chk := chk_of (to_list (fun p => (to_Z (nth_sx 0 p), to_Z (nth_sx 1 p),
                                            to_list finding_of (nth_sx 2 p))) (nth_sx 3 x)) in
      let tbl := to_list (fun p => (to_str (nth_sx 0 p), to_str (nth_sx 1 p))) (nth_sx 6 x) in
      let hu := fun raw => match find (fun p => str_eqb raw (fst p)) tbl with
                           | Some p => snd p
                           | None => raw
                           end in
      of_result
        (fun a => L [of_list of_nat (stats_fields (a_stats a));
                     of_list note_sx (a_notes a);
                     of_list key_sx (a_missings a);
                     of_list A (a_skips a);
                     of_list note_sx (details flt a);
                     of_list of_nat (summary flt a)])
        (compare_dtd hu (to_nat (nth_sx 5 x)) flt chk (to_bool (nth_sx 4 x))
                     (to_str (nth_sx 1 x)) (to_str (nth_sx 2 x)))
  | 3 => (* Entry.count_words on a value *)
      of_result of_nat (count_words (to_str x))
  | _ => sx_err
  end.

Require Extraction.
Require ExtrOcamlBasic.
Extraction Language OCaml.
Extraction "../ocaml/C03/model.ml" dispatch.
