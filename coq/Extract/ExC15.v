From Coq Require Import ZArith List Bool.
From CL Require Import Base.Sx Base.Res Base.Str Model.Channels.
Import ListNotations.
Open Scope Z_scope.

Definition versions_of_sx (s : sx) : list (list centry) := to_list (to_list centry_of_sx) s.

Definition dispatch (f : Z) (x : sx) : sx :=
  match f with
  | 0 => (* merge_channels [name; versions] -> result text *)
      of_result of_str (merge_channels (to_str (nth_sx 0 x)) (versions_of_sx (nth_sx 1 x)))
  | 1 => (* getParser name -> result (option parser code) *)
      of_result (of_option of_nat) (get_parser (to_str x))
  | 2 => (* merge_resources [keep_newest; versions] on freshly walked versions -> entries *)
      of_result (of_list (fun e => L [A (ckind_code (c_kind e)); of_str (c_key e); of_str (c_text e)]))
                (merge_resources (to_bool (nth_sx 0 x)) (number_all 0 (versions_of_sx (nth_sx 1 x))))
  | _ => sx_err
  end.

Require Extraction.
Require ExtrOcamlBasic.
Extraction Language OCaml.
Extraction "../ocaml/C15/model.ml" dispatch.
