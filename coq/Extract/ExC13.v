From Coq Require Import ZArith NArith List Bool.
From CL Require Import Base.Sx Base.Str Model.ProjectFiles Model.Toml.
Import ListNotations.
Open Scope Z_scope.

(* ---- the finite tables that instantiate the Matcher / file system parameters ---- *)
Definition str_at (strs : list str) (s : sx) : str := nth (to_nat s) strs [].
Definition strs_at (strs : list str) (s : sx) : list str := to_list (str_at strs) s.
Definition ostrs_at (strs : list str) (s : sx) : option (list str) :=
  to_option (strs_at strs) s.

Definition rule_of (strs : list str) (s : sx) : rule Z :=
  mkrule (to_Z (nth_sx 0 s)) (to_option to_Z (nth_sx 1 s))
         (to_list to_N (nth_sx 2 s)) (ostrs_at strs (nth_sx 3 s)).

(* cnode = [path; locales; rules; children] *)
Fixpoint cnode_of (strs : list str) (s : sx) : cnode Z :=
  match s with
  | L (p :: locs :: rules :: L ch :: _) =>
      CNode (str_at strs p) (ostrs_at strs locs) (to_list (rule_of strs) rules)
            (map (cnode_of strs) ch)
  | _ => CNode [] None [] []
  end.

Definition project_of (strs : list str) (s : sx) : project Z :=
  mkproject (cnode_of strs (nth_sx 0 s)) (to_list (cnode_of strs) (nth_sx 1 s)).

(* matcher row = [mid; prefix; pat; with_locale; with_merge; matching paths] *)
Record mrow := mkmrow {
  w_id : Z; w_prefix : str; w_pat : N; w_wl : Z; w_wm : Z; w_matches : list str
}.
Definition mrow_of (strs : list str) (s : sx) : mrow :=
  mkmrow (to_Z (nth_sx 0 s)) (str_at strs (nth_sx 1 s)) (to_N (nth_sx 2 s))
         (to_Z (nth_sx 3 s)) (to_Z (nth_sx 4 s)) (strs_at strs (nth_sx 5 s)).

Fixpoint row (tab : list mrow) (m : Z) : option mrow :=
  match tab with
  | [] => None
  | r :: tab' => if w_id r =? m then Some r else row tab' m
  end.

Definition t_prefix tab m := match row tab m with Some r => w_prefix r | None => [] end.
Definition t_pat tab m := match row tab m with Some r => w_pat r | None => 0%N end.
Definition t_wl tab m := match row tab m with Some r => w_wl r | None => m end.
Definition t_wm tab m := match row tab m with Some r => w_wm r | None => m end.
Definition t_matches tab m (p : str) :=
  match row tab m with Some r => mem_str p (w_matches r) | None => false end.

Fixpoint assoc_str {T} (k : str) (l : list (str * T)) : option T :=
  match l with
  | [] => None
  | (k', v) :: l' => if str_eqb k k' then Some v else assoc_str k l'
  end.

(* sub row = [m; m'; [[p; q] ...]] *)
Definition subrow := (Z * Z * list (str * str))%type.
Definition subrow_of (strs : list str) (s : sx) : subrow :=
  (to_Z (nth_sx 0 s), to_Z (nth_sx 1 s),
   to_list (fun pq => (str_at strs (nth_sx 0 pq), str_at strs (nth_sx 1 pq))) (nth_sx 2 s)).

Fixpoint t_sub (tab : list subrow) (m m' : Z) (p : str) : option str :=
  match tab with
  | [] => None
  | (a, b, l) :: tab' =>
      if (a =? m) && (b =? m') then assoc_str p l else t_sub tab' m m' p
  end.

Definition t_real (tab : list (str * str)) (s : str) : str :=
  match assoc_str s tab with Some r => r | None => s end.

(* ---- output ------------------------------------------------------------------ *)
Fixpoint ninsert (x : N) (l : list N) : list N :=
  match l with
  | [] => [x]
  | y :: l' => if N.ltb x y then x :: l else if N.eqb x y then l else y :: ninsert x l'
  end.
Definition nset (l : list N) : list N := fold_right ninsert [] l.

Definition of_ostr (o : option str) : sx := of_option of_str o.

Definition entry_sx (e : entry) : sx :=
  let '(k, r, mg, t) := e in L [of_ostr k; of_ostr r; of_ostr mg; of_list of_N (nset t)].

(* add / remove do not receive the tests *)
Definition call_sx (c : action * entry) : sx :=
  let '(a, (k, r, mg, t)) := c in
  L [A (action_code a); of_ostr k; of_ostr r; of_ostr mg;
     match a with DoCompare => of_list of_N (nset t) | _ => L [] end].

Definition of_pres {T} (f : T -> sx) (r : pres T) : sx :=
  match r with
  | POk v => L [A 0; f v]
  | PRaise e => L [A 1; A (perr_code e)]
  end.

Definition mrec_sx (tab : list mrow) (m : @mrec Z) : sx :=
  L [of_str (t_prefix tab (m_l10n m)); of_N (t_pat tab (m_l10n m));
     of_option A (m_ref m); of_option (fun g => of_str (t_prefix tab g)) (m_merge m);
     of_list of_N (nset (m_test m))].

(* ---- Toml ---------------------------------------------------------------------- *)
Definition kv_of (s : sx) : str * str := (to_str (nth_sx 0 s), to_str (nth_sx 1 s)).

(* path rule data = [l10n; reference?; test?; locales?] *)
Definition pdata_of (s : sx) : path_data :=
  mkpath_data (to_str (nth_sx 0 s)) (to_option to_str (nth_sx 1 s))
              (to_option (to_list to_str) (nth_sx 2 s))
              (to_option (to_list to_str) (nth_sx 3 s)).

(* file data = [basepath?; env; paths; includes; excludes; locales?] *)
Definition tdata_of (s : sx) : toml_data :=
  mktoml_data (to_option to_str (nth_sx 0 s)) (to_list kv_of (nth_sx 1 s))
              (to_list pdata_of (nth_sx 2 s))
              (to_option (to_list to_str) (nth_sx 3 s))
              (to_option (to_list to_str) (nth_sx 4 s))
              (to_option (to_list to_str) (nth_sx 5 s)).

Definition of_env (e : list (str * str)) : sx := of_list (of_pair of_str of_str) e.

Definition trule_sx (r : trule) : sx :=
  L [of_str (tr_l10n r); of_option of_str (tr_ref r); of_env (tr_env r); of_str (tr_root r);
     of_option (of_list of_str) (tr_test r); of_option (of_list of_str) (tr_locales r)].

Fixpoint tconfig_sx (c : tconfig) : sx :=
  match c with
  | TConfig p root env rules locs ch ex =>
      L [of_str p; of_str root; of_env env; of_list trule_sx rules;
         of_option (of_list of_str) locs;
         L (map tconfig_sx ch); L (map tconfig_sx ex)]
  end.

(* oracle tables of the Toml model *)
Fixpoint t_load (files : list (str * toml_data)) (p : str) : option toml_data :=
  match files with
  | [] => None
  | (p', d) :: files' => if str_eqb p p' then Some d else t_load files' p
  end.

Fixpoint env_eqb (a b : list (str * str)) : bool :=
  match a, b with
  | [], [] => true
  | (k, v) :: a', (k', v') :: b' => str_eqb k k' && str_eqb v v' && env_eqb a' b'
  | _, _ => false
  end.

Fixpoint t_resolve (tab : list (str * str * list (str * str) * str))
                   (root p : str) (env : list (str * str)) : str :=
  match tab with
  | [] => []
  | (r, p', e, out) :: tab' =>
      if str_eqb root r && str_eqb p p' && env_eqb env e then out else t_resolve tab' root p env
  end.

Fixpoint t_root (tab : list (str * str * str)) (path base : str) : str :=
  match tab with
  | [] => []
  | (p, b, out) :: tab' =>
      if str_eqb path p && str_eqb base b then out else t_root tab' path base
  end.

Definition of_tres {T} (f : T -> sx) (r : tres T) : sx :=
  match r with
  | TOk v => L [A 0; f v]
  | TRaise e => L [A 1; A (terr_code e)]
  end.

Definition dispatch (f : Z) (x : sx) : sx :=
  match f with
  | 0 =>
      (* [strs; locale; has_merge; projects; matcher rows; sub rows; realpath rows;
          fs; queries; run compareProjects?] ->
         build result; on Ok: [matchers; exclude matchers; iterate; match per query; drive] *)
      let strs := to_list to_str (nth_sx 0 x) in
      let locale := to_option (str_at strs) (nth_sx 1 x) in
      let has_merge := to_bool (nth_sx 2 x) in
      let ps := to_list (project_of strs) (nth_sx 3 x) in
      let tab := to_list (mrow_of strs) (nth_sx 4 x) in
      let stab := to_list (subrow_of strs) (nth_sx 5 x) in
      let rtab := to_list (fun pq => (str_at strs (nth_sx 0 pq), str_at strs (nth_sx 1 pq)))
                          (nth_sx 6 x) in
      let fs := strs_at strs (nth_sx 7 x) in
      let qs := strs_at strs (nth_sx 8 x) in
      let matches := t_matches tab in
      let sub := t_sub stab in
      of_pres
        (fun pf =>
           let it := iterate (t_prefix tab) matches sub fs pf in
           L [of_list (mrec_sx tab) (pf_matchers pf);
              of_option (of_list (mrec_sx tab)) (pf_exclude pf);
              of_pres (of_list entry_sx) it;
              of_list (fun q => of_option entry_sx (pf_match matches sub pf q)) qs;
              match (if to_bool (nth_sx 9 x) then it else PRaise EType) with
              | POk es =>
                  let (cs, e) := drive fs es in
                  L [of_list call_sx cs;
                     of_option (fun e => A (perr_code e)) e]
              | PRaise _ => L []
              end;
              (* iter_reference() called directly, whatever the locale *)
              of_pres (of_list entry_sx) (iter_reference (t_prefix tab) matches sub fs pf)])
        (build (t_prefix tab) (fun a b => N.eqb (t_pat tab a) (t_pat tab b)) (t_real rtab) (t_wl tab) (t_wm tab)
               locale has_merge ps)
  | 1 => (* posixpath.dirname *)
      of_str (dirname (to_str x))
  | 2 => (* sorted() of a list of distinct str *)
      of_list of_str (map (fun kv => match fst kv with Some s => s | None => [] end)
                          (ksort (map (fun s => (Some s, (None, None, [])))
                                      (to_list to_str x))))
  | 3 =>
      (* TOMLParser.parse: [fuel; files [[path; data]...]; resolve table
         [[root; path text; env; result]...]; root table [[config path; basepath; root]...];
         path; parser env; ignore_missing_includes] *)
      let files := to_list (fun s => (to_str (nth_sx 0 s), tdata_of (nth_sx 1 s))) (nth_sx 1 x) in
      let rtab := to_list (fun s => (to_str (nth_sx 0 s), to_str (nth_sx 1 s),
                                     to_list kv_of (nth_sx 2 s), to_str (nth_sx 3 s)))
                          (nth_sx 2 x) in
      let roots := to_list (fun s => (to_str (nth_sx 0 s), to_str (nth_sx 1 s),
                                      to_str (nth_sx 2 s))) (nth_sx 3 x) in
      of_tres tconfig_sx
        (parse (t_load files) (t_root roots) (t_resolve rtab)
               (to_nat (nth_sx 0 x)) (to_str (nth_sx 4 x)) (to_list kv_of (nth_sx 5 x))
               (to_bool (nth_sx 6 x)))
  | _ => sx_err
  end.

Require Extraction.
Require ExtrOcamlBasic.
Extraction Language OCaml.
Extraction "../ocaml/C13/model.ml" dispatch.
