(* Universal wire format between the harness and the model: nested lists of
   integers.  Every model entry point exposed to the correspondence check is
   wrapped as [sx -> sx]; the OCaml driver and the in-Coq evaluation
   ([vm_compute] in generated cases files) share these wrappers. *)
From Coq Require Import ZArith NArith List Bool.
Import ListNotations.

Inductive sx : Type :=
| A (z : Z)
| L (l : list sx).

Definition sx_err : sx := L [A (-1)].          (* ill-typed request *)

Definition of_nat (n : nat) : sx := A (Z.of_nat n).
Definition of_N (n : N) : sx := A (Z.of_N n).
Definition of_bool (b : bool) : sx := A (if b then 1 else 0)%Z.
Definition of_list {T} (f : T -> sx) (l : list T) : sx := L (map f l).
Definition of_str (s : list N) : sx := of_list of_N s.
Definition of_pair {T U} (f : T -> sx) (g : U -> sx) (p : T * U) : sx :=
  L [f (fst p); g (snd p)].
Definition of_option {T} (f : T -> sx) (o : option T) : sx :=
  match o with None => L [] | Some x => L [f x] end.

Definition to_Z (s : sx) : Z := match s with A z => z | L _ => 0%Z end.
Definition to_nat (s : sx) : nat := Z.to_nat (to_Z s).
Definition to_N (s : sx) : N := Z.to_N (to_Z s).
Definition to_bool (s : sx) : bool := negb (Z.eqb (to_Z s) 0).
Definition to_list {T} (f : sx -> T) (s : sx) : list T :=
  match s with A _ => [] | L l => map f l end.
Definition to_str (s : sx) : list N := to_list to_N s.
Definition nth_sx (n : nat) (s : sx) : sx :=
  match s with A _ => sx_err | L l => nth n l sx_err end.
Definition to_option {T} (f : sx -> T) (s : sx) : option T :=
  match s with L [x] => Some (f x) | _ => None end.
Definition to_pair {T U} (f : sx -> T) (g : sx -> U) (s : sx) : T * U :=
  (f (nth_sx 0 s), g (nth_sx 1 s)).

Fixpoint sx_eqb (a b : sx) {struct a} : bool :=
  match a, b with
  | A x, A y => Z.eqb x y
  | L xs, L ys =>
      (fix go (xs ys : list sx) {struct xs} : bool :=
         match xs, ys with
         | [], [] => true
         | x :: xs', y :: ys' => sx_eqb x y && go xs' ys'
         | _, _ => false
         end) xs ys
  | _, _ => false
  end.

(* indices of the cases on which the model disagrees with the recorded
   implementation answer; used by the in-Coq cross-check of extraction *)
Fixpoint disagreements (f : sx -> sx) (cases : list (sx * sx)) (i : nat) : list nat :=
  match cases with
  | [] => []
  | (inp, out) :: rest =>
      if sx_eqb (f inp) out then disagreements f rest (S i)
      else i :: disagreements f rest (S i)
  end.
