(* Strings are lists of code points.  Python-semantics helpers. *)
From Coq Require Import NArith List Bool Arith.
Import ListNotations.

Definition str := list N.

Definition str_eqb (a b : str) : bool :=
  (fix go (a b : str) : bool :=
     match a, b with
     | [], [] => true
     | x :: a', y :: b' => N.eqb x y && go a' b'
     | _, _ => false
     end) a b.

(* s[a:b] for 0 <= a, b (clamped, never raises) *)
Definition slice (s : str) (a b : nat) : str := firstn (b - a) (skipn a s).

Fixpoint starts_with (p s : str) : bool :=
  match p, s with
  | [], _ => true
  | x :: p', y :: s' => N.eqb x y && starts_with p' s'
  | _ :: _, [] => false
  end.

(* s.startswith(p, off) *)
Definition startswith_at (p s : str) (off : nat) : bool :=
  (off <=? length s) && starts_with p (skipn off s).

(* needle in hay *)
Fixpoint contains (needle hay : str) : bool :=
  starts_with needle hay ||
  match hay with
  | [] => false
  | _ :: hay' => contains needle hay'
  end.

Definition count_char (c : N) (s : str) : nat := length (filter (N.eqb c) s).

(* s.find(chr(c), off): index of the first c at or after off *)
Fixpoint find_from (c : N) (s : str) (i : nat) : option nat :=
  match s with
  | [] => None
  | x :: s' => if N.eqb x c then Some i else find_from c s' (S i)
  end.
Definition find_char (c : N) (s : str) (off : nat) : option nat :=
  find_from c (skipn off s) off.

(* the line boundaries of str.splitlines *)
Definition is_linebreak (c : N) : bool :=
  existsb (N.eqb c) [10; 13; 11; 12; 28; 29; 30; 133; 8232; 8233]%N.

(* s.splitlines(True) for texts without "\r\n" pairs being special: a "\r\n"
   pair is one boundary in Python; modelled *)
Fixpoint splitlines_keep_aux (s : str) (cur : str) : list str :=
  match s with
  | [] => match cur with [] => [] | _ => [rev cur] end
  | c :: s' =>
      if is_linebreak c then
        match c, s' with
        | 13%N, 10%N :: s'' => rev (10%N :: 13%N :: cur) :: splitlines_keep_aux s'' []
        | _, _ => rev (c :: cur) :: splitlines_keep_aux s' []
        end
      else splitlines_keep_aux s' (c :: cur)
  end.
Definition splitlines_keep (s : str) : list str := splitlines_keep_aux s [].

Definition of_ascii (l : list nat) : str := map N.of_nat l.
