(* Python exceptions are explicit results in the models. *)
From Coq Require Import ZArith List.
From CL Require Import Base.Sx.
Import ListNotations.

Inductive tag :=
| TypeError | IndexError | KeyError | AssertionError | ValueError
| BadEntity | ReError | RuntimeError | OutOfFuel | MissingEnv | NotSupported.

Inductive result (T : Type) :=
| Ok (v : T)
| Raise (t : tag).
Arguments Ok {T} v.
Arguments Raise {T} t.

Definition bind {T U} (r : result T) (f : T -> result U) : result U :=
  match r with Ok v => f v | Raise t => Raise t end.
Notation "'do' x <- r ; k" := (bind r (fun x => k))
  (at level 200, x pattern, r at level 100, k at level 200).

Definition tag_code (t : tag) : Z :=
  match t with
  | TypeError => 1 | IndexError => 2 | KeyError => 3 | AssertionError => 4
  | ValueError => 5 | BadEntity => 6 | ReError => 7 | RuntimeError => 8
  | OutOfFuel => 9 | MissingEnv => 10 | NotSupported => 11
  end%Z.

Definition of_result {T} (f : T -> sx) (r : result T) : sx :=
  match r with
  | Ok v => L [A 0; f v]
  | Raise t => L [A 1; A (tag_code t)]
  end.

Definition is_ok {T} (r : result T) : bool :=
  match r with Ok _ => true | Raise _ => false end.
